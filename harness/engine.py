#!/venv/bin/python
"""
engine — the single entry point behind ./check.

    ./check <Cnn> [--tier quick|thorough] [--replay <file>]
    ./check --setup            build everything (MANIFEST.setup_cmd)
    ./check --list

Per property it (1) regenerates lean/Generated from /repo's working tree and rebuilds
the Lean model, the property's theorem file and the line-protocol driver, (2) audits
the theorem file (`#print axioms`, forbidden-token grep), (3) runs the correspondence
check of harness/corr/<Cnn>.py: real Twisted in-process vs. the compiled Lean model on
the same cases, plus the property oracle on the implementation for every case, and
(4) writes evidence/<Cnn>.json.  See DESIGN.md §2, §4, §5.

Exit 0: property held on everything explored.  Exit 1 + "VIOLATION property=<id>
replay=<path>[ no-failing-input-found]".  Exit 2: infrastructure trouble (no verdict).
"""
from __future__ import annotations

import argparse
import fcntl
import hashlib
import importlib
import json
import os
import random
import re
import signal
import subprocess
import sys
import time
import traceback
from pathlib import Path

VERIF = Path(__file__).resolve().parent.parent
LEAN = VERIF / "lean"
HARNESS = VERIF / "harness"
REPO = Path(os.environ.get("VERIF_REPO", "/repo"))
DRIVER = LEAN / ".lake" / "build" / "bin" / "driver"
ALLOWED_AXIOMS = {"propext", "Classical.choice", "Quot.sound"}
FORBIDDEN = re.compile(
    r"\bsorry\b|\badmit\b|^\s*axiom\s|native_decide|bv_decide|implemented_by|\bunsafe\s|maxHeartbeats\s+0\b",
    re.M,
)

sys.path.insert(0, str(HARNESS))
sys.path.insert(0, str(REPO / "src"))
os.environ.setdefault("TWISTED_VERIF", "1")


class Infra(Exception):
    pass


# ----------------------------------------------------------------------------------------
# building

def sh(cmd, cwd=None, timeout=3600, env=None):
    p = subprocess.run(cmd, cwd=cwd, capture_output=True, text=True, timeout=timeout, env=env)
    return p.returncode, p.stdout + p.stderr


class BuildLock:
    def __enter__(self):
        self.f = open(LEAN / ".build.lock", "w")
        fcntl.flock(self.f, fcntl.LOCK_EX)
        return self

    def __exit__(self, *a):
        fcntl.flock(self.f, fcntl.LOCK_UN)
        self.f.close()


def regenerate():
    """Translator + driver dispatch table; both deterministic functions of the trees."""
    rc, out = sh([sys.executable, str(HARNESS / "py2lean.py"), str(REPO), str(LEAN / "Generated")])
    gen_ok = rc == 0
    rc2, out2 = sh([sys.executable, str(HARNESS / "gen_main.py")])
    if rc2 != 0:
        raise Infra("gen_main failed: " + out2)
    return gen_ok, out


def lake_build(targets, timeout=3600):
    return sh(["lake", "build", *targets], cwd=LEAN, timeout=timeout)


def build_models():
    rc, out = lake_build(["TwistedModel", "driver"])
    if rc != 0:
        raise Infra("model/driver build failed:\n" + out[-4000:])


def prop_module_name(pid):
    return f"TwistedProps.{pid}"


def strip_comments(src: str) -> str:
    # nested block comments, then line comments
    out, i, depth = [], 0, 0
    while i < len(src):
        if src.startswith("/-", i):
            depth += 1
            i += 2
        elif depth and src.startswith("-/", i):
            depth -= 1
            i += 2
        elif depth:
            i += 1
        elif src.startswith("--", i):
            j = src.find("\n", i)
            i = len(src) if j < 0 else j
        else:
            out.append(src[i])
            i += 1
    return "".join(out)


def lean_imports(path: Path):
    deps = []
    for line in path.read_text().splitlines():
        m = re.match(r"\s*(?:public\s+)?import\s+(\S+)", line)
        if m:
            deps.append(m.group(1))
    return deps


def local_closure(pid):
    """Lean source files (in this project) the property file transitively imports."""
    seen, todo, files = set(), [prop_module_name(pid)], []
    while todo:
        mod = todo.pop()
        if mod in seen:
            continue
        seen.add(mod)
        p = LEAN / (mod.replace(".", "/") + ".lean")
        if p.exists():
            files.append(p)
            todo.extend(lean_imports(p))
    return files


def theorem_names(pid, lemmas=False):
    """Fully qualified names of every `theorem` in the property file (the statements live there) and, with
    `lemmas` (thorough tier), in its lemma files lean/TwistedProps/<pid>/*.lean as well.  `#print axioms` is
    transitive, so the quick audit of the property file already covers every lemma it uses."""
    files = [LEAN / "TwistedProps" / f"{pid}.lean"]
    if lemmas:
        files += [f for f in local_closure(pid) if f.parent == LEAN / "TwistedProps" / pid]
    names = []
    for f in files:
        names += _theorem_names_in(f)
    return names


def _theorem_names_in(path):
    src = strip_comments(path.read_text())
    names, ns = [], []
    for line in src.splitlines():
        m = re.match(r"\s*namespace\s+(\S+)", line)
        if m:
            ns.append(m.group(1))
            continue
        m = re.match(r"\s*end\s+(\S+)", line)
        if m and ns and ns[-1] == m.group(1):
            ns.pop()
            continue
        m = re.match(r"\s*(?:@\[[^\]]*\]\s*)*(private\s+|protected\s+)?theorem\s+([^\s:({\[]+)", line)
        if m and not (m.group(1) or "").startswith("private"):   # private lemmas are audited through their users
            names.append(".".join(ns + [m.group(2)]))
    return names


def audit(pid, thorough=False):
    """Returns dict(theorems=[{name, axioms}], obligations, discharged, problems=[...])."""
    problems = []
    files = local_closure(pid)
    for f in files:
        for m in FORBIDDEN.finditer(strip_comments(f.read_text())):
            problems.append(f"forbidden token {m.group(0).strip()!r} in {f.relative_to(LEAN)}")
    names = theorem_names(pid, lemmas=thorough)
    (LEAN / "Audit").mkdir(exist_ok=True)
    af = LEAN / "Audit" / f"{pid}.lean"
    af.write_text(f"import {prop_module_name(pid)}\n" + "".join(f"#print axioms {n}\n" for n in names))
    rc, out = sh(["lake", "env", "lean", str(af)], cwd=LEAN, timeout=1800)
    if rc != 0:
        problems.append("axiom audit failed to run: " + out[-1500:])
    thms = []
    text = out.replace("\n  ", " ").replace("\n ", " ")
    for n in names:
        m = re.search(r"'" + re.escape(n) + r"' depends on axioms: \[([^\]]*)\]", text)
        if m:
            ax = [a.strip() for a in m.group(1).split(",") if a.strip()]
        elif re.search(r"'" + re.escape(n) + r"' does not depend on any axioms", text):
            ax = []
        else:
            ax = None
            problems.append(f"no axiom report for {n}")
        thms.append({"name": n, "axioms": ax})
    discharged = sum(1 for t in thms if t["axioms"] is not None and set(t["axioms"]) <= ALLOWED_AXIOMS)
    for t in thms:
        if t["axioms"] is not None and not set(t["axioms"]) <= ALLOWED_AXIOMS:
            problems.append(f"{t['name']} depends on disallowed axioms {sorted(set(t['axioms']) - ALLOWED_AXIOMS)}")
    res = {"theorems": thms, "obligations": len(names), "discharged": discharged, "problems": problems,
           "files": [str(f.relative_to(LEAN)) for f in files]}
    if thorough:
        mods = [str(f.relative_to(LEAN))[:-5].replace("/", ".") for f in files]
        rc, out = sh(["lake", "env", "leanchecker", *mods], cwd=LEAN, timeout=3600)
        res["leanchecker"] = {"modules": mods, "rc": rc, "tail": out[-400:]}
        if rc != 0:
            problems.append("leanchecker rejected the compiled modules: " + out[-800:])
    return res


# ----------------------------------------------------------------------------------------
# driver

def run_driver(lines):
    if not lines:
        return []
    for ln in lines:
        if "\n" in ln:
            raise Infra("model line contains newline")
    p = subprocess.run([str(DRIVER)], input="\n".join(lines) + "\n", capture_output=True, text=True, timeout=3600)
    if p.returncode != 0:
        raise Infra(f"driver exited {p.returncode}: {p.stderr[-2000:]}")
    out = p.stdout.split("\n")
    if out and out[-1] == "":
        out.pop()
    if len(out) != len(lines):
        raise Infra(f"driver produced {len(out)} lines for {len(lines)} inputs")
    return out


# ----------------------------------------------------------------------------------------
# known findings

def load_known(pid):
    """finding lines for this property → {key: text}"""
    known = {}
    p = VERIF / "known-findings.txt"
    if p.exists():
        for line in p.read_text().splitlines():
            m = re.match(r"finding:\s+property=(\S+)\s+key=(\S+)\s*(.*)", line)
            if m and m.group(1) == pid:
                known[m.group(2)] = m.group(3)
    return known


# ----------------------------------------------------------------------------------------
# the check

class Timeout(Exception):
    pass


def _alarm(signum, frame):
    raise Timeout()


def jdump(x):
    return json.dumps(x, sort_keys=True, default=repr)


def case_digest(case):
    return hashlib.sha1(jdump(case).encode()).hexdigest()[:12]


class Check:
    def __init__(self, pid, tier, seed):
        self.pid, self.tier, self.seed = pid, tier, seed
        self.mod = importlib.import_module(f"corr.{pid}")
        self.rng = random.Random(seed * 1000003 + int(pid[1:]))
        self.t0 = time.time()
        self.known = load_known(pid)
        self.replays_written = 0

    # -- running cases ---------------------------------------------------------------
    def run_cases(self, cases):
        """→ list of (case, impl_out, model_out, oracle_result)"""
        mod = self.mod
        lines = [mod.model_line(c) for c in cases]      # None ⇒ oracle-only case (no model counterpart)
        idx = [i for i, ln in enumerate(lines) if ln is not None]
        outs = run_driver([f"{self.pid} {lines[i]}" for i in idx])
        model_out = [None] * len(cases)
        for i, o in zip(idx, outs):
            model_out[i] = o
        res = []
        for c, mo in zip(cases, model_out):
            try:
                io = mod.run_impl(c)
            except Timeout:
                raise
            except BaseException as e:  # an escaping exception is an observable too
                io = f"!raised {type(e).__name__}"
                if os.environ.get("VERIF_DEBUG"):
                    traceback.print_exc()
            try:
                orc = mod.oracle(c, io) if hasattr(mod, "oracle") else None
            except Timeout:
                raise
            except Exception as e:     # the oracle runs real code too: an escaping exception is a failure to explain
                orc = {"key": "oracle-raised", "detail": f"{type(e).__name__}: {e}"[:300]}
                if os.environ.get("VERIF_DEBUG"):
                    traceback.print_exc()
            res.append((c, io, mo, orc))
        return res

    def agree(self, case, io, mo):
        if mo is None:
            return True
        cmp_ = getattr(self.mod, "compare", None)
        return cmp_(case, io, mo) if cmp_ else io == mo

    def write_replay(self, kind, payload):
        d = VERIF / "replays"
        d.mkdir(exist_ok=True)
        path = d / f"{self.pid}-{self.seed}-{self.replays_written}.json"
        self.replays_written += 1
        payload = dict(payload)
        payload.update({"property": self.pid, "kind": kind,
                        "rerun": f"./check {self.pid} --replay {path.relative_to(VERIF)}"})
        path.write_text(json.dumps(payload, indent=1, sort_keys=True, default=repr) + "\n")
        return str(path.relative_to(VERIF))

    def shrink(self, case, fails_pred):
        """Greedy delta debugging; candidates are evaluated in batches (one driver process per batch).
        `fails_pred(result_tuple) -> bool` judges one (case, impl_out, model_out, oracle) result."""
        shr = getattr(self.mod, "shrink", None)
        if not shr:
            return case
        deadline = time.time() + (20 if self.tier == "quick" else 120)
        progress = True
        while progress and time.time() < deadline:
            progress = False
            batch = []
            for cand in shr(case):
                batch.append(cand)
                if len(batch) >= 48:
                    break
            if not batch:
                break
            try:
                results = self.run_cases(batch)
            except Timeout:
                raise
            except Exception:
                results = []
                for cand in batch:          # one bad candidate must not sink the batch
                    try:
                        results += self.run_cases([cand])
                    except Timeout:
                        raise
                    except Exception:
                        continue
            for r in results:
                if fails_pred(r):
                    case, progress = r[0], True
                    break
        return case

    # -- main ------------------------------------------------------------------------
    def run(self, replay=None):
        pid, mod, tier = self.pid, self.mod, self.tier
        violations, known_hits, notes = [], [], []
        harness_crash = None
        ev_cov = {}

        # 1. regenerate + build
        with BuildLock():
            gen_ok, gen_out = regenerate()
            build_models()
            rc, out = lake_build([prop_module_name(pid)])
            proof_ok = rc == 0
            build_tail = out[-3000:]
            aud = audit(pid, thorough=(tier == "thorough")) if proof_ok else {
                "theorems": [{"name": n, "axioms": None} for n in theorem_names(pid)],
                "obligations": len(theorem_names(pid)), "discharged": 0,
                "problems": ["property file does not build"], "files": []}
        if not gen_ok:
            notes.append("translator: " + gen_out.strip()[-500:])
        proof_broken = (not proof_ok) or bool(aud["problems"])

        # 2. cases
        if replay is not None:
            rp = json.loads(Path(replay).read_text())
            cases = [rp["input"]] if "input" in rp else []
            corpus_n = 0
        else:
            corpus = list(mod.corpus()) if hasattr(mod, "corpus") else []
            corpus += load_corpus_dir(pid)
            corpus_n = len(corpus)
            cases = list(corpus)
            try:
                for c in mod.generate(self.rng, tier):
                    cases.append(c)
            except Timeout:
                raise
            except Exception as e:      # generators may drive the real code: a crash there is a broken tie
                harness_crash = f"generate() raised {type(e).__name__}: {e}"[:400]
                if os.environ.get("VERIF_DEBUG"):
                    traceback.print_exc()
        results = self.run_cases(cases)

        disagreements = [(c, io, mo) for (c, io, mo, orc) in results if not self.agree(c, io, mo)]
        if os.environ.get("VERIF_DEBUG"):
            for c, io, mo in disagreements[:10]:
                print(f"# DISAGREE case={jdump(c)[:300]}\n#   impl ={str(io)[:300]}\n#   model={str(mo)[:300]}")
        oracle_fail = [(c, io, orc) for (c, io, mo, orc) in results if orc]

        # 3. if the tie or a proof is broken: property-directed search on the real code
        searched = 0
        if (disagreements or proof_broken or harness_crash) and replay is None:
            extra = []
            try:
                if hasattr(mod, "search"):
                    for c in mod.search(self.rng, tier, [c for c, _, _ in disagreements]):
                        extra.append(c)
                else:
                    for c in mod.generate(random.Random(self.seed + 7919), "thorough"):
                        extra.append(c)
            except Timeout:
                raise
            except Exception as e:
                harness_crash = harness_crash or f"search() raised {type(e).__name__}: {e}"[:400]
            searched = len(extra)
            more = self.run_cases(extra)
            oracle_fail += [(c, io, orc) for (c, io, mo, orc) in more if orc]
            results_all = results + more
        else:
            results_all = results

        # 4. classify oracle failures (violations of the property on the implementation)
        seen_keys = {}
        for c, io, orc in oracle_fail:
            key = orc.get("key", "witness")
            seen_keys.setdefault(key, []).append((c, io, orc))
        for key, lst in seen_keys.items():
            c, io, orc = min(lst, key=lambda t: len(jdump(t[0])))
            if key in self.known:
                known_hits.append((key, orc.get("detail", ""), c))
                continue

            def still(r, key=key):
                return bool(r[3]) and r[3].get("key", "witness") == key
            c2 = self.shrink(c, still)
            r2 = self.run_cases([c2])[0]
            path = self.write_replay("witness", {
                "input": c2, "observed": r2[1], "model": r2[2], "key": key,
                "detail": (r2[3] or orc).get("detail", ""),
                "theorem_or_tie": getattr(mod, "HEADLINE", "")})
            violations.append((path, False, f"{key}: {(r2[3] or orc).get('detail', '')}"))

        # 5. tie / proof broken with no witness ⇒ still a violation (no-failing-input-found)
        new_witness = any(not nf for _, nf, _ in violations)
        if disagreements and not new_witness:
            # a disagreement that coincides with a *known* finding's witness is explained by it
            c, io, mo = min(disagreements, key=lambda t: len(jdump(t[0])))

            def still_d(r):
                return not self.agree(r[0], r[1], r[2])
            c2 = self.shrink(c, still_d)
            r2 = self.run_cases([c2])[0]
            path = self.write_replay("tie-broken", {
                "input": c2, "observed": r2[1], "model": r2[2],
                "theorem_or_tie": f"correspondence harness/corr/{pid}.py (model vs implementation)",
                "disagreements": len(disagreements), "searched_cases": searched})
            violations.append((path, True, f"model and implementation disagree on {len(disagreements)} case(s)"))
        if harness_crash and not new_witness and not disagreements:
            path = self.write_replay("tie-broken", {
                "theorem_or_tie": f"correspondence harness/corr/{pid}.py could not drive the implementation",
                "detail": harness_crash, "searched_cases": searched})
            violations.append((path, True, "the harness's generator crashed on the implementation: " + harness_crash))
        if proof_broken and not new_witness:
            path = self.write_replay("proof-broken", {
                "theorem_or_tie": [t["name"] for t in aud["theorems"] if t["axioms"] is None] or aud["problems"],
                "problems": aud["problems"], "build_tail": build_tail if not proof_ok else "",
                "searched_cases": searched})
            violations.append((path, True, "proof obligation no longer checks: " + "; ".join(aud["problems"])[:300]))

        # 6. evidence
        tagf = getattr(mod, "tag", lambda case, io: io)
        nontriv = getattr(mod, "nontrivial", lambda case, io: True)
        tags = {}
        for c, io, mo, orc in results_all:
            if nontriv(c, io):
                t = tagf(c, io)
                tags[t] = tags.get(t, 0) + 1
        dist = dict(sorted(tags.items(), key=lambda kv: -kv[1])[:40])
        samples = []
        step = max(1, len(results) // 4)
        for c, io, mo, orc in results[::step][:5]:
            samples.append({"case": c, "impl": io, "model": mo})
        wall = time.time() - self.t0
        tb = list(getattr(mod, "TRUSTED", [])) + [
            "Lean 4.33.0 kernel (lake build; leanchecker re-check in the thorough tier)",
            "axioms allowed: propext, Classical.choice, Quot.sound (audited per theorem on this run)",
            "hand-written Lean model tied to /repo by this run's differential correspondence (generator quality bounds it)",
            "compiled Lean driver (leanc) for executing the model",
            "CPython 3.12 semantics of the operations the model transcribes",
        ]
        ev = {
            "property_id": pid, "tier": tier, "seed": self.seed, "level": "proof",
            "wall_s": round(wall, 2), "violations": len(violations),
            "coverage": {
                "obligations": aud["obligations"], "discharged": aud["discharged"],
                "checker_cmd": f"cd lean && lake build {prop_module_name(pid)} && lake env lean Audit/{pid}.lean"
                               + (" && lake env leanchecker <closure>" if tier == "thorough" else ""),
                "trusted_base": tb,
                "theorems": aud["theorems"],
                "audit_problems": aud["problems"],
                "lean_files": aud["files"],
                "leanchecker": aud.get("leanchecker"),
                "evaluations": len(results_all),
                "distinct_nontrivial": len(tags),
                "rule": getattr(mod, "RULE", "seeded generator; distinct = distinct tag(case, observable)"),
                "samples": samples,
                "correspondence": {
                    "cases": len(results), "corpus_cases": corpus_n, "search_cases": searched,
                    "model_compared_cases": sum(1 for r in results_all if r[2] is not None),
                    "oracle_only_cases": sum(1 for r in results_all if r[2] is None),
                    "disagreements": len(disagreements), "oracle_failures": len(oracle_fail),
                    "distribution": dist,
                },
                "translator_ok": gen_ok,
                "known_findings_reproduced": [k for k, _, _ in known_hits],
                "notes": notes,
            },
            "assumptions": list(getattr(mod, "ASSUMES", [])),
        }
        extra_ev = getattr(mod, "extra_evidence", None)
        if extra_ev:
            ev["coverage"].update(extra_ev())
        (VERIF / "evidence").mkdir(exist_ok=True)
        (VERIF / "evidence" / f"{pid}.json").write_text(json.dumps(ev, indent=1, default=repr) + "\n")

        # 7. report
        for key, detail, c in known_hits:
            print(f"KNOWN-FINDING: property={pid} {key} {self.known[key]} [{detail[:160]}]")
        for path, nofail, text in violations:
            print(f"# {text}")
            print(f"VIOLATION property={pid} replay={path}" + (" no-failing-input-found" if nofail else ""))
        print(f"{pid} {tier} seed={self.seed}: theorems {aud['discharged']}/{aud['obligations']}, "
              f"cases {len(results_all)} (distinct {len(tags)}), disagreements {len(disagreements)}, "
              f"oracle failures {len(oracle_fail)}, known {len(known_hits)}, {wall:.1f}s")
        return 1 if violations else 0


def load_corpus_dir(pid):
    d = HARNESS / "corpus" / pid
    out = []
    if d.is_dir():
        for f in sorted(d.glob("*.json")):
            j = json.loads(f.read_text())
            out.append(j["input"] if isinstance(j, dict) and "input" in j else j)
    return out


def all_props():
    return sorted(p.stem for p in (HARNESS / "corr").glob("C*.py"))


def setup():
    with BuildLock():
        gen_ok, gen_out = regenerate()
        rc, out = lake_build(["TwistedModel", "Generated", "TwistedProps", "driver"])
        print(out[-3000:])
        if rc != 0:
            return 2
    return 0


def main(argv=None):
    ap = argparse.ArgumentParser()
    ap.add_argument("pid", nargs="?")
    ap.add_argument("--tier", default=os.environ.get("VERIF_TIER") or "quick", choices=["quick", "thorough"])
    ap.add_argument("--replay")
    ap.add_argument("--setup", action="store_true")
    ap.add_argument("--list", action="store_true")
    a = ap.parse_args(argv)
    if a.setup:
        return setup()
    if a.list:
        print("\n".join(all_props()))
        return 0
    if not a.pid:
        ap.error("property id required")
    try:
        seed = int(os.environ.get("VERIF_SEED", "0") or 0)
    except ValueError:
        seed = 0
    signal.signal(signal.SIGALRM, _alarm)
    signal.alarm(int(os.environ.get("VERIF_TIMEOUT", 900 if a.tier == "quick" else 5400)))
    try:
        return Check(a.pid, a.tier, seed).run(replay=a.replay)
    except Timeout:
        print(f"{a.pid}: timed out (no verdict)", file=sys.stderr)
        return 2
    except Infra as e:
        print(f"{a.pid}: infrastructure error: {e}", file=sys.stderr)
        return 2
    except subprocess.TimeoutExpired as e:
        print(f"{a.pid}: subprocess timeout: {e}", file=sys.stderr)
        return 2


if __name__ == "__main__":
    sys.exit(main())
