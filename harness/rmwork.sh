#!/bin/sh
# rmwork.sh <name> — remove the workspace made by mkwork.sh
n="$1"
if [ ! -e "/work/$n/.merged" ] && [ "$2" != "--force" ]; then echo "refusing to remove /work/$n: not merged (use --force)"; exit 1; fi
git -C /repo worktree remove --force "/work/$n/repo" 2>/dev/null
rm -rf "/work/$n"
git -C /repo worktree prune
