#!/bin/sh
# rmwork.sh <name> — remove the workspace made by mkwork.sh
n="$1"
git -C /repo worktree remove --force "/work/$n/repo" 2>/dev/null
rm -rf "/work/$n"
git -C /repo worktree prune
