"""Stand-in for the `priority` wheel (absent from the sandbox) — only what twisted.web._http2 uses.

A flat tree (dependencies and weights are accepted and ignored): every inserted stream is a child
of the root and is either active (unblocked) or blocked.  `next(tree)` takes one of the active
streams and moves it to the back of the rotation (round robin); it raises DeadlockError when no
stream is active — the same contract as priority.PriorityTree for a flat tree of equal weights.

For the C29 check the choice among the active streams is steerable: when `tree._pick` is an int (default
None = plain round robin) `next(tree)` returns the `_pick % n`-th of the n active streams in insertion
order and does not rotate, so that the harness can drive an arbitrary scheduler, not just round robin.
`tree._inserted` / `tree._active` are read by the harness.
"""


class PriorityError(Exception):
    pass


class DeadlockError(PriorityError):
    pass


class PriorityLoop(PriorityError):
    pass


class DuplicateStreamError(PriorityError):
    pass


class MissingStreamError(KeyError, PriorityError):
    pass


class TooManyStreamsError(PriorityError):
    pass


class BadWeightError(PriorityError):
    pass


class PseudoStreamError(PriorityError):
    pass


class PriorityTree:
    def __init__(self, maximum_streams=1000):
        if maximum_streams <= 0:
            raise ValueError("maximum_streams must be a positive integer.")
        self._maximum_streams = maximum_streams
        self._order = []  # rotation order of stream ids
        self._inserted = []  # insertion order of stream ids
        self._active = {}  # stream id -> bool
        self._pick = None

    def _check(self, stream_id):
        if stream_id == 0:
            raise PseudoStreamError()
        if stream_id not in self._active:
            raise MissingStreamError(stream_id)

    def insert_stream(self, stream_id, depends_on=None, weight=16, exclusive=False):
        if stream_id in self._active:
            raise DuplicateStreamError("Stream %d already in tree" % stream_id)
        if len(self._active) + 1 > self._maximum_streams:
            raise TooManyStreamsError()
        if not 1 <= weight <= 256:
            raise BadWeightError()
        self._order.append(stream_id)
        self._inserted.append(stream_id)
        self._active[stream_id] = True

    def reprioritize(self, stream_id, depends_on=None, weight=16, exclusive=False):
        self._check(stream_id)
        if depends_on == stream_id:
            raise PriorityLoop()

    def remove_stream(self, stream_id):
        self._check(stream_id)
        self._order.remove(stream_id)
        self._inserted.remove(stream_id)
        del self._active[stream_id]

    def block(self, stream_id):
        self._check(stream_id)
        self._active[stream_id] = False

    def unblock(self, stream_id):
        self._check(stream_id)
        self._active[stream_id] = True

    def __iter__(self):
        return self

    def __next__(self):
        if self._pick is not None:
            active = [s for s in self._inserted if self._active[s]]
            if not active:
                raise DeadlockError("No unblocked streams to schedule.")
            return active[self._pick % len(active)]
        active = [s for s in self._order if self._active[s]]
        if not active:
            raise DeadlockError("No unblocked streams to schedule.")
        s = active[0]
        self._order.remove(s)
        self._order.append(s)
        return s

    next = __next__
