"""OpenSSL.crypto stand-in: names only (nothing of it is exercised by the C17 check)."""
FILETYPE_PEM = 1
FILETYPE_ASN1 = 2
FILETYPE_TEXT = 65535
TYPE_RSA = 6
TYPE_DSA = 116


class Error(Exception):
    pass


class _Unavailable:
    def __init__(self, *a, **kw):
        raise NotImplementedError("OpenSSL.crypto is a stand-in in this sandbox")


class X509(_Unavailable):
    pass


class X509Req(_Unavailable):
    pass


class X509Name(_Unavailable):
    pass


class PKey(_Unavailable):
    pass


def _na(*a, **kw):
    raise NotImplementedError("OpenSSL.crypto is a stand-in in this sandbox")


load_certificate = dump_certificate = load_certificate_request = dump_certificate_request = _na
load_privatekey = dump_privatekey = dump_publickey = load_publickey = _na
