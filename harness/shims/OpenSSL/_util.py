"""OpenSSL._util stand-in: `lib` only needs to exist (attributes looked up lazily by _sslverify)."""


class _Lib:
    Cryptography_HAS_EC = 0
    Cryptography_HAS_TLSv1_3 = 1

    def __getattr__(self, name):
        raise AttributeError(name)


lib = _Lib()
ffi = None
