"""
OpenSSL.SSL stand-in.  `Connection` is the FakeEngine (memory-BIO mode only).

Wire format: a record is  [type, n] ++ payload  with 0 <= n = len(payload) <= 255;
type 22 = handshake flight, 23 = application data, 21 = close_notify alert.
Handshake: `flights` (k >= 1) flights numbered 0..k-1, even ones sent by the client, odd
ones by the server, strictly alternating; a side has finished when it has sent/seen all k.
Transcribed in lean/TwistedModel/Transport/Tls.lean (structure `Eng`); keep both in step.
"""

# --- constants _sslverify touches at import time -------------------------------------------
SSLv23_METHOD = 3
TLSv1_METHOD = 4
TLSv1_1_METHOD = 5
TLSv1_2_METHOD = 6
TLS_METHOD = 7
TLS_SERVER_METHOD = 8
TLS_CLIENT_METHOD = 9
OP_NO_SSLv2 = 0x01000000
OP_NO_SSLv3 = 0x02000000
OP_NO_TLSv1 = 0x04000000
OP_NO_TLSv1_2 = 0x08000000
OP_NO_TLSv1_1 = 0x10000000
OP_NO_TLSv1_3 = 0x20000000
OP_NO_COMPRESSION = 0x00020000
OP_CIPHER_SERVER_PREFERENCE = 0x00400000
OP_SINGLE_DH_USE = 0
OP_SINGLE_ECDH_USE = 0
OP_ALL = 0x80000850
OP_NO_TICKET = 0x00004000
MODE_RELEASE_BUFFERS = 0x10
VERIFY_NONE = 0
VERIFY_PEER = 1
VERIFY_FAIL_IF_NO_PEER_CERT = 2
VERIFY_CLIENT_ONCE = 4
SESS_CACHE_OFF = 0
SESS_CACHE_SERVER = 2
SSL_CB_HANDSHAKE_START = 0x10
SSL_CB_HANDSHAKE_DONE = 0x20
OPENSSL_VERSION_NUMBER = 0x30000000
FILETYPE_PEM = 1
FILETYPE_ASN1 = 2

REC_ALERT, REC_HANDSHAKE, REC_DATA = 21, 22, 23


class Error(Exception):
    pass


class WantReadError(Error):
    pass


class WantWriteError(Error):
    pass


class WantX509LookupError(Error):
    pass


class ZeroReturnError(Error):
    pass


class SysCallError(Error):
    pass


class Context:
    """Carries the FakeEngine parameters; every pyOpenSSL setter is accepted and ignored."""

    def __init__(self, method=TLS_METHOD, flights=4, recMax=255):
        self.method = method
        self.flights = flights
        self.recMax = recMax

    def __getattr__(self, name):
        if name.startswith("set_") or name.startswith("use_") or name.startswith("add_") or name.startswith("load_"):
            return lambda *a, **kw: None
        raise AttributeError(name)


def _record(ty, payload):
    assert len(payload) <= 255
    return bytes([ty, len(payload)]) + payload


class Connection:
    def __init__(self, context, socket=None):
        assert socket is None, "the stand-in only does memory BIOs"
        self._context = context
        self.isClient = True
        self.k = context.flights
        self.recMax = context.recMax
        self.seen = 0            # flights sent or consumed so far
        self.inB = b""           # receive BIO (bytes from the network, unparsed)
        self.outB = b""          # send BIO (bytes for the network)
        self.plain = b""         # decrypted application bytes not yet handed to recv()
        self.sentSD = False      # our close_notify is in the send BIO
        self.recvSD = False      # the peer's close_notify has been read
        self.eof = False         # bio_shutdown() was called
        self.failed = False

    # -- configuration --------------------------------------------------------------------
    def get_context(self):
        return self._context

    def set_connect_state(self):
        self.isClient = True

    def set_accept_state(self):
        self.isClient = False

    def set_app_data(self, data):
        self._appData = data

    def get_app_data(self):
        return self._appData

    def set_tlsext_host_name(self, name):
        pass

    def get_peer_certificate(self):
        return None

    def get_cipher_list(self):
        return ["TLS_FAKE_NULL_SHA256"]

    def get_alpn_proto_negotiated(self):
        return b""

    def get_next_proto_negotiated(self):
        return b""

    # -- record layer ---------------------------------------------------------------------
    def _head(self):
        """→ (type, payload, rest) of the first complete record of inB, or None."""
        b = self.inB
        if len(b) < 2 or len(b) < 2 + b[1]:
            return None
        return b[0], b[2:2 + b[1]], b[2 + b[1]:]

    def _hsDone(self):
        return self.seen >= self.k

    def _myTurn(self):
        return (self.seen % 2 == 0) == self.isClient

    def _starved(self):
        if self.eof:
            raise SysCallError(-1, "Unexpected EOF")
        raise WantReadError()

    # -- the API twisted.protocols.tls uses -----------------------------------------------
    def bio_write(self, data):
        self.inB += bytes(data)
        return len(data)

    def bio_read(self, n):
        if not self.outB:
            raise WantReadError()
        out, self.outB = self.outB[:n], self.outB[n:]
        return out

    def bio_shutdown(self):
        self.eof = True

    def do_handshake(self):
        while True:
            if self.failed:
                raise Error([("SSL routines", "", "handshake failure")])
            if self._hsDone():
                return
            if self._myTurn():
                self.outB += _record(REC_HANDSHAKE, bytes([self.seen % 256]))
                self.seen += 1
                continue
            h = self._head()
            if h is None:
                self._starved()
            ty, _payload, rest = h
            if ty != REC_HANDSHAKE:
                self.failed = True
                raise Error([("SSL routines", "", "unexpected message")])
            self.inB = rest
            self.seen += 1

    def send(self, data):
        if self.failed:
            raise Error([("SSL routines", "", "handshake failure")])
        if self.sentSD:
            raise Error([("SSL routines", "", "protocol is shutdown")])
        if not self._hsDone():
            raise WantReadError()
        n = min(len(data), self.recMax)
        if n == 0:
            return 0
        self.outB += _record(REC_DATA, bytes(data[:n]))
        return n

    def recv(self, n):
        while True:
            if self.plain:
                out, self.plain = self.plain[:n], self.plain[n:]
                return out
            if self.recvSD:
                raise ZeroReturnError()
            if self.failed:
                raise Error([("SSL routines", "", "handshake failure")])
            if not self._hsDone():
                self._starved()
            h = self._head()
            if h is None:
                self._starved()
            ty, payload, rest = h
            if ty == REC_DATA:
                self.inB = rest
                self.plain = payload
                continue
            if ty == REC_ALERT:
                self.inB = rest
                self.recvSD = True
                raise ZeroReturnError()
            self.failed = True
            raise Error([("SSL routines", "", "unexpected message")])

    def shutdown(self):
        if self.failed:
            raise Error([("SSL routines", "", "handshake failure")])
        if self.seen == 0:
            return True                      # negotiation never started: nothing to say
        if not self._hsDone():
            raise Error([("SSL routines", "", "shutdown while in init")])
        if not self.sentSD:
            self.outB += _record(REC_ALERT, b"")
            self.sentSD = True
        return self.recvSD

    def get_shutdown(self):
        return (1 if self.sentSD else 0) | (2 if self.recvSD else 0)
