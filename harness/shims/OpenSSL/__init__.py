"""
Stand-in for pyOpenSSL (absent from the sandbox) used ONLY by the C17 check.

It provides the import surface `twisted.internet._sslverify` / `twisted.protocols.tls`
need, and `SSL.Connection` is the *FakeEngine* of DESIGN.md §7.3 C17 (k handshake flights,
length-framed records, close_notify), transcribed line for line in
lean/TwistedModel/Transport/Tls.lean.  No cryptography happens here.
"""
from . import SSL, crypto  # noqa: F401

__version__ = "24.0.0"
version = __version__
