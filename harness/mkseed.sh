#!/bin/sh
# mkseed.sh <Cnn> <k> — scratch worktree + prompt for one seeded-breakage agent (gets ONLY the property text)
set -e
id="$1"; k="$2"; wt="/tmp/seed-$id-$k"; out="/tmp/seed-$id-$k-out"
git -C /repo worktree prune
rm -rf "$wt" "$out"
git -C /repo worktree add -q --detach "$wt" HEAD
mkdir -p "$out" /work/seedprompts
python3 - "$id" "$wt" "$out" <<'PY'
import json, sys
pid, wt, out = sys.argv[1:4]
p = next(json.loads(l) for l in open('/verif/properties.jsonl') if json.loads(l)['id'] == pid)
t = open('/work/seedprompts/template.txt').read()
t = (t.replace('@WT@', wt).replace('@OUT@', out).replace('@ID@', pid).replace('@TITLE@', p['title'])
      .replace('@STATEMENT@', p['statement']).replace('@QUANT@', p['quantifier']['text'])
      .replace('@FILES@', ', '.join(p['anchors']['files'])))
open(f'/work/seedprompts/{pid}-{wt.rsplit("-",1)[1]}.txt', 'w').write(t)
PY
echo "$wt $out /work/seedprompts/$id-$k.txt"
