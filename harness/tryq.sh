#!/bin/sh
# tryq.sh <Cnn> <seeded-dir-name> [tier] — quick look: does ./check catch seeded/<dir>/patch.diff ? (scratch worktree, removed afterwards)
id=$1; sd=$2; tier=${3:-quick}; wt=/tmp/tryq-$sd
git -C /repo worktree prune; rm -rf $wt
git -C /repo worktree add -q --detach $wt HEAD || exit 2
git -C $wt apply /verif/seeded/$sd/patch.diff || { echo "patch does not apply"; }
cd /verif; VERIF_REPO=$wt ./check $id --tier $tier 2>&1 | tail -4 | cut -c1-260
git -C /repo worktree remove --force $wt; rm -rf $wt
git -C /verif checkout -- evidence/$id.json 2>/dev/null
