#!/bin/sh
# mkseed2.sh <Cnn> <k> — like mkseed.sh, but tells the agent which seeded changes were already tried (summaries only)
set -e
id="$1"; k="$2"; wt="/tmp/seed-$id-$k"; out="/tmp/seed-$id-$k-out"
git -C /repo worktree prune
rm -rf "$wt" "$out"
git -C /repo worktree add -q --detach "$wt" HEAD
mkdir -p "$out" /work/seedprompts
python3 - "$id" "$wt" "$out" "$k" <<'PY'
import json, sys, glob
pid, wt, out, k = sys.argv[1:5]
p = next(json.loads(l) for l in open('/verif/properties.jsonl') if json.loads(l)['id'] == pid)
t = open('/work/seedprompts/template.txt').read()
t = (t.replace('@WT@', wt).replace('@OUT@', out).replace('@ID@', pid).replace('@TITLE@', p['title'])
      .replace('@STATEMENT@', p['statement']).replace('@QUANT@', p['quantifier']['text'])
      .replace('@FILES@', ', '.join(p['anchors']['files'])))
prev = []
for f in sorted(glob.glob(f'/verif/seeded/{pid}-*/meta.json')) + sorted(glob.glob(f'/tmp/seed-{pid}-*-out/meta.json')):
    try:
        m = json.load(open(f)); prev.append(f"- {m.get('summary','')} (needs: {m.get('needs','')})")
    except Exception: pass
extra = ("\n\nALREADY TRIED by other people for this property (do NOT repeat these; yours must differ in mechanism AND in the "
         "place of the code it touches — look for a different clause of the property, a different class/function among the "
         "anchored files, a different kind of trigger):\n" + "\n".join(dict.fromkeys(prev)) +
         "\nPrefer a change whose trigger is RARER and more specific than those (e.g. needs two conditions to coincide, a boundary "
         "value, state left over from an earlier operation, re-entrancy from a callback).\n") if prev else ""
t = t.replace("\nDeliver in ", extra + "\nDeliver in ", 1)
open(f'/work/seedprompts/{pid}-{k}.txt', 'w').write(t)
PY
echo "$wt $out /work/seedprompts/$id-$k.txt"
