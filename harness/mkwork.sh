#!/bin/sh
# mkwork.sh <name> — private workspace for building one property in parallel:
#   /work/<name>/verif  (clone of /verif at HEAD)   /work/<name>/repo  (worktree of /repo HEAD)
set -e
n="$1"
mkdir -p /work
rm -rf "/work/$n"
mkdir -p "/work/$n"
git clone -q /verif "/work/$n/verif"
# warm start: copy the build output (lake re-checks hashes, so stale entries are rebuilt)
[ -d /verif/lean/.lake ] && cp -a /verif/lean/.lake "/work/$n/verif/lean/.lake" 2>/dev/null || true
git -C /repo worktree prune
git -C /repo worktree add -q --detach "/work/$n/repo" HEAD
echo "/work/$n ready"
