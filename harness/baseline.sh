#!/bin/sh
# baseline.sh — run twisted's pinned baseline suite on /repo's HEAD in a scratch worktree (guard off),
# compare with /root/.vp/BASELINE.json stable_pass.  Output: /tmp/baseline-run/result.txt
set -e
wt=/tmp/baseline-run/repo
git -C /repo worktree prune
rm -rf /tmp/baseline-run; mkdir -p /tmp/baseline-run
git -C /repo worktree add -q --detach "$wt" HEAD
cd "$wt"
env -u TWISTED_VERIF PYTHONPATH="$wt/src" /venv/bin/python -m pytest -ra -q -p no:cacheprovider --timeout=900 \
  --continue-on-collection-errors --junitxml=/tmp/baseline-run/junit.xml > /tmp/baseline-run/pytest.log 2>&1 || true
/venv/bin/python - <<'PY' > /tmp/baseline-run/result.txt
import json, xml.etree.ElementTree as ET
b = json.load(open('/root/.vp/BASELINE.json'))
stable = set(b['stable_pass'])
passed = set()
for tc in ET.parse('/tmp/baseline-run/junit.xml').getroot().iter('testcase'):
    ok = not any(ch.tag in ('failure', 'error', 'skipped') for ch in tc)
    if ok:
        passed.add(f"{tc.get('classname')}::{tc.get('name')}")
missing = sorted(stable - passed)
print(f"stable={len(stable)} passed_now={len(passed)} stable_missing={len(missing)}")
for m in missing[:200]:
    print("MISSING", m)
PY
cat /tmp/baseline-run/result.txt | head -30
cd /; git -C /repo worktree remove --force "$wt"
