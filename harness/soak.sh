#!/bin/sh
# usage: harness/soak.sh <tier> <seed>...   — runs every claimed check on the current tree with each seed;
# prints one line per run that is not a clean exit 0 (and any VIOLATION line). Log: /tmp/soak-<tier>.log
tier=$1; shift
cd "$(dirname "$0")/.."
for seed in "$@"; do
  for id in $(./check --list); do
    out=$(VERIF_SEED=$seed ./check $id --tier $tier 2>&1); rc=$?
    last=$(printf '%s\n' "$out" | tail -1 | cut -c1-200)
    echo "seed=$seed $id rc=$rc $last" >> /tmp/soak-$tier.log
    if [ $rc -ne 0 ] || printf '%s\n' "$out" | grep -q '^VIOLATION'; then
      echo "NOT-CLEAN seed=$seed $id rc=$rc"; printf '%s\n' "$out" | grep -E '^VIOLATION|Traceback|Error' | head -5
    fi
  done
done
echo SOAKDONE
