"""C08 — reactor timed calls: real ReactorBase (settable clock, no I/O) vs the Lean model, plus an
independent reference-timer oracle evaluated on the implementation's own trace.

A case is a whole history:
  {"base": ticks, "scripts": [[op, ...], ...], "ops": [top-op, ...]}          (ticks = 1/16 s)
  op      = ["L", delay, script] callLater | ["X", ref] cancel | ["R", ref, secs] reset | ["D", ref, secs] delay
  top-op  = op | ["A", dt] advance the clock | ["I"] runUntilCurrent() | ["T"] timeout() | ["G"] getDelayedCalls()
            | ["K"] white-box probe: _cancellations and the number of cancelled entries stored in
              _pendingTimedCalls / _newTimedCalls (ties the model's lazy-deletion counter to the real one)
A call created by ["L", d, k] runs script k (its ops, one by one, each in its own try/except) when it
fires; `ref` names call number `ref mod (calls created so far)`.

Added by the white-box mutation audit (harness/mutants/C08/README.md):
  script op ["E", kind]   the running call RAISES here (the rest of its script is not executed); kind indexes _EXC:
            Exception subclasses and exceptions OUTSIDE the Exception hierarchy (KeyboardInterrupt, SystemExit,
            GeneratorExit, asyncio.CancelledError, a plain BaseException subclass).  runUntilCurrent must log it and
            go on with the remaining due calls of the same iteration.  Model: `Stmt.raise` / `executed` in Timers.lean.
  script op ["g"]         getDelayedCalls() from INSIDE a running call (trace token g=...; oracle-judged; the model's
            trace has no such event: `compare` removes the g=/e tokens before the string comparison)
  case["debug"] = 0|1, top-level op ["B", 0|1]   the global mode DelayedCall.debug (creator stack recorded, the slow
            failuresHandled() logging path in runUntilCurrent, repr() taken in cancel()); restored after the run.
            The property, the oracle and the model do not depend on it.
"""
import asyncio
import itertools
import re

from twisted.internet import error
from twisted.internet.base import DelayedCall, ReactorBase
from twisted.logger import globalLogBeginner

try:  # runUntilCurrent logs the failure of a raising timed call at level critical; keep it off stderr
    globalLogBeginner.beginLoggingTo([lambda event: None], redirectStandardIO=False, discardBuffer=True)
except Exception:  # pragma: no cover
    pass

HEADLINE = "TwistedProps.C08.history_trace_ok"
RULE = ("histories of up to 200 top-level ops over up to ~130 calls: callLater/cancel/reset/delay at top level and "
        "from inside running calls (script table, self-rescheduling scripts), clock advances followed by runUntilCurrent, "
        "timeout() and getDelayedCalls() probes; modes: mixed, equal-time heavy (heap tie layout), cancellation bursts "
        "(>50, compaction, also cancelled-while-staged), reset/delay of a heap-resident call onto exactly the time of another, moves into the past (negative delay/reset), far-future times "
        "(timeout clamp); about half of the random histories have scripts that RAISE (at the end, in the middle or at once; "
        "ValueError/AlreadyCalled/ZeroDivisionError and, outside the Exception hierarchy, KeyboardInterrupt/SystemExit/"
        "GeneratorExit/asyncio.CancelledError/a BaseException subclass), a third run under DelayedCall.debug=True and an "
        "eighth toggle it mid-history, 8% of the nested ops are getDelayedCalls() from inside the running call; plus "
        "exhaustive short histories over a 13-op alphabet, run with the plain script table and with a table whose scripts "
        "probe getDelayedCalls() and raise (debug off and on); histories whose scripts multiply beyond 400 calls are "
        "dropped by a reference timer (never by running the implementation); distinct = set of trace features")
ASSUMES = [
    "the clock does not move while runUntilCurrent is executing (statement: advances are followed by an iteration)",
    "timeout()/runUntilCurrent() are called by the reactor loop only, never from inside a running call",
    "user callbacks return normally OR raise (any class, also outside Exception; generated); each scripted cancel/reset/"
    "delay catches its own AlreadyCalled/AlreadyCancelled; the exception's logging (twisted.logger) is not observed",
    "getDelayedCalls() from inside a running call is judged by the oracle only (the model's trace has no such event; the "
    "rest of such a history is still compared with the model); DelayedCall.debug is not modelled: the tie shows the "
    "trace is the same with the mode on, off and toggled",
    "times are dyadic (multiples of 1/16 s, |t| < 2^40): Python float arithmetic on them is exact",
    "fewer than 2500 heap entries (CPython's heapify uses another visiting order above that; layout only)",
    "ordering clause: a call scheduled during the running iteration and then moved before that iteration's start "
    "time cannot satisfy both 'does not run in that iteration' and 'no pending call is scheduled earlier' (finding key "
    "staged-call-moved-before-now, order_counterexample); history_trace_ok states the ordering against every other "
    "pending call that existed before the iteration began or is not scheduled before the clock; nonneg_history_order "
    "proves it against ALL other pending calls for every history whose reset()/delay() arguments are non-negative "
    "(gentle_history_order: whenever no reset/delay moves a call before the clock)",
    "_cancellations is not part of the statement: cancellations_counter_exact proves the exact value (cancelled entries "
    "stored minus the cancelled calls still staged at the last compaction); it can be negative (counter_negative_witness, "
    "reproduced on the real ReactorBase by the K probe) — this only delays the compaction heuristic",
]
TRUSTED = ["harness trace recorder in harness/corr/C08.py (wraps callLater'd functions, maps DelayedCall objects to creation indices)"]
MANIFEST = {
    "text": "Lean theorems (TwistedProps/C08.lean) over ALL histories of callLater/cancel/reset/delay (top level and from "
            "inside running calls), clock advances and iterations, for a model transcribing ReactorBase's staging list, "
            "heapq heap (siftdown/siftup/heapify), lazy cancellation + compaction, _moveCallLaterSooner and DelayedCall "
            "reset/delay. history_trace_ok: the GLOBAL event trace of every history passes a reference timer run over the "
            "trace alone (the Lean twin of the Python oracle) at every event; runs_exactly_once: no call id twice in the run "
            "log; a call is entered only inside an iteration that began after it was created, with no successful cancel and "
            "no run before, not before its current getTime(), with no earlier pending call (among those older than the "
            "iteration or not moved before the clock); at every iteration end every older call whose time has come has run or "
            "was cancelled (so: exactly once, in the first iteration at or after its time, iff not cancelled first). "
            "nonneg_history_order: for non-negative reset/delay arguments the ordering holds against all pending calls. "
            "getDelayedCalls = pending set; timeout bounded by the earliest pending call. cancellations_counter_exact: "
            "_cancellations = cancelled entries stored - cancelled calls still staged at the last compaction (can be negative: "
            "counter_negative_witness). raising_history_trace_ok / raising_runs_exactly_once: the same for histories whose "
            "timed calls raise (a raising body = its statements before the first raise; runUntilCurrent's handlers swallow "
            "every exception class and go on). Model tied to base.py by differential traces incl. a white-box probe of "
            "_cancellations, raising calls, DelayedCall.debug on/off/toggled; getDelayedCalls() inside running calls is "
            "checked by the reference-timer oracle.",
    "note": "trusts Lean kernel, the hand-written model (differentially tied incl. exact heap tie-order), CPython _heapq as transcribed",
    "technique": "Lean 4 proof (heap invariants for heapq sift loops, system invariant by induction over histories, simulation of a reference timer over the global trace) + differential tie + reference-timer oracle",
    "design_ref": "DESIGN.md §7.2 C08",
}

TPS = 16
LONGEST = 2147483 * TPS
FINDING = "staged-call-moved-before-now"


# ------------------------------------------------------------------------------------------
# the implementation under test

class _Reactor(ReactorBase):
    """Just enough reactor: a settable clock, no waker, no I/O (cf. JustEnoughReactor in test_base.py)."""

    def __init__(self, t):
        self._t = t
        super().__init__()

    def installWaker(self):
        pass

    def seconds(self):
        return self._t


def _ticks(x):
    v = x * TPS
    iv = int(v)
    if iv != v:
        raise ArithmeticError(f"inexact time {x!r}")
    return iv


class _TooBig(Exception):
    pass


class _VerifBaseException(BaseException):
    """an application exception outside the Exception hierarchy"""


# what a scripted call can raise (["E", kind]); kinds 0, 6, 7 are Exceptions, the others are not
_EXC = [ValueError, KeyboardInterrupt, SystemExit, GeneratorExit, _VerifBaseException, asyncio.CancelledError,
        error.AlreadyCalled, ZeroDivisionError]
_NON_EXCEPTION = {i for i, e in enumerate(_EXC) if not issubclass(e, Exception)}


def run_impl(case, limit=1500):
    """`limit`: hard bound on the number of calls created (generated histories create at most ~400 by the reference
    timer, `_ref_calls`): a regression that runs a zero-delay self-rescheduling call inside the iteration that
    scheduled it would otherwise never return; beyond the bound the run is reported as `!raised _TooBig`"""
    saved = DelayedCall.debug
    DelayedCall.debug = bool(case.get("debug", 0))
    try:
        return _run_impl(case, limit)
    finally:
        DelayedCall.debug = saved


def _run_impl(case, limit):
    scripts = case["scripts"]
    r = _Reactor(case["base"] / TPS)
    calls = []          # DelayedCall objects by creation index
    trace = []
    big = []

    def outcome(f, *a):
        try:
            f(*a)
            return "ok"
        except error.AlreadyCancelled:
            return "AC"
        except error.AlreadyCalled:
            return "AD"

    def fire(idx, k):
        trace.append(f"r{idx}@{_ticks(r.seconds())}")
        for op in (scripts[k] if k < len(scripts) else []):
            if op[0] == "E":
                trace.append(f"e{op[1] % len(_EXC)}")
                raise _EXC[op[1] % len(_EXC)]("raised by a timed call (verification harness)")
            do_op(op)

    def delayed_calls():
        got = sorted((dc._verif_idx, _ticks(dc.getTime())) for dc in r.getDelayedCalls())
        return ".".join(f"{i}:{t}" for i, t in got)

    def do_op(op):
        kind = op[0]
        if kind == "g":
            trace.append("g=" + delayed_calls())
            return
        if kind == "L":
            d, k = op[1], op[2]
            idx = len(calls)
            if limit is not None and idx >= limit:
                big.append(idx)      # size probe only (generator): stop growing, report after the run
                return
            try:
                dc = r.callLater(d / TPS, fire, idx, k)
            except AssertionError:
                trace.append(f"L{d},{k}=!A")
                return
            dc._verif_idx = idx
            calls.append(dc)
            trace.append(f"L{d},{k}=c{idx}")
            return
        if not calls:
            trace.append({"X": "X0", "R": f"R0,{op[2] if len(op) > 2 else 0}", "D": f"D0,{op[2] if len(op) > 2 else 0}"}[kind] + "=noid")
            return
        idx = op[1] % len(calls)
        dc = calls[idx]
        if kind == "X":
            trace.append(f"X{idx}=" + outcome(dc.cancel))
        elif kind == "R":
            trace.append(f"R{idx},{op[2]}=" + outcome(dc.reset, op[2] / TPS))
        elif kind == "D":
            trace.append(f"D{idx},{op[2]}=" + outcome(dc.delay, op[2] / TPS))
        else:
            raise ValueError(kind)

    for top in case["ops"]:
        kind = top[0]
        if kind == "A":
            r._t = r._t + top[1] / TPS
            trace.append(f"A{top[1]}")
        elif kind == "I":
            trace.append("I[")
            r.runUntilCurrent()
            trace.append("]")
        elif kind == "T":
            v = r.timeout()
            trace.append("T=None" if v is None else f"T={_ticks(v)}")
        elif kind == "G":
            trace.append("G=" + delayed_calls())
        elif kind == "B":
            DelayedCall.debug = bool(top[1])
        elif kind == "K":
            trace.append(f"K={r._cancellations},{sum(1 for dc in r._pendingTimedCalls if dc.cancelled)},"
                         f"{sum(1 for dc in r._newTimedCalls if dc.cancelled)}")
        else:
            do_op(top)
    if big:
        raise _TooBig()
    return ";".join(trace)


# ------------------------------------------------------------------------------------------
# the model line

def _enc_op(op):
    if op[0] == "E":
        return f"E,{op[1] % len(_EXC)}"
    return ",".join(str(x) for x in op)


def _enc_ops(ops, drop):
    kept = [o for o in ops if o[0] not in drop]
    return ";".join(_enc_op(o) for o in kept) if kept else "-"


def model_line(case):
    """the model has no getDelayedCalls-inside-a-call event and no debug mode: `g` and `B` ops are left out
    (neither changes the timer state; `compare` removes the implementation's g=/e tokens); `E,<kind>` is passed on:
    the driver keeps the statements before the first raise (`Twisted.Reactor.Timers.executed`)"""
    sc = "/".join(_enc_ops(s, "g") for s in case["scripts"]) if case["scripts"] else "~"
    return f"{case['base']} {sc} {_enc_ops(case['ops'], 'gB')}"


_HARNESS_TOKEN = re.compile(r"g=.*|e[0-9]+")


def compare(case, impl_out, model_out):
    """string equality after removing the tokens the model does not produce: nested getDelayedCalls probes (g=...)
    and the raise markers (e<kind>) written by the harness's own scripted call"""
    toks = [t for t in impl_out.split(";") if not _HARNESS_TOKEN.fullmatch(t)] if impl_out else []
    return ";".join(toks) == model_out


# ------------------------------------------------------------------------------------------
# the property, evaluated on the implementation's trace by a reference timer (id -> scheduled time)

def _problems(case, out):
    if out.startswith("!raised"):
        return [("exception", f"the implementation raised: {out}")]
    probs = []
    now = case["base"]
    T, st, born = {}, {}, {}          # scheduled time, "p"/"x"/"c", iteration in which it was created (None = between iterations)
    it, in_iter = 0, False
    for tok in out.split(";") if out else []:
        if tok == "!stuck":
            continue
        if tok[0] == "A":
            now += int(tok[1:])
        elif tok == "I[":
            it += 1
            in_iter = True
        elif tok == "]":
            in_iter = False
            late = [i for i in T if st[i] == "p" and born[i] != it and T[i] <= now]
            if late:
                probs.append(("missed", f"iteration {it} at {now} ended with due pending calls {[(i, T[i]) for i in late[:4]]}"))
        elif tok[0] == "r":
            i, t = tok[1:].split("@")
            i, t = int(i), int(t)
            if t != now:
                probs.append(("clock", f"call {i} saw clock {t}, reference {now}"))
            if not in_iter:
                probs.append(("run-outside-iteration", f"call {i} ran outside runUntilCurrent"))
            if st.get(i) != "p":
                probs.append(("ran-not-pending", f"call {i} ran in state {st.get(i)} (c=already called, x=cancelled)"))
                continue
            if T[i] > now:
                probs.append(("early", f"call {i} scheduled for {T[i]} ran at {now}"))
            if born[i] == it:
                probs.append(("same-iteration", f"call {i} was scheduled during iteration {it} and ran in it"))
            for j in T:
                if j != i and st[j] == "p" and T[j] < T[i]:
                    if born[j] == it and T[j] < now:
                        probs.append((FINDING, f"call {i} (scheduled {T[i]}) ran at {now} while call {j}, scheduled during this "
                                               f"iteration and moved to {T[j]} (before the iteration's clock), was pending"))
                    else:
                        probs.append(("order", f"call {i} (scheduled {T[i]}) ran at {now} while call {j} scheduled {T[j]} was pending"))
                    break
            st[i] = "c"
        elif tok[0] == "T":
            v = tok[2:]
            pend = [T[i] for i in T if st[i] == "p"]
            if v == "None":
                if pend:
                    probs.append(("timeout", f"timeout() is None with pending calls at {sorted(pend)[:4]}"))
            else:
                v = int(v)
                if v < 0 or v > LONGEST:
                    probs.append(("timeout", f"timeout() = {v} ticks outside [0, {LONGEST}]"))
                if pend and v > max(0, min(pend) - now):
                    probs.append(("timeout", f"timeout() = {v} ticks exceeds time {min(pend) - now} to the earliest pending call"))
        elif tok[0] == "K":
            # not part of the property's text: the lazy-deletion counter only drives the compaction heuristic.
            # Checked here is the invariant PROVED for the model (TwistedProps.C08.cancellations_counter_*):
            # the counter never exceeds the number of cancelled entries stored.  (It can be smaller, even
            # negative: compaction zeroes it while cancelled calls are still staged — see counter_negative_witness.)
            canc, ch, cs = (int(x) for x in tok[2:].split(","))
            if canc > ch + cs:
                probs.append(("cancellations-counter", f"_cancellations = {canc} exceeds the {ch}+{cs} cancelled entries stored"))
        elif tok[0] == "e":
            # the running call raises here.  Nothing is demanded of this event itself; what the property demands is
            # checked by the events that follow: the exception must not escape runUntilCurrent ("exception"), the
            # remaining due calls still run in this iteration ("missed" at its end), the raising call counts as run
            # (it is not run again, cancel() answers AlreadyCalled: "ran-not-pending", "status").
            if not in_iter:
                probs.append(("run-outside-iteration", f"{tok}: a call body ran outside runUntilCurrent"))
        elif tok[0] in "Gg":
            got = [tuple(int(x) for x in p.split(":")) for p in tok[2:].split(".")] if tok[2:] else []
            exp = sorted((i, T[i]) for i in T if st[i] == "p")
            if got != exp:
                where = " (called from inside a running call)" if tok[0] == "g" and in_iter else ""
                probs.append(("getDelayedCalls", f"getDelayedCalls(){where} = {got[:6]} but pending = {exp[:6]}"))
        else:
            head, res = tok.split("=")
            kind, args = head[0], [int(x) for x in head[1:].split(",")]
            if kind == "L":
                if res == "!A":
                    if args[0] >= 0:
                        probs.append(("callLater", f"callLater({args[0]}) refused"))
                    continue
                i = int(res[1:])
                if args[0] < 0 or i != len(T):
                    probs.append(("callLater", f"callLater({args[0]}) -> {res} with {len(T)} calls"))
                T[i], st[i], born[i] = now + args[0], "p", (it if in_iter else None)
                continue
            if res == "noid":
                continue
            i = args[0]
            exp = {"p": "ok", "x": "AC", "c": "AD"}[st[i]]
            if res != exp:
                probs.append(("status", f"{tok}: call {i} is in state {st[i]}, expected {exp}"))
            if res == "ok":
                if kind == "X":
                    st[i] = "x"
                elif kind == "R":
                    T[i] = now + args[1]
                elif kind == "D":
                    T[i] = T[i] + args[1]
    return probs


def oracle(case, out):
    probs = _problems(case, out)
    if not probs:
        return None
    other = [p for p in probs if p[0] != FINDING]
    key, detail = (other or probs)[0]
    return {"key": key, "detail": detail}


def tag(case, out):
    f = set()
    toks = out.split(";")
    nested = False
    ncanc = 0
    for t in toks:
        if t == "I[":
            nested = True
        elif t == "]":
            nested = False
        elif t[:1] in "XRD" and "=" in t:
            res = t.split("=")[1]
            neg = "," in t and int(t.split("=")[0].split(",")[1]) < 0
            f.add(("n" if nested else "t") + t[0] + ("-" if neg else "") + (res if res != "ok" else ""))
            ncanc += t[0] == "X" and res == "ok"
        elif t[:1] == "L":
            f.add("nL" if nested else "tL")
        elif t.startswith("T="):
            f.add("T:" + ("None" if t == "T=None" else "0" if t == "T=0" else "max" if t == f"T={LONGEST}" else "+"))
        elif t.startswith("K="):
            canc, ch, cs = (int(x) for x in t[2:].split(","))
            f.add("K:" + ("neg" if canc < 0 else "exact" if canc == ch + cs else "under"))
        elif t.startswith("g="):
            f.add("g" if nested else "tg")
        elif _HARNESS_TOKEN.fullmatch(t):
            f.add("E:base" if int(t[1:]) in _NON_EXCEPTION else "E:exc")
        elif t.startswith("!"):
            f.add(t)
    f.add("canc>50" if ncanc > 50 else "canc>10" if ncanc > 10 else "canc")
    if case.get("debug") or any(o[0] == "B" for o in case["ops"]):
        f.add("dbg" if not any(o[0] == "B" for o in case["ops"]) else "dbg-toggled")
    runs = sum(1 for t in toks if t[:1] == "r")
    f.add("runs:" + ("0" if runs == 0 else "1-9" if runs < 10 else "10+"))
    return " ".join(sorted(f))


# ------------------------------------------------------------------------------------------
# cases

def corpus():
    big = LONGEST
    return [
        # a call scheduled inside a running call and moved into the past (the hypothesis the ordering proof forces)
        {"base": 0, "scripts": [[["L", 0, 9], ["D", 2, -24]]], "ops": [["L", 16, 0], ["L", 32, 9], ["A", 32], ["I"], ["G"], ["I"]]},
        {"base": 0, "scripts": [[["L", 8, 9], ["R", 2, -8]]], "ops": [["L", 16, 0], ["L", 32, 9], ["A", 32], ["I"], ["G"], ["T"], ["I"]]},
        # reset to an earlier time of a call in the heap, from inside a running call: runs in the same iteration
        {"base": 5, "scripts": [[["R", 2, 0]], []], "ops": [["L", 16, 0], ["L", 32, 1], ["L", 80, 1], ["T"], ["A", 40], ["I"], ["G"], ["T"]]},
        # delay(negative) across the staging boundary, delay(positive) re-push
        {"base": 0, "scripts": [[]], "ops": [["L", 32, 0], ["D", 0, -16], ["G"], ["T"], ["A", 16], ["I"], ["L", 16, 0], ["T"], ["D", 1, 32], ["A", 16], ["I"], ["G"], ["A", 32], ["I"]]},
        # cancel/reset/delay after called or cancelled; callLater(negative)
        {"base": 0, "scripts": [[["X", 0], ["R", 0, 1], ["D", 1, 1]]], "ops": [["L", 0, 0], ["L", 5, 0], ["X", 1], ["X", 1], ["L", -1, 0], ["I"], ["X", 0], ["G"], ["T"]]},
        # timeout clamp and None
        {"base": 0, "scripts": [], "ops": [["T"], ["L", big + 16, 0], ["T"], ["L", big, 0], ["T"], ["L", big - 1, 0], ["T"], ["A", big], ["T"], ["I"], ["T"]]},
        # self-rescheduling call (LoopingCall-like)
        {"base": 3, "scripts": [[["L", 16, 0]]], "ops": [["L", 0, 0]] + [["A", 16], ["I"], ["T"], ["G"]] * 5},
        # compaction: 60 in the heap, 55 cancelled, plus one created and cancelled inside the compacting iteration
        {"base": 0, "scripts": [[["L", 3, 1], ["X", 61]], []],
         "ops": [["L", 1, 0]] + [["L", 10 + (i * 7) % 13, 1] for i in range(60)] + [["I"]] + [["X", i] for i in range(1, 56)]
                + [["K"], ["A", 1], ["I"], ["K"], ["G"], ["T"], ["K"], ["A", 30], ["I"], ["K"], ["G"], ["T"], ["I"], ["K"]]},
        # the same with three calls created and cancelled inside the compacting iteration (counter reaches -3),
        # then 60 more cancellations: the deficit delays the next compaction
        {"base": 0, "scripts": [[["L", 3, 1], ["X", 61], ["L", 3, 1], ["X", 62], ["L", 0, 1], ["L", 3, 1], ["X", 64]], []],
         "ops": [["L", 1, 0]] + [["L", 10 + (i * 7) % 13, 1] for i in range(60)] + [["I"]] + [["X", i] for i in range(1, 56)]
                + [["K"], ["A", 1], ["I"], ["K"], ["I"], ["K"]] + [["L", 40, 1] for i in range(60)] + [["T"], ["K"]]
                + [["X", 65 + i] for i in range(58)] + [["K"], ["I"], ["K"], ["G"], ["A", 100], ["I"], ["K"], ["G"]]},
        # --- mutation audit: raising calls, Deferred-style global debug mode, getDelayedCalls from inside a call
        # a call raises (ValueError / KeyboardInterrupt / SystemExit): the other due calls still run in this iteration,
        # the raising call counts as run (cancel -> AlreadyCalled), ops before the raise took effect
        {"base": 0, "scripts": [[["L", 8, 1], ["E", 0], ["X", 1]], [["g"]]],
         "ops": [["L", 16, 0], ["L", 16, 1], ["L", 24, 1], ["A", 32], ["I"], ["X", 0], ["G"], ["T"], ["A", 8], ["I"], ["G"]]},
        {"base": 0, "scripts": [[["R", 2, 0], ["E", 1]], [["g"], ["E", 2]], [["E", 5]]],
         "ops": [["L", 16, 0], ["L", 16, 1], ["L", 80, 2], ["L", 20, 1], ["A", 32], ["I"], ["X", 0], ["R", 1, 0], ["G"], ["T"]]},
        # the same under DelayedCall.debug (the failuresHandled() path), and with the mode switched on half-way
        {"base": 0, "debug": 1, "scripts": [[["R", 2, 0], ["E", 1]], [["g"], ["E", 2]], [["E", 5]]],
         "ops": [["L", 16, 0], ["L", 16, 1], ["L", 80, 2], ["L", 20, 1], ["A", 32], ["I"], ["X", 0], ["R", 1, 0], ["G"], ["T"]]},
        {"base": 0, "debug": 1, "scripts": [[["L", 8, 1], ["E", 0], ["X", 1]], [["g"]]],
         "ops": [["L", 16, 0], ["L", 16, 1], ["L", 24, 1], ["X", 2], ["A", 32], ["I"], ["X", 0], ["D", 1, 4], ["G"], ["T"], ["A", 8], ["I"], ["G"]]},
        {"base": 0, "scripts": [[["E", 3]], [["X", 0], ["R", 0, 3], ["g"], ["E", 4]]],
         "ops": [["L", 16, 0], ["B", 1], ["L", 16, 1], ["L", 16, 0], ["B", 0], ["L", 16, 1], ["A", 16], ["I"], ["X", 1], ["X", 2], ["G"]]},
        # getDelayedCalls() just before an iteration and again from inside its running calls
        {"base": 0, "scripts": [[["g"]], [["g"], ["L", 0, 0], ["g"]]],
         "ops": [["L", 16, 0], ["L", 16, 1], ["L", 16, 0], ["L", 40, 0], ["G"], ["A", 16], ["I"], ["G"], ["A", 32], ["I"]]},
        # counter probes around staged cancellation without compaction (counter exact)
        {"base": 0, "scripts": [], "ops": [["K"], ["L", 5, 0], ["X", 0], ["K"], ["T"], ["K"], ["L", 5, 0], ["I"], ["X", 1], ["K"], ["A", 5], ["I"], ["K"]]},
    ]


def _rand_op(rng, mode, nested):
    if nested and rng.random() < 0.08:
        return ["g"]
    r = rng.random()
    ref = rng.randrange(0, 64)
    small = [0, 0, 1, 2, 3, 8, 16, 16, 17, 40]
    if mode == "ties":
        small = [0, 16, 16, 32]
    if r < 0.40:
        d = rng.choice(small)
        if mode == "far" and rng.random() < 0.5:
            d = LONGEST + rng.choice([-17, -1, 0, 1, 16, 1000])
        return ["L", d, rng.randrange(0, 6)]
    if r < 0.58:
        return ["X", ref]
    if r < 0.80:
        s = rng.choice(small + [48, 100])
        if mode == "past" and rng.random() < 0.4:
            s = -rng.choice([1, 8, 16, 50])
        return ["R", ref, s]
    s = rng.choice([-40, -16, -8, -1, 0, 1, 8, 16, 40])
    if mode in ("nonneg",) and nested:
        s = abs(s)
    return ["D", ref, s]


def _history(rng, tier):
    mode = rng.choice(["mixed", "mixed", "ties", "past", "nonneg", "far", "burst", "nestburst", "tiereset"])
    if mode == "nestburst":
        return _nestburst(rng, tier)
    if mode == "tiereset":
        return _tiereset(rng, tier)
    nscripts = rng.randrange(0, 6)
    scripts = [[_rand_op(rng, mode, True) for _ in range(rng.choice([0, 1, 1, 2, 3, 5]))] for _ in range(nscripts)]
    _add_raises(rng, scripts)
    ops = []
    n = rng.choice([5, 10, 20, 40, 80, 200]) if tier == "thorough" else rng.choice([5, 10, 20, 40, 80])
    if mode == "burst":
        k = rng.randrange(52, 120)
        ops += [["L", rng.choice([1, 5, 16, 16, 30, 60]), rng.randrange(0, 6)] for _ in range(k)]
        if rng.random() < 0.7:
            ops.append(["I"])
        victims = rng.sample(range(k), rng.randrange(51, k + 1))
        ops += [["X", v] for v in victims]
        n = min(n, 40)
    target = len(ops) + n
    while len(ops) < target:
        r = rng.random()
        if r < 0.30:
            ops.append(["A", rng.choice([0, 1, 1, 8, 16, 16, 24, 64])])
            ops.append(["I"])
            if rng.random() < 0.5:
                ops.append(["T"])
        elif r < 0.36:
            ops.append(["I"])
        elif r < 0.43:
            ops.append(["T"])
        elif r < 0.50:
            ops.append(["G"])
        elif r < 0.54:
            ops.append(["K"])
        else:
            ops.append(_rand_op(rng, mode, False))
    ops += [["K"], ["G"], ["T"], ["A", 200], ["I"], ["G"], ["T"], ["K"]]
    return _add_debug(rng, {"base": rng.choice([0, 0, 7, 1600, -48]), "scripts": scripts, "ops": ops})


def _add_raises(rng, scripts):
    """in about half of the histories some scripts raise: at their end (everything before took effect), at a random
    place, or at once; exception classes inside and outside the Exception hierarchy"""
    if not scripts or rng.random() < 0.5:
        return
    for s in scripts:
        if rng.random() < 0.6:
            pos = rng.choice([len(s), len(s), rng.randrange(0, len(s) + 1), 0])
            s.insert(pos, ["E", rng.randrange(0, len(_EXC))])


def _add_debug(rng, case):
    """DelayedCall.debug: on for the whole history (1/3), toggled at random places (1/8), else off"""
    r = rng.random()
    if r < 0.33:
        case["debug"] = 1
    elif r < 0.46:
        case["debug"] = rng.choice([0, 1])
        for _ in range(rng.randrange(1, 4)):
            case["ops"].insert(rng.randrange(0, len(case["ops"]) + 1), ["B", rng.choice([0, 1])])
    return case


def _tiereset(rng, tier):
    """reset()/delay() of a heap-resident call onto EXACTLY the time of another heap-resident call, with enough
    distinct times around for the move to need sifting (the class on which finding the call in the heap by anything
    but identity — e.g. an `__eq__` on the time — picks the wrong entry); then iterations in steps of one second"""
    k = rng.randrange(4, 24)
    ds = [16 * rng.randrange(1, 9) for _ in range(k)]
    ops = [["L", d, rng.randrange(0, 3)] for d in ds] + [rng.choice([["T"], ["I"], ["T"]])]
    cur = list(ds)
    for _ in range(rng.randrange(1, 7)):
        c, b = rng.randrange(k), rng.randrange(k)
        if cur[b] < cur[c]:
            ops.append(["R", c, cur[b]] if rng.random() < 0.5 else ["D", c, cur[b] - cur[c]])
            cur[c] = cur[b]
        elif rng.random() < 0.3:
            ops.append(["R", c, cur[c] + 16 * rng.randrange(0, 3)])     # lazily later: the key stays
        if rng.random() < 0.3:
            ops.append(rng.choice([["T"], ["G"]]))
    ops += [["T"], ["G"]]
    for _ in range(9):
        ops += [["A", 16], ["I"], ["T"]]
    ops += [["G"], ["K"]]
    scripts = [[], [["g"]], [["R", rng.randrange(k), 16 * rng.randrange(0, 4)]]]
    return _add_debug(rng, {"base": rng.choice([0, 0, 7, -48]), "scripts": scripts, "ops": ops})


def _nestburst(rng, tier):
    """calls created AND cancelled inside the iteration that compacts the heap (the input class on which
    `_cancellations` under-counts): call 0 (due first) runs a script that creates m calls, cancelling most of them by
    their (statically known) index, while > 50 of the k heap-resident calls are cancelled; followed by more
    cancellation bursts so that the next compaction threshold is crossed with the deficit in place"""
    k = rng.randrange(52, 110)
    m = rng.randrange(1, 8)
    body, nxt = [], k + 1
    for _ in range(m):
        body.append(["L", rng.choice([0, 0, 3, 16, 40]), rng.choice([1, 1, 2])])
        if rng.random() < 0.8:
            body.append(["X", nxt])
        nxt += 1
    if rng.random() < 0.3:
        body.append(["X", rng.randrange(1, k + 1)])
    if rng.random() < 0.3:
        body.append(["g"])
    if rng.random() < 0.3:
        body.append(["E", rng.randrange(0, len(_EXC))])
    scripts = [body, [["E", rng.randrange(0, len(_EXC))]] if rng.random() < 0.2 else [],
               [["X", rng.randrange(0, 64)]] if rng.random() < 0.5 else []]
    ops = [["L", 1, 0]] + [["L", rng.choice([5, 16, 16, 30, 60]), 1] for _ in range(k)]
    if rng.random() < 0.8:
        ops.append(["I"])
    victims = rng.sample(range(1, k + 1), rng.randrange(51, k + 1))
    ops += [["X", v] for v in victims] + [["K"], ["A", 1], ["I"], ["K"]]
    ops += rng.choice([[["I"], ["K"]], [["T"], ["K"]], [["G"], ["K"]]])
    k2 = rng.randrange(0, 90)
    ops += [["L", rng.choice([16, 30, 60]), 1] for _ in range(k2)]
    if k2 and rng.random() < 0.7:
        ops.append(rng.choice([["I"], ["T"]]))
    ops += [["X", nxt + v] for v in rng.sample(range(k2), rng.randrange(0, k2 + 1))] if k2 else []
    ops += [["K"], ["I"], ["K"], ["G"], ["A", rng.choice([4, 15, 100])], ["I"], ["K"], ["G"], ["T"], ["A", 200], ["I"], ["K"], ["G"]]
    return _add_debug(rng, {"base": rng.choice([0, 0, 7, -48]), "scripts": scripts, "ops": ops})


_ALPHA = [["L", 0, 0], ["L", 16, 1], ["L", 32, 2], ["X", 0], ["X", 1], ["R", 0, 0], ["R", 1, 48], ["D", 0, -16], ["D", 1, 16],
          ["A", 16], ["I"], ["T"], ["G"]]
# (the counter probe ["K"] is not in the exhaustive alphabet: it does not change the state; every exhaustive history ends with one)
_EXH_SCRIPTS = [[["L", 0, 1], ["D", 1, -16]], [["R", 0, 0], ["X", 2]], [["D", 0, 16], ["L", 16, 0]]]


# the same three scripts with a getDelayedCalls() probe and a raise each: KeyboardInterrupt in the middle (the ops before
# it took effect, the one after it did not), ValueError and SystemExit at the end
_EXH_SCRIPTS_RAISING = [[["L", 0, 1], ["g"], ["E", 1], ["D", 1, -16]], [["R", 0, 0], ["X", 2], ["g"], ["E", 0]],
                        [["g"], ["D", 0, 16], ["L", 16, 0], ["E", 2]]]


def _exhaustive(depth, scripts=_EXH_SCRIPTS, debug=0):
    for n in range(1, depth + 1):
        for combo in itertools.product(_ALPHA, repeat=n):
            if not any(o[0] == "L" for o in combo):
                continue
            c = {"base": 0, "scripts": scripts, "ops": list(combo) + [["A", 16], ["I"], ["G"], ["T"], ["A", 32], ["I"], ["G"], ["K"]]}
            if debug:
                c["debug"] = 1
            yield c


def _ref_calls(case, limit):
    """number of calls a history creates according to a plain reference timer (id -> time/status; due calls of an
    iteration run by (time, id); a script stops at its raise), stopping at `limit`.  Used only to drop histories whose
    self-rescheduling scripts multiply: it must not depend on the implementation under test (a regression that
    suppresses runs would otherwise let through histories on which the model's run explodes)."""
    scripts = case["scripts"]
    now = case["base"]
    T, st, K = [], [], []

    def do(op):
        kind = op[0]
        if kind == "L":
            if op[1] >= 0:
                T.append(now + op[1]); st.append("p"); K.append(op[2])
        elif kind in "XRD" and T:
            i = op[1] % len(T)
            if st[i] == "p":
                if kind == "X":
                    st[i] = "x"
                elif kind == "R":
                    T[i] = now + op[2]
                else:
                    T[i] += op[2]

    for top in case["ops"]:
        if top[0] == "A":
            now += top[1]
        elif top[0] == "I":
            n0 = len(T)
            while len(T) <= limit:
                due = [(T[i], i) for i in range(n0) if st[i] == "p" and T[i] <= now]
                if not due:
                    break
                i = min(due)[1]
                st[i] = "c"
                for op in (scripts[K[i]] if K[i] < len(scripts) else []):
                    if op[0] == "E":
                        break
                    do(op)
        else:
            do(top)
        if len(T) > limit:
            break
    return len(T)


def _bounded(rng, tier, n):
    """random histories; self-rescheduling scripts that multiply beyond 400 calls are dropped (size, not semantics)"""
    made = 0
    while made < n:
        c = _history(rng, tier)
        if _ref_calls(c, 400) > 400:
            continue
        made += 1
        yield c


def generate(rng, tier):
    yield from _exhaustive(3 if tier == "quick" else 4)
    yield from _exhaustive(3, _EXH_SCRIPTS_RAISING, 0)
    yield from _exhaustive(3 if tier == "quick" else 4, _EXH_SCRIPTS_RAISING, 1)
    yield from _exhaustive(2 if tier == "quick" else 3, _EXH_SCRIPTS, 1)
    yield from _bounded(rng, tier, 1500 if tier == "quick" else 12000)


def search(rng, tier, disagreeing):
    yield from _exhaustive(4)
    yield from _exhaustive(4, _EXH_SCRIPTS_RAISING, 0)
    yield from _bounded(rng, "thorough", 4000)


def shrink(case):
    ops, scripts = case["ops"], case["scripts"]
    n = len(ops)
    for size in (n // 2, n // 4, 8, 2, 1):
        if size < 1:
            continue
        for i in range(0, n, size):
            yield {**case, "ops": ops[:i] + ops[i + size:]}
    for si, s in enumerate(scripts):
        for j in range(len(s)):
            yield {**case, "scripts": scripts[:si] + [s[:j] + s[j + 1:]] + scripts[si + 1:]}
    if case["base"] != 0:
        yield {**case, "base": 0}
    if case.get("debug"):
        yield {**case, "debug": 0}
    for i, o in enumerate(ops):
        for p in range(1, len(o)):
            if isinstance(o[p], int) and abs(o[p]) > 1:
                yield {**case, "ops": ops[:i] + [o[:p] + [o[p] // 2] + o[p + 1:]] + ops[i + 1:]}
