"""C09 — task.Clock: real Clock/DelayedCall vs Lean model (tie) + a trace-walking property oracle.

case = {"h": [item, …], "u": unit?}; item (times in ticks, ids = creation index of the call):
  ["adv", n] | ["pump", [n, …]]                      clock.advance(n) / clock.pump(one-shot iterable); at top level, or
                                                     (re-entrantly) inside the script of a scheduled call
  ["cl", n, [item, …]]                               clock.callLater(n, f); f performs the nested items
  ["x", id] | ["r", id, n] | ["d", id, n] | ["look"]  cancel / reset(n) / delay(n) / getDelayedCalls()+active()
"u" = what one tick is on the real Clock: absent = 1/8 s; an int e = 2.0**e s (e from -40 to 20: sub-nanosecond to
days); "int" = Python ints (tick = 1 s, every argument an int).  A tick count is an integer below 2**53, so every value
is an exactly representable float whatever the unit; the model works in ticks and is therefore the same for every unit.
A history that starts with a huge ["adv", 2**k] puts the clock at an epoch-like time (large magnitude, small differences).
Histories with a re-entrant advance/pump have no model counterpart (model_line -> None): they are judged by the oracle only.

The model line also carries the model's evaluation of the domain predicates of the hypothesis-free time-order theorems
(`NonNeg`, `Admissible`: lean/TwistedModel/Reactor/ClockDomain.lean); `compare` checks them against this file's own
evaluation (`_neg`, and `adm` in the oracle's walk over the real Clock's trace).
"""
import itertools

from twisted.internet import error
from twisted.internet.task import Clock

HEADLINE = "TwistedProps.C09.clock_runs_once_iff_not_cancelled"
RULE = ("histories on a fresh Clock(): top-level callLater/cancel/reset/delay/look/advance/pump, every scheduled "
        "callable carrying a nested script of the same operations (depth <= 4); times are small tick counts "
        "chosen to collide (same-time groups, delay 0 from inside a call, reset onto now), a hostile stream adds "
        "negative delays/resets/advances and dangling/already-dead references; plus all histories of length <= 3 "
        "(quick) / <= 4 (thorough) over a 14-letter alphabet.  About a third of the random histories choose what a tick "
        "is on the real Clock (2**-40 s … 2**20 s as floats, or Python ints; default 1/8 s) and about a sixth first move "
        "the clock to an epoch-like time (2**20 … 2**50 ticks), so that absolute and relative tolerances, rounding and "
        "int/float paths show; 300 (quick) / 6000 (thorough) further histories let running calls advance/pump the clock "
        "re-entrantly and then schedule or move calls onto the new `now` (judged by the oracle only); the callable's "
        "arguments are passed positionally, by keyword or both; distinct = (event kinds seen, nesting depth, "
        "#runs bucket, negative times?, same-time run groups?, unit, epoch offset?, re-entrant advance?)")
ASSUMES = [
    "callables scheduled on the Clock return normally (an exception leaves advance() with due calls unrun — Clock does not catch)",
    "a callable that calls Clock.advance/pump re-entrantly is outside the Lean model (its scripts never advance the clock) "
    "and outside the theorems; such histories are run on the real Clock and judged by the trace oracle alone, with the "
    "same obligations for the inner advance as for a top-level one (no early run, min-first, nothing due left pending "
    "when it returns, exactly-once, same-time creation order, getDelayedCalls)",
    "times are dyadic floats whose tick count stays below 2**53 (any power-of-two unit from 2**-40 s to 2**20 s, or ints), "
    "so float +,-,<,<= are exact (asserted per observation: a reported time that is not a whole number of ticks fails "
    "the case); non-dyadic values such as 0.1, where Python's own rounding decides which advance reaches a call, are "
    "not generated; the model computes in integer ticks and is the same for every unit",
    "the time-order clause is proved with no hypothesis on the execution for histories in which every callLater delay, "
    "reset/delay argument and advance/pump amount is >= 0 (run_order_nondecreasing_nonneg, via causal_of_nonneg) and, more "
    "generally, when negative delay() arguments leave the call at or after seconds() (run_order_nondecreasing_admissible); "
    "outside that domain (negative callLater/reset/advance, delay() into the past) it holds for causal histories "
    "(run_order_nondecreasing) and is false otherwise for any scheduler (order_needs_causal_counterexample) — such inputs "
    "are still run on the real code by the tie and by the unconditional oracle checks (min-first, exactly-once, "
    "first-advance, getDelayedCalls)",
]
TRUSTED = ["list.sort(key=) is a stable sort (modelled by a stable insertion sort; every stable sort gives the same list)",
           "list.remove/pop(0)/append semantics as transcribed"]
MANIFEST = {
    "text": "Lean theorems (TwistedProps/C09.lean) over ALL histories of callLater/cancel/reset/delay/advance/pump with nested "
            "scripts: invariants (getDelayedCalls = active calls, no duplicates, run-count = called flag, cancelled never runs), "
            "advance terminates through its own loop condition and leaves no due call, calls never run early, run times are "
            "nondecreasing for every history without negative delays/resets/advances (no hypothesis on the execution; also for "
            "negative delay() arguments that keep the call at or after seconds(), and for causal histories in general; "
            "a negative-delay counterexample shows the restriction is needed), same-time never-rescheduled calls run in creation "
            "order; the model (object store + "
            "reference list + stable sort, as in task.py/base.py) is tied to the real Clock by differential runs of whole histories, "
            "in several time units (sub-nanosecond to days, ints) and at epoch-like clock times; histories with a re-entrant "
            "advance/pump from inside a running call are outside the model and the theorems and are judged by the trace oracle only.",
    "note": "trusts Lean kernel, the hand-written model of Clock/DelayedCall (differentially tied), stability of list.sort, float exactness on dyadic inputs",
    "technique": "Lean 4 proof (state invariants by induction over scripts, loop fuel and histories; a parameter-guarded "
                 "version of that induction discharges the causality hypothesis on non-negative/admissible histories) + "
                 "differential tie (traces and the theorems' domain predicates) + trace oracle",
    "design_ref": "DESIGN.md §7.2 C09",
}

TICK = 0.125


# ------------------------------------------------------------------------------------------
# real implementation

def _unit(case):
    u = case.get("u")
    if u is None:
        return TICK
    if u == "int":
        return 1
    return 2.0 ** u


def _tick(x, unit=TICK):
    v = x / unit
    assert v == int(v) and abs(v) < 2 ** 53 and int(v) * unit == x, f"inexact time {x!r}"
    return int(v)


def _ids(l):
    return ",".join(str(i) for i in sorted(l)) if l else "-"


class _Abort(BaseException):
    """raised by the scheduled callable itself to leave advance(): the trace so far already exhibits a violation"""


def run_impl(case):
    clock = Clock()
    created, index, out, fired = [], {}, [], set()
    U = _unit(case)

    def _tick(x):
        return globals()["_tick"](x, U)

    def fire(i, body):
        out.append(f"({i}@{_tick(created[i].getTime())}/{_tick(clock.seconds())}")
        if i in fired or len(out) > 200000:
            # a second run of the same call (or a runaway loop): stop here — with re-entrant advances a scheduler that
            # re-runs calls can recurse exponentially; the oracle rejects the trace at this very event
            raise _Abort()
        fired.add(i)
        for op in body:
            do_op(op)
        out.append(f"){i}")

    def guarded(i, f, okfmt):
        if i >= len(created):
            out.append(f"?{i}")
            return
        try:
            f(created[i])
        except error.AlreadyCancelled:
            out.append(f"!AlreadyCancelled:{i}")
        except error.AlreadyCalled:
            out.append(f"!AlreadyCalled:{i}")
        except ValueError:
            out.append(f"!ValueError:{i}")
        else:
            out.append(okfmt(created[i]))

    def do_op(op):
        k = op[0]
        if k == "cl":
            i = len(created)
            # the callable's arguments travel positionally, by keyword, or both (DelayedCall.args / .kw)
            if i % 3 == 0:
                dc = clock.callLater(op[1] * U, fire, i, op[2])
            elif i % 3 == 1:
                dc = clock.callLater(op[1] * U, fire, i, body=op[2])
            else:
                dc = clock.callLater(op[1] * U, fire, i=i, body=op[2])
            created.append(dc)
            index[id(dc)] = i
            out.append(f"+{i}@{_tick(dc.getTime())}")
        elif k == "x":
            guarded(op[1], lambda dc: dc.cancel(), lambda dc: f"x{op[1]}")
        elif k == "r":
            guarded(op[1], lambda dc: dc.reset(op[2] * U), lambda dc: f"r{op[1]}@{_tick(dc.getTime())}")
        elif k == "d":
            guarded(op[1], lambda dc: dc.delay(op[2] * U), lambda dc: f"d{op[1]}@{_tick(dc.getTime())}")
        elif k == "look":
            pend = [index.get(id(dc), 10 ** 6) for dc in clock.getDelayedCalls()]
            if len(set(pend)) != len(pend):
                out.append("!dup")
            act = [i for i, dc in enumerate(created) if dc.active()]
            out.append(f"L{_ids(pend)}/{_ids(act)}")
        elif k == "adv":
            out.append("A")
            clock.advance(op[1] * U)
            out.append(f"a{_tick(clock.seconds())}")
        elif k == "pump":
            # pump(timings) = advance per element; a generator lets us observe around each advance():
            # the code after `yield` runs when pump asks for the next timing, i.e. after advance() returned
            def gen():
                for n in op[1]:
                    out.append("A")
                    yield n * U
                    out.append(f"a{_tick(clock.seconds())}")
            clock.pump(gen())
        else:
            raise AssertionError(op)

    try:
        for op in case["h"]:
            do_op(op)
    except _Abort:
        out.append("!abort")
    return " ".join(out) if out else "-"


# ------------------------------------------------------------------------------------------
# model line

def _toks(items, acc):
    for op in items:
        k = op[0]
        if k == "cl":
            acc.append(f"cl:{op[1]}{{")
            _toks(op[2], acc)
            acc.append("}")
        elif k == "x":
            acc.append(f"x:{op[1]}")
        elif k in ("r", "d"):
            acc.append(f"{k}:{op[1]}:{op[2]}")
        elif k == "look":
            acc.append("look")
        elif k == "adv":
            acc.append(f"adv:{op[1]}")
        elif k == "pump":
            acc.append("pump:" + (",".join(str(n) for n in op[1]) if op[1] else "-"))
    return acc


def _reentrant(items, inside=False):
    """does some scheduled callable advance/pump the clock itself?"""
    for o in items:
        if o[0] in ("adv", "pump") and inside:
            return True
        if o[0] == "cl" and _reentrant(o[2], True):
            return True
    return False


def model_line(case):
    if _reentrant(case["h"]):
        return None         # the Lean model's scripts never advance the clock: oracle-only
    return " ".join(_toks(case["h"], []))


# ------------------------------------------------------------------------------------------
# property oracle: walk the observed trace against the timer *specification* (a map id -> effective
# time and a status per call; no list, no sort) and check every clause of the statement.

class _Bad(Exception):
    def __init__(self, key, detail):
        self.key, self.detail = key, detail


def oracle(case, out):
    return _walk(case, out)[0]


def compare(case, impl_out, model_out):
    """trace equality + the model's evaluation of the theorems' domain predicates (NonNeg, Admissible) against this
    file's own evaluation of them on the real Clock's trace"""
    trace, sep, dom = model_out.rpartition(" | ")
    if not sep or trace != impl_out:
        return False
    bad, adm = _walk(case, impl_out)
    if bad is not None:
        return True     # the oracle reports it; the domain flags are about spec-conforming traces
    return dom == f"nonneg={0 if _neg(case['h']) else 1} admissible={1 if adm else 0}"


def _walk(case, out):
    """-> (oracle verdict, history admissible?)"""
    if out.startswith("!raised"):
        return {"key": "exception-escaped", "detail": out}, False
    toks = [] if out == "-" else out.split(" ")
    # "adm": the history so far is in the domain of run_order_nondecreasing_admissible (TwistedProps.C09.Admissible):
    # callLater/reset/advance arguments >= 0, every effective delay() >= 0 or leaving the call at/after the clock's time
    S = {"p": 0, "now": 0, "nxt": 0, "last": None, "causal": True, "adm": True}
    eff, status, body, resched = {}, {}, {}, set()

    def peek():
        return toks[S["p"]] if S["p"] < len(toks) else None

    def take(expected, key):
        t = peek()
        if t != expected:
            raise _Bad(key, f"at event {S['p']}: expected {expected!r}, observed {t!r}")
        S["p"] += 1

    def pending():
        return sorted(i for i, s in status.items() if s == "pending")

    def settime(i, t):
        eff[i] = t
        if S["last"] is not None and t < S["last"]:
            S["causal"] = False

    def dead(i, verb):
        if status[i] == "cancelled":
            take(f"!AlreadyCancelled:{i}", "op-result")
        else:
            take(f"!AlreadyCalled:{i}", "op-result")

    def do_op(op, top):
        k = op[0]
        if k == "cl":
            i = S["nxt"]
            if op[1] < 0:
                S["adm"] = False
            take(f"+{i}@{S['now'] + op[1]}", "sched-time")
            S["nxt"] += 1
            status[i], body[i] = "pending", op[2]
            settime(i, S["now"] + op[1])
        elif k in ("x", "r", "d"):
            i = op[1]
            if k == "r" and op[2] < 0:
                S["adm"] = False
            if i >= S["nxt"]:
                take(f"?{i}", "op-result")
            elif status[i] != "pending":
                dead(i, k)
            elif k == "x":
                take(f"x{i}", "op-result")
                status[i] = "cancelled"
            elif k == "r":
                take(f"r{i}@{S['now'] + op[2]}", "sched-time")
                resched.add(i)
                settime(i, S["now"] + op[2])
            else:
                if op[2] < 0 and eff[i] + op[2] < S["now"]:
                    S["adm"] = False
                take(f"d{i}@{eff[i] + op[2]}", "sched-time")
                resched.add(i)
                settime(i, eff[i] + op[2])
        elif k == "look":
            p = _ids(pending())
            take(f"L{p}/{p}", "delayed-calls")
        elif k == "adv":
            advance(op[1])      # top level, or re-entrantly from inside a running call: the same obligations
        elif k == "pump":
            for n in op[1]:
                advance(n)

    def advance(n):
        take("A", "trace-shape")
        if n < 0:
            S["adm"] = False
        S["now"] += n
        while (peek() or "").startswith("("):
            run()
        take(f"a{S['now']}", "trace-shape")
        late = [i for i in pending() if eff[i] <= S["now"]]
        if late:
            raise _Bad("missed", f"advance to {S['now']} returned with due calls pending: "
                                 + ", ".join(f"#{i}@{eff[i]}" for i in late))

    def run():
        t = peek()
        S["p"] += 1
        try:
            i, rest = t[1:].split("@")
            i = int(i)
            when, nowtok = (int(x) for x in rest.split("/"))
        except ValueError:
            raise _Bad("trace-shape", f"unreadable run event {t!r}")
        if status.get(i) != "pending":
            raise _Bad("ran-not-pending", f"call #{i} ran while {status.get(i, 'never created')}")
        if when != eff[i] or nowtok != S["now"]:
            raise _Bad("sched-time", f"call #{i} ran reporting time {when} at {nowtok}; spec says {eff[i]} at {S['now']}")
        if when > S["now"]:
            raise _Bad("ran-early", f"call #{i} scheduled for {when} ran at {S['now']}")
        others = [j for j in pending() if j != i]
        early = [j for j in others if eff[j] < when]
        if early:
            raise _Bad("not-min", f"call #{i}@{when} ran while " + ", ".join(f"#{j}@{eff[j]}" for j in early) + " pending")
        if S["causal"] and S["last"] is not None and when < S["last"]:
            raise _Bad("order", f"call #{i}@{when} ran after a call scheduled for {S['last']}")
        if i not in resched:
            jump = [j for j in others if j < i and eff[j] == when and j not in resched]
            if jump:
                raise _Bad("fifo", f"call #{i}@{when} ran before earlier-created same-time call(s) {jump}")
        status[i] = "ran"
        S["last"] = when
        for op in body[i]:
            do_op(op, False)
        take(f"){i}", "trace-shape")

    try:
        for op in case["h"]:
            do_op(op, True)
        if S["p"] != len(toks):
            raise _Bad("trace-shape", f"unexpected trailing events from {S['p']}: {toks[S['p']:S['p'] + 3]}")
        if not S["causal"] and (S["adm"] or not _neg(case["h"])):
            # causal_of_nonneg / causal_of_admissible: on this domain the hypothesis of run_order_nondecreasing is a theorem
            raise _Bad("causal", "a history without negative delay/reset/advance (or only with delay() arguments keeping the "
                                 "call at/after the current time) moved a call before one that already ran")
        if S["adm"] and S["last"] is not None and S["last"] > S["now"]:
            # ran_not_after_now_admissible
            raise _Bad("ran-early", f"a call scheduled for {S['last']} ran although the clock only reached {S['now']}")
    except _Bad as b:
        return {"key": b.key, "detail": b.detail}, S["adm"]
    return None, S["adm"]


# ------------------------------------------------------------------------------------------
# generation

DELAYS = [0, 0, 1, 1, 2, 2, 3, 4, 4, 8, 16]
ADVS = [0, 1, 1, 2, 2, 3, 4, 5, 8, 20]


class _Gen:
    def __init__(self, rng, hostile, nest=False):
        self.rng, self.hostile, self.n, self.nest = rng, hostile, 0, nest

    def t(self, pool):
        r = self.rng
        if self.hostile and r.random() < 0.25:
            return -r.choice([1, 1, 2, 3, 8])
        return r.choice(pool)

    def ref(self):
        r = self.rng
        hi = self.n + (2 if self.hostile else 1)
        if self.n and r.random() < 0.5:
            return max(0, self.n - 1 - r.choice([0, 0, 1, 1, 2, 3]))
        return r.randrange(0, max(1, hi))

    def op(self, depth):
        r = self.rng
        if depth > 0 and self.nest and r.random() < 0.16:
            # the running call advances the clock itself (re-entrant advance / pump)
            if r.random() < 0.8:
                return ["adv", self.t(ADVS)]
            return ["pump", [self.t(ADVS) for _ in range(r.choice([1, 2, 3]))]]
        x = r.random()
        if x < 0.42:
            d = self.t(DELAYS)
            self.n += 1
            body = self.script(depth + 1) if depth < 4 and r.random() < (0.55 if depth == 0 else 0.4) else []
            return ["cl", d, body]
        if x < 0.57:
            return ["x", self.ref()]
        if x < 0.72:
            return ["r", self.ref(), self.t(DELAYS)]
        if x < 0.9:
            return ["d", self.ref(), self.t(DELAYS) if r.random() < 0.6 else -r.choice([1, 2, 3, 4])]
        return ["look"]

    def script(self, depth):
        return [self.op(depth) for _ in range(self.rng.choice([1, 1, 2, 2, 3, 4]))]

    def history(self, n):
        r, h = self.rng, []
        for _ in range(n):
            x = r.random()
            if x < 0.22:
                h.append(["adv", self.t(ADVS)])
            elif x < 0.26:
                h.append(["pump", [self.t(ADVS) for _ in range(r.choice([0, 1, 2, 3]))]])
            else:
                h.append(self.op(0))
        h.append(["look"])
        if r.random() < 0.7:
            h += [["adv", r.choice([8, 20, 40])], ["look"]]
        return h


def _same_time_group(rng):
    """several calls for one instant created at different times, some cancelled/rescheduled from inside"""
    n = rng.randint(3, 7)
    h, now, target = [], 0, rng.choice([4, 6, 8])
    for i in range(n):
        body = []
        if rng.random() < 0.4:
            body.append(rng.choice([["x", rng.randrange(n)], ["d", rng.randrange(n), rng.choice([0, 1, -1])],
                                    ["r", rng.randrange(n), rng.choice([0, 1])], ["cl", 0, []], ["look"]]))
        h.append(["cl", target - now, body])
        if now < target - 1 and rng.random() < 0.4:
            h.append(["adv", 1])
            now += 1
    if rng.random() < 0.5:
        h.append(["d", rng.randrange(n), 0])
    h += [["look"], ["adv", target - now], ["look"], ["adv", 2], ["look"]]
    return {"h": h}


def _reentrant_case(rng):
    """a running call advances the clock itself, then schedules / moves calls onto the new `now` (they are due at once and
    belong to the advance still in progress), cancels or postpones calls the inner advance has or has not yet run"""
    g = _Gen(rng, hostile=rng.random() < 0.2, nest=rng.random() < 0.5)
    h = []
    for _ in range(rng.choice([0, 1, 2, 3])):
        h.append(["cl", rng.choice([1, 2, 3, 4, 6, 9]), g.script(1) if rng.random() < 0.3 else []])
        g.n += 1
    t0 = rng.choice([0, 1, 1, 2, 3])
    outer = g.n
    g.n += 1
    pre = g.script(1) if rng.random() < 0.5 else []
    n = rng.choice([0, 1, 2, 3, 5, 8])
    post = []
    for _ in range(rng.choice([1, 1, 2, 3])):
        x = rng.random()
        if x < 0.4:
            post.append(["cl", rng.choice([0, 0, 0, 1]), g.script(2) if rng.random() < 0.3 else []])
            g.n += 1
        elif x < 0.6:
            post.append(["r", g.ref(), rng.choice([0, 0, 1])])
        elif x < 0.75:
            post.append(["d", g.ref(), rng.choice([0, -1, -2, 1])])
        elif x < 0.85:
            post.append(["x", g.ref()])
        else:
            post.append(["look"])
    inner = ["adv", n] if rng.random() < 0.8 else ["pump", [rng.choice([0, 1, 2]) for _ in range(rng.choice([1, 2, 3]))]]
    h.append(["cl", t0, pre + [inner] + post])
    if rng.random() < 0.5:
        h.append(["cl", t0 + rng.choice([0, 1, 2, 5]), []])
    h += [["look"], ["adv", t0], ["look"]]
    if rng.random() < 0.7:
        h += [["adv", rng.choice([1, 8, 20])], ["look"]]
    return {"h": h}


UNITS = [-40, -40, -30, -20, -10, 0, 10, 20, "int"]
EPOCHS = [20, 33, 40, 50]


def _dress(rng, case):
    """choose what a tick is on the real clock (sub-nanosecond … days, or Python ints) and, independently, put the
    clock at an epoch-like time first; the model line (ticks) is unaffected by the unit"""
    if rng.random() < 0.32:
        case["u"] = rng.choice(UNITS)
    if rng.random() < 0.18:
        case["h"].insert(0, ["adv", 2 ** rng.choice(EPOCHS)])
    return case


ALPHABET = [
    ["cl", 0, []], ["cl", 1, []], ["cl", 2, [["cl", 0, []]]], ["cl", 1, [["x", 1]]], ["cl", 1, [["r", 1, 0]]],
    ["cl", 1, [["d", 0, -1]]], ["cl", 1, [["d", 1, 1], ["x", 0]]],
    ["x", 0], ["r", 0, 2], ["r", 1, 0], ["d", 0, -1], ["d", 1, 1], ["adv", 1], ["adv", 0],
]


def _exhaustive(depth):
    for n in range(1, depth + 1):
        for combo in itertools.product(ALPHABET, repeat=n):
            yield {"h": [_copy(o) for o in combo] + [["look"], ["adv", 3], ["look"]]}


def _copy(o):
    return [(_copy_list(x) if isinstance(x, list) else x) for x in o]


def _copy_list(l):
    return [(_copy(x) if isinstance(x, list) else x) for x in l]


def corpus():
    return [
        {"h": []},
        {"h": [["cl", 5, [["cl", 0, []], ["x", 0]]], ["cl", 5, [["look"]]], ["look"], ["adv", 5], ["look"]]},
        # delay(negative) from inside a running call moves a pending call before the running one's time
        {"h": [["cl", 2, [["d", 1, -4]]], ["cl", 8, []], ["r", 0, 1], ["adv", 10], ["x", 7], ["x", 0], ["x", 0]]},
        # same instant reached by different (now, delay) pairs; creation order must win
        {"h": [["cl", 4, []], ["adv", 1], ["cl", 3, []], ["adv", 1], ["cl", 2, []], ["adv", 2], ["look"]]},
        # reset without re-sort, then callLater (sort) and advance
        {"h": [["cl", 1, []], ["cl", 2, []], ["r", 0, 5], ["look"], ["cl", 3, []], ["adv", 3], ["look"], ["adv", 2]]},
        # a call cancelling / resetting / delaying itself and a sibling due at the same instant
        {"h": [["cl", 1, [["x", 0], ["r", 0, 1], ["d", 0, 1], ["x", 1], ["x", 1]]], ["cl", 1, []], ["adv", 1], ["look"]]},
        # chain of delay-0 self-rescheduling (finite) inside one advance
        {"h": [["cl", 0, [["cl", 0, [["cl", 0, [["cl", 0, []]]]]]]], ["adv", 0], ["look"]]},
        # TwistedProps.C09.order_needs_causal_counterexample: delay(-7) from inside a running call puts a pending
        # call before the running one (non-causal: only min-first / exactly-once / first-advance are claimed)
        {"h": [["cl", 2, [["d", 1, -7]]], ["cl", 8, []], ["adv", 10], ["look"]]},
        {"h": [["cl", 5, []], ["adv", 5], ["cl", -3, []], ["cl", 0, [["r", 1, -4]]], ["adv", 0], ["look"]]},
        # negative advance, negative delay
        {"h": [["cl", 2, []], ["adv", -1], ["cl", -3, []], ["adv", 0], ["adv", 5], ["look"]]},
        {"h": [["pump", [1, 2, 3]], ["cl", 1, []], ["pump", []], ["pump", [0, 1]], ["look"]]},
        # delay into the negative-delayed_time branch and back
        {"h": [["cl", 4, []], ["d", 0, 2], ["d", 0, -3], ["d", 0, -2], ["r", 0, 6], ["r", 0, 0], ["adv", 0], ["look"]]},
        # sub-nanosecond ticks: a call one tick in the future is NOT due (no tolerance), and calls a tick apart are
        # ordered by time, not by creation (no rounding of the sort key)  [mutants m06, m07]
        {"u": -40, "h": [["cl", 2, []], ["adv", 1], ["look"], ["adv", 1], ["look"]]},
        {"u": -40, "h": [["cl", 2, [["look"]]], ["cl", 1, [["look"]]], ["adv", 2], ["look"]]},
        {"u": -20, "h": [["cl", 3, []], ["cl", 2, []], ["cl", 1, []], ["adv", 1], ["look"], ["pump", [1, 1]], ["look"]]},
        # epoch-like clock time (2**30 s) with 1/8 s differences: no relative tolerance either  [mutant m04]
        {"h": [["adv", 2 ** 33], ["cl", 3, []], ["cl", 1, []], ["adv", 1], ["look"], ["adv", 2], ["look"]]},
        {"u": 0, "h": [["adv", 2 ** 50], ["cl", 2, []], ["adv", 1], ["look"], ["adv", 1], ["look"]]},
        # Python ints everywhere
        {"u": "int", "h": [["cl", 0, [["cl", 0, []], ["r", 1, 1]]], ["cl", 1, []], ["adv", 0], ["look"], ["adv", 1], ["look"]]},
        # re-entrant advance from a running call; the call it then schedules for `now` is due at once and belongs to the
        # outer advance, which is still in progress  [mutant m08]  (oracle-only: no model counterpart)
        {"h": [["cl", 1, [["adv", 5], ["cl", 0, []], ["look"]]], ["adv", 1], ["look"]]},
        {"h": [["cl", 1, [["cl", 2, [["look"]]], ["adv", 3], ["r", 1, 0], ["r", 2, 0], ["look"]]], ["cl", 3, []], ["cl", 9, []],
               ["adv", 1], ["look"], ["adv", 10], ["look"]]},
        {"h": [["cl", 0, [["pump", [0, 1, 2]], ["cl", 0, [["adv", 1], ["cl", 0, []]]]]], ["cl", 2, []], ["adv", 0], ["look"]]},
    ]


def generate(rng, tier):
    quick = tier == "quick"
    for c in _exhaustive(3 if quick else 4):
        yield c
    n = 1200 if quick else 30000
    for k in range(n):
        r = rng.random()
        if r < 0.12:
            yield _dress(rng, _same_time_group(rng))
            continue
        g = _Gen(rng, hostile=(r > 0.62))
        size = rng.choice([3, 5, 8, 12, 20, 30]) if r < 0.95 else rng.choice([60, 100])
        yield _dress(rng, {"h": g.history(size)})
    # re-entrant advance/pump from inside running calls (oracle-only cases)
    for k in range(300 if quick else 6000):
        if k % 2:
            yield _dress(rng, _reentrant_case(rng))
        else:
            g = _Gen(rng, hostile=(k % 10 == 0), nest=True)
            yield _dress(rng, {"h": g.history(rng.choice([3, 5, 8, 12, 20]))})


def search(rng, tier, disagreeing):
    for c in _exhaustive(4):
        yield c
    for k in range(8000):
        g = _Gen(rng, hostile=(k % 2 == 0))
        yield {"h": g.history(rng.choice([4, 8, 16, 30]))}
    for k in range(2000):
        yield _dress(rng, _same_time_group(rng))
    for k in range(4000):
        g = _Gen(rng, hostile=(k % 4 == 0), nest=(k % 2 == 0))
        yield _dress(rng, _reentrant_case(rng) if k % 3 == 0 else {"h": g.history(rng.choice([4, 8, 16]))})


# ------------------------------------------------------------------------------------------
# evidence classes and shrinking

def _depth(items):
    return max([1 + _depth(o[2]) for o in items if o[0] == "cl"] or [0])


def _neg(items):
    for o in items:
        if o[0] == "cl" and (o[1] < 0 or _neg(o[2])):
            return True
        if o[0] in ("r", "d") and o[2] < 0:
            return True
        if o[0] == "adv" and o[1] < 0:
            return True
        if o[0] == "pump" and any(n < 0 for n in o[1]):
            return True
    return False


def tag(case, out):
    toks = [] if out == "-" else out.split(" ")
    kinds = set()
    runs, nested = [], 0
    depth = 0
    for t in toks:
        if t.startswith("!"):
            kinds.add(t.split(":")[0])
        else:
            kinds.add(("n" + t[0]) if depth and t[0] in "+xrd?L" else t[0])
        if t.startswith("("):
            depth += 1
            runs.append(t.split("@")[1].split("/")[0])
        elif t.startswith(")"):
            depth -= 1
    same = len(runs) != len(set(runs))
    nb = 0 if not runs else 1 if len(runs) < 3 else 2 if len(runs) < 8 else 3
    h = case["h"]
    epoch = bool(h) and h[0][0] == "adv" and h[0][1] >= 2 ** 20
    return (f"{''.join(sorted(kinds))}|d{_depth(h)}|r{nb}|{'neg' if _neg(h) else 'pos'}|{'tie' if same else 'uniq'}"
            f"|u{case.get('u', -3)}{'|epoch' if epoch else ''}{'|reentrant' if _reentrant(h) else ''}")


def nontrivial(case, out):
    return "(" in out


def _variants(items):
    """one-step reductions of a script (list of items)"""
    for i, o in enumerate(items):
        yield items[:i] + items[i + 1:]
    for i, o in enumerate(items):
        if o[0] == "cl":
            if o[2]:
                yield items[:i] + [["cl", o[1], []]] + items[i + 1:]
                for v in _variants(o[2]):
                    yield items[:i] + [["cl", o[1], v]] + items[i + 1:]
            if o[1] not in (0, 1):
                yield items[:i] + [["cl", 1 if o[1] > 0 else 0, o[2]]] + items[i + 1:]
        elif o[0] in ("r", "d") and o[2] not in (0, 1, -1):
            yield items[:i] + [[o[0], o[1], 1 if o[2] > 0 else -1]] + items[i + 1:]
        elif o[0] == "adv" and o[1] not in (0, 1):
            if abs(o[1]) > 2 ** 12:
                yield items[:i] + [["adv", o[1] // 2]] + items[i + 1:]
            yield items[:i] + [["adv", o[1] - 1 if o[1] > 0 else o[1] + 1]] + items[i + 1:]
        elif o[0] == "pump":
            yield items[:i] + [["adv", n] for n in o[1]] + items[i + 1:]
        if o[0] in ("x", "r", "d") and o[1] > 0:
            yield items[:i] + [[o[0], o[1] - 1] + o[2:]] + items[i + 1:]


def shrink(case):
    if "u" in case:
        yield {"h": case["h"]}
    for v in _variants(case["h"]):
        yield {**case, "h": v}
