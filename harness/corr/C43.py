"""C43 — IRC message splitting and CTCP/low-level quoting: real IRCClient.msg/notice, split, lowQuote/lowDequote,
ctcpQuote/ctcpDequote, ctcpStringify/ctcpExtract, ctcpMakeQuery/ctcpMakeReply → a receiving IRCClient, vs the Lean model,
plus the property oracle on what the real client wrote and what the real peer was handed."""
import functools
import json
import textwrap

from twisted.internet import task
from twisted.internet.testing import StringTransport
from twisted.words.protocols import irc

HEADLINE = "TwistedProps.C43.lines_within_limit"
RULE = ("messages assembled from ASCII words, long words, hyphenated words, runs of blanks/tabs/CR/LF/VT/FF, non-ASCII "
        "whitespace, 2/3/4-octet code points, NUL and M-QUOTE (which low-level quoting doubles), and texts of 400-1300 characters "
        "(one unit repeated, or many words) that overflow the computed default; targets ASCII and non-ASCII and assembled from atoms so "
        "that each of CR / LF / NUL / M-QUOTE occurs alone and in every combination; limits around len(fmt)+2 (refusal boundary), "
        "small, mid, 512 and None (computed default); "
        "histories (14% of cases): 1-4 calls of msg / notice / say on ONE client, the server announcing NICKLEN 5/9/16/30/64 before or "
        "between the calls (real RPL_ISUPPORT line), lineRate None or set (task.Clock as reactor) with 0-5 timer firings after each "
        "call and a final drain, 30% of the texts beyond the default limit, 30-70% of the limits None; "
        "received octets (recv / e2e) delivered whole, octet by octet, cut between CR and LF, or at 1-4 random offsets; "
        "plus direct split(), quote/dequote texts over the quoting alphabets, UTF-8 and isspace sweeps; "
        "CTCP framing (31% of cases): lists of (tag, data) with data None / '' / str / list of str, the data texts beginning with, "
        "ending in, or made only of every kind of whitespace (space, double space, tab, CR/LF/VT/FF, U+001C-1F, NBSP and every other "
        "str.isspace character), containing X-DELIM / X-QUOTE / 'a' / M-QUOTE / NUL / ' :', tags with X-DELIM / X-QUOTE / non-ASCII "
        "(and a few invalid: empty, containing the space) — through ctcpStringify→ctcpExtract (strex), interleaved with normal text "
        "(mixed), arbitrary texts into ctcpExtract (extract), a line delivered to a real receiving client (recv), and "
        "ctcpMakeQuery/ctcpMakeReply on one client delivered to another (e2e, incl. texts msg() rewrites or splits); "
        "distinct = (op, kind, character classes present, limit class, #lines class, raised?) resp. "
        "(hist, queue?, kinds, NICKLEN class, limit kinds, long?, quoted characters in targets, firings?, per-call outcome, classes) resp. "
        "(op, #messages, data kinds, leading/trailing/only-whitespace class, escapes present, character classes, tag validity, calls)")
ASSUMES = [
    "CTCP framing: a tag is a non-empty str without U+0020 (the one separator); data that is None, '' or [] is the message "
    "`X-DELIM tag X-DELIM` and comes back as None; every other data text comes back character for character",
    "client → client: the round trip is proved (ctcp_query_client_to_client / ctcp_reply_client_to_client) for CTCP texts without "
    "tab/LF/VT/FF/CR that fit the line in octets, for every wrap with textwrap's whole-line behaviour (WrapWhole: a fitting line "
    "without those characters, not ending in whitespace, is returned as the single line — checked by the driver on every observed "
    "textwrap.wrap call); the oracle claims it whenever the written line carries the text whole. When msg() splits or rewrites "
    "whitespace (which the statement's first clause allows: newlines split, tabs expand, a text longer than the line is cut, so the "
    "CTCP framing does not survive) what the peer is handed is compared with the model only",
    "the receiving client is observed at ctcpQuery / ctcpReply / privmsg / noticed (overridden to record); LineReceiver framing, "
    "UTF-8 decoding, lowDequote and parsemsg of a well-formed ':prefix PRIVMSG target :text' line run for real and are tied, not "
    "modelled beyond receiver_recovers (decode + lowDequote give back the line)",
    "textwrap.wrap (stdlib) is a parameter of the model: every theorem holds for any wrap meeting WrapContract (lines <= width "
    "characters; only whitespace differs) — the client → client theorems for any wrap meeting WrapWhole; on every run the answers the real textwrap.wrap gave to the calls the real code made "
    "are checked against that contract (driver) and fed to the model as the parameter",
    "message, target and command are str made of Unicode scalar values (a lone surrogate makes str.encode raise)",
    "IRCClient.lineRate is None (sendLine writes immediately) or a positive number with twisted.internet.task.Clock standing in for "
    "the reactor (irc.reactor is replaced for the duration of the run): the queue, the timer and its firings are modelled "
    "(History.lean: Conn.sendLine / tick / fire) and history_written is proved for every schedule; one transport.write per line. "
    "lineRate = 0 (callLater(0): one advance drains everything) and lineRate changed while lines are queued are not generated",
    "lines are attributed to the calls of a history by counting each call's sendLine invocations (an instance-level wrapper "
    "that delegates to the real method); the default limit of a call is the documented one for the NICKLEN the server announced "
    "last (ServerSupportedFeatures parses the real 005 line)",
    "say(channel, ...) with a non-empty channel (channel[0] of '' raises IndexError before anything is sent)",
    "segmentation of the received octets is LineReceiver's business: the model receives whole lines; the tie and the oracle "
    "demand the same calls on the peer for every segmentation generated",
    "'whitespace' is str.isspace (tied to the model's isSpace over all code points on every run)",
    "the model's UTF-8 encoder/decoder (proved inverse) are CPython's codec: tied on every run over boundary and random scalar values",
]
TRUSTED = ["CPython str.encode('utf-8'), str.split, str.replace, re.sub as used by irc.py",
           "textwrap.wrap observed through a recording wrapper (calls and results) during the real call"]
MANIFEST = {
    "text": "Lean theorems (TwistedProps/C43.lean) over an executable model of irc.split/IRCClient._sendMessage/_reallySendLine "
            "and the quoting functions: for every message, target, limit and every textwrap meeting its contract, each written "
            "line is within the limit in octets (terminator included), contains no CR/LF before the terminator, and the message "
            "parts concatenate to the message's non-whitespace characters; lowDequote∘lowQuote = id and ctcpDequote∘ctcpQuote = id "
            "for all texts; for every history of msg/notice/say calls on one client, every NICKLEN in force, lineRate set or not "
            "and every timer schedule, the drained transport carries exactly each call's lines in order (history_written) and each "
            "call's lines meet the three clauses (history_lines_within_limit, history_content_preserved). "
            "Model tied to irc.py by differential runs of the real client on a recording transport.",
    "note": "trusts Lean kernel, the hand-written model (differentially tied on every run), textwrap.wrap's contract "
            "(checked on every observed call), CPython's UTF-8 codec",
    "technique": "Lean 4 proof (per-character form of the sequential replaces, induction over chunks; str.split(X_DELIM) of "
                 "delimiter-free pieces, cut at the first single space) + differential tie",
    "design_ref": "DESIGN.md §7 C43",
}


def enc(t):
    return ",".join(str(ord(c)) for c in t) if t else "-"


def enc_msgs(msgs):
    """<msgs> of the driver protocol: data None / str / list of str"""
    out = []
    for tg, d in msgs:
        if d is None:
            out.append(f"{enc(tg)}/n")
        elif isinstance(d, str):
            out.append(f"{enc(tg)}/t/{enc(d)}")
        else:
            out.append(f"{enc(tg)}/l/" + (":".join(enc(x) for x in d) if d else "~"))
    return ";".join(out) if out else "~"


def show_ext(ext):
    return ";".join(f"{enc(tg)}/" + ("N" if d is None else "T" + enc(d)) for tg, d in ext) if ext else "~"


def show_extract(r):
    return show_ext(r["extended"]) + "|" + (";".join(enc(x) for x in r["normal"]) if r["normal"] else "~")


def _msgs(c):
    return [(m[0], m[1] if m[1] is None or isinstance(m[1], str) else list(m[1])) for m in c["msgs"]]


def _mixed_text(c):
    ns, ms = c["normals"], _msgs(c)
    t = ns[0]
    for m, n in zip(ms, ns[1:]):
        t += irc.ctcpStringify([m]) + n
    return t


# ------------------------------------------------------------------------------------------
# running the real code

class _Peer(irc.IRCClient):
    """the receiving client: records which of ctcpQuery / ctcpReply / privmsg / noticed the real irc_PRIVMSG / irc_NOTICE
    call, with what (the per-tag dispatch inside ctcpQuery / ctcpReply is not part of the property)"""
    nickname = "bob"
    performLogin = False

    def __init__(self):
        self.events = []

    def ctcpQuery(self, user, channel, messages):
        self.events.append("Q:" + show_ext(list(messages)))

    def ctcpReply(self, user, channel, messages):
        self.events.append("R:" + show_ext(list(messages)))

    def privmsg(self, user, channel, message):
        self.events.append("P:" + enc(message))

    def noticed(self, user, channel, message):
        self.events.append("N:" + enc(message))


def _segments(data, cuts):
    """the octets cut at `cuts`: None = one segment, "all" = octet by octet, else offsets (negative: from the end)"""
    if not cuts:
        return [data]
    if cuts == "all":
        return [data[i:i + 1] for i in range(len(data))]
    n = len(data)
    pts = sorted({k if k >= 0 else n + k for k in cuts} & set(range(1, n)))
    return [data[a:b] for a, b in zip([0] + pts, pts + [n])]


def _deliver(data, cuts=None):
    """feed octets (complete lines) to a fresh receiving client through the real dataReceived, in the given segments"""
    peer = _Peer()
    peer.makeConnection(StringTransport())
    for seg in _segments(data, cuts):
        peer.dataReceived(seg)
    return "+".join(peer.events) if peer.events else "~"


class _Recorder:
    """records the calls made to textwrap.wrap while the real code runs (the stdlib parameter)"""

    def __init__(self):
        self.calls = []

    def __enter__(self):
        self.orig = textwrap.wrap

        def spy(text, width=70, **kw):
            res = self.orig(text, width, **kw)
            self.calls.append((text, width, list(res)))
            return res
        textwrap.wrap = spy
        return self

    def __exit__(self, *a):
        textwrap.wrap = self.orig


class _Transport(StringTransport):
    def __init__(self):
        super().__init__()
        self.writes = []

    def write(self, data):
        self.writes.append(bytes(data))


def _table(calls):
    seen, ents = set(), []
    for text, width, res in calls:
        if not isinstance(width, int) or width < 0:
            continue
        k = (text, width)
        if k in seen:
            continue
        seen.add(k)
        ents.append(f"{enc(text)}/{width}/" + (";".join(enc(c) for c in res) if res else "~"))
    return "|".join(ents) if ents else "~"


def _show_lines(ws):
    return ";".join(w.hex() or "-" for w in ws) if ws else "~"


def _run_hist(c):
    """ONE client, the calls of c["steps"] in order; NICKLEN announced by the server (a real RPL_ISUPPORT line) whenever the
    step's value differs from the one in force; with c["rate"] the client's lineRate is set and the reactor is a task.Clock
    advanced `fires` times after each call and until no call is pending at the end.  Lines are attributed to calls by counting
    the sendLine calls each step makes."""
    rate = c.get("rate")
    clock = task.Clock()
    old_reactor = irc.reactor
    irc.reactor = clock
    try:
        client = irc.IRCClient()
        tr = _Transport()
        client.makeConnection(tr)
        tr.writes.clear()
        if rate is not None:
            client.lineRate = rate
        counts = []
        orig = client.sendLine

        def spy(line):
            counts[-1] += 1
            return orig(line)
        client.sendLine = spy
        nicklen, results = 9, []
        for st in c["steps"]:
            if st.get("nicklen", 9) != nicklen:
                nicklen = st.get("nicklen", 9)
                client.dataReceived(b":irc.example.org 005 irc NICKLEN=%d :are supported by this server\r\n" % nicklen)
            counts.append(0)
            call = {"msg": client.msg, "notice": client.notice, "say": client.say}[st["kind"]]
            try:
                call(st["user"], st["message"], st["length"])
                results.append(None)
            except ValueError:
                results.append("!raised ValueError" if not counts[-1] else "!raised ValueError after %d lines" % counts[-1])
            if rate is not None:
                for _ in range(st.get("fires", 0)):
                    clock.advance(rate)
        for _ in range(100000):
            if not clock.getDelayedCalls():
                break
            clock.advance(rate)
    finally:
        irc.reactor = old_reactor
    if len(tr.writes) != sum(counts):
        return "!written %d lines for %d sendLine calls: %s" % (len(tr.writes), sum(counts), _show_lines(tr.writes))
    groups, at = [], 0
    for r, k in zip(results, counts):
        groups.append(r if r is not None and k == 0 else _show_lines(tr.writes[at:at + k]) if r is None else r)
        at += k
    return "/".join(groups)


@functools.lru_cache(maxsize=4096)
def _trace_key(key):
    c = json.loads(key)
    with _Recorder() as rec:
        try:
            if c["op"] == "split":
                out = irc.split(c["text"], c["length"])
                out = ";".join(enc(x) for x in out) if out else "~"
            elif c["op"] == "hist":
                out = _run_hist(c)
            elif c["op"] == "e2e":
                client = irc.IRCClient()
                tr = _Transport()
                client.makeConnection(tr)
                tr.writes.clear()
                make = client.ctcpMakeQuery if c["kind"] == "q" else client.ctcpMakeReply
                try:
                    make(c["user"], _msgs(c))
                    out = _show_lines(tr.writes) + "|" + _deliver(b"".join(b":alice!a@example.org " + w for w in tr.writes),
                                                                  c.get("cuts"))
                except ValueError:
                    out = "!raised ValueError" if not tr.writes else "!raised ValueError after " + _show_lines(tr.writes)
            else:
                client = irc.IRCClient()
                tr = _Transport()
                client.makeConnection(tr)
                tr.writes.clear()
                kind = client.msg if c["kind"] == "msg" else client.notice
                try:
                    kind(c["user"], c["message"], c["length"])
                    out = _show_lines(tr.writes)
                except ValueError:
                    out = "!raised ValueError" if not tr.writes else "!raised ValueError after " + _show_lines(tr.writes)
        except ValueError:
            out = "!raised ValueError"
    return out, _table(rec.calls)


def _trace(c):
    return _trace_key(json.dumps(c, sort_keys=True))


def model_line(c):
    op = c["op"]
    if op in ("lowq", "lowdq", "ctcpq", "ctcpdq", "utf8"):
        return f"{op} {enc(c['t'])}"
    if op == "isspace":
        return f"isspace {c['lo']} {c['hi']}"
    if op == "octets":
        return f"octets {enc(c['text'])} {c['maximum']}" if hasattr(irc, "_splitOctets") else None
    if op == "split":
        return f"split {enc(c['text'])} {c['length']} {_trace(c)[1]}"
    if op == "strex":
        return f"strex {enc_msgs(_msgs(c))}"
    if op == "mixed":
        return f"mixed {enc_msgs(_msgs(c))} {';'.join(enc(n) for n in c['normals'])}"
    if op == "extract":
        return f"extract {enc(c['t'])}"
    if op == "recv":
        return f"recv {c['kind']} {enc(c['t'])}"
    if op == "e2e":
        return f"e2e {c['kind']} {enc(c['user'])} {enc_msgs(_msgs(c))} 9 {_trace(c)[1]}"
    if op == "hist":
        steps = ";".join("/".join([st["kind"], enc(st["user"]), enc(st["message"]),
                                   "none" if st["length"] is None else str(st["length"]),
                                   str(st.get("nicklen", 9)), str(st.get("fires", 0) if c.get("rate") is not None else 0)])
                         for st in c["steps"])
        return f"hist {0 if c.get('rate') is None else 1} {steps} {_trace(c)[1]}"
    mt = "PRIVMSG" if c["kind"] == "msg" else "NOTICE"
    ln = "none" if c["length"] is None else str(c["length"])
    return f"send {enc(mt)} {enc(c['user'])} {enc(c['message'])} {ln} 9 {_trace(c)[1]}"


def run_impl(c):
    op = c["op"]
    if op == "lowq":
        q = irc.lowQuote(c["t"])
        return enc(q) + "|" + enc(irc.lowDequote(q))
    if op == "lowdq":
        return enc(irc.lowDequote(c["t"]))
    if op == "ctcpq":
        q = irc.ctcpQuote(c["t"])
        return enc(q) + "|" + enc(irc.ctcpDequote(q))
    if op == "ctcpdq":
        return enc(irc.ctcpDequote(c["t"]))
    if op == "utf8":
        b = c["t"].encode("utf-8")
        return (b.hex() or "-") + "|" + enc(b.decode("utf-8"))
    if op == "isspace":
        return ",".join(str(n) for n in range(c["lo"], c["hi"]) if chr(n).isspace()) or "-"
    if op == "strex":
        w = irc.ctcpStringify(_msgs(c))
        return enc(w) + "|" + show_extract(irc.ctcpExtract(w))
    if op == "mixed":
        w = _mixed_text(c)
        return enc(w) + "|" + show_extract(irc.ctcpExtract(w))
    if op == "extract":
        return show_extract(irc.ctcpExtract(c["t"]))
    if op == "recv":
        cmd = "PRIVMSG" if c["kind"] == "p" else "NOTICE"
        line = f":alice!a@example.org {cmd} bob :" + _ref_low_quote(c["t"])
        return _deliver(line.encode("utf-8") + b"\r\n", c.get("cuts"))
    if op == "octets":
        if not hasattr(irc, "_splitOctets"):
            return "absent"
        try:
            out = irc._splitOctets(c["text"], c["maximum"])
        except ValueError:
            return "!raised ValueError"
        return ";".join(enc(x) for x in out) if out else "~"
    return _trace(c)[0]


# ------------------------------------------------------------------------------------------
# the property on the implementation's behaviour (independent of the Lean model)

def _nonspace(s):
    return "".join(ch for ch in s if not ch.isspace())


def _dequote(s, q, table):
    """reference inverse of the quoting: q followed by x stands for table.get(x, x)"""
    out, i = [], 0
    while i < len(s):
        if s[i] == q and i + 1 < len(s):
            out.append(table.get(s[i + 1], s[i + 1]))
            i += 2
        else:
            out.append(s[i])
            i += 1
    return "".join(out)


_LOW = {"0": "\x00", "n": "\n", "r": "\r", "\x10": "\x10"}
_CTCP = {"a": "\x01", "\\": "\\"}


def _wire_len(s):
    """octets a text occupies on the wire: NUL, LF, CR, M-QUOTE are sent as two octets, the rest as UTF-8"""
    return sum(2 if ch in "\x00\n\r\x10" else len(ch.encode("utf-8")) for ch in s)


def oracle(c, out):
    op = c["op"]
    if op in ("lowq", "ctcpq"):
        q, rt = out.split("|")
        if rt != enc(c["t"]):
            return {"key": op + "-roundtrip", "detail": f"{op} of {c['t']!r}: dequote(quote(t)) = {rt} expected {enc(c['t'])}"}
        qs = [int(x) for x in q.split(",")] if q != "-" else []
        if op == "lowq" and any(x in (0, 10, 13) for x in qs):
            return {"key": "lowq-leaves-control", "detail": f"lowQuote({c['t']!r}) contains NUL/CR/LF: {q}"}
        if op == "ctcpq" and 1 in qs:
            return {"key": "ctcpq-leaves-delim", "detail": f"ctcpQuote({c['t']!r}) contains X-DELIM: {q}"}
        return None
    if op == "split":
        if out.startswith("!"):
            return None if c["length"] <= 0 else {"key": "split-refused", "detail": f"split({c['text']!r}, {c['length']}) raised"}
        chunks = ["".join(chr(int(x)) for x in ch.split(",")) if ch != "-" else "" for ch in out.split(";")] if out != "~" else []
        if any(len(ch) > c["length"] for ch in chunks):
            return {"key": "split-chunk-too-long", "detail": f"split({c['text']!r}, {c['length']}) gave {chunks!r}"}
        if _nonspace("".join(chunks)) != _nonspace(c["text"]):
            return {"key": "split-content", "detail": f"split({c['text']!r}, {c['length']}) gave {chunks!r}"}
        return None
    if op == "octets":
        if out == "absent":
            return None
        need = max([_wire_len(ch) for ch in c["text"]] or [0])
        if out.startswith("!"):
            return None if need > c["maximum"] else {"key": "octets-refused", "detail": f"_splitOctets({c['text']!r}, {c['maximum']}) raised"}
        pieces = ["".join(chr(int(x)) for x in ch.split(",")) for ch in out.split(";")] if out != "~" else []
        if "".join(pieces) != c["text"] or "" in pieces:
            return {"key": "octets-content", "detail": f"_splitOctets({c['text']!r}, {c['maximum']}) gave {pieces!r}"}
        if any(len(irc.lowQuote(p).encode("utf-8")) > c["maximum"] for p in pieces):
            return {"key": "octets-too-long", "detail": f"_splitOctets({c['text']!r}, {c['maximum']}) gave {pieces!r}"}
        return None
    if op in ("strex", "mixed"):
        return _oracle_extract(c, out)
    if op == "recv":
        return _oracle_recv(c, out)
    if op == "e2e":
        return _oracle_e2e(c, out)
    if op == "hist":
        return _oracle_hist(c, out)
    if op != "send":
        return None
    return _send_check(c, out, [])


def _say_target(channel):
    """say(): `#` is put in front of a channel name that has no prefix (documented)"""
    return channel if channel[0] in "&#!+" else "#" + channel


def _oracle_hist(c, out):
    """each message of the history is judged by the statement on its own lines: what was sent before on the same client,
    the NICKLEN in force, lineRate and the timer schedule do not enter the statement"""
    if out.startswith("!written"):
        return {"key": "hist-lines-lost-or-extra", "detail": f"{c!r}: {out[:300]}"}
    groups = out.split("/")
    if len(groups) != len(c["steps"]):
        return {"key": "hist-garbled", "detail": f"{c!r}: {out[:300]}"}
    for i, (st, g) in enumerate(zip(c["steps"], groups)):
        bad = _send_check(st, g, [])
        if bad is not None:
            first = i == 0 and st.get("nicklen", 9) == 9 and c.get("rate") is None and st["kind"] != "say"
            return {"key": ("" if first else "hist-") + bad["key"],
                    "detail": f"call {i + 1} of {len(c['steps'])} on one client (lineRate {c.get('rate')!r}): " + bad["detail"]}
    return None


def _send_check(c, out, parts):
    """the clauses about written lines; `parts` receives the message parts read back from the lines"""
    mt = "NOTICE" if c["kind"] == "notice" else "PRIVMSG"
    user = _say_target(c["user"]) if c["kind"] == "say" else c["user"]
    fmt = f"{mt} {user} :"
    limit = c["length"]
    if limit is None:
        # the documented default: room for `:nick!user@host ` with a nick of the server's NICKLEN, 10 and 63 characters
        limit = 512 - len(":" + "a" * c.get("nicklen", 9) + "!" + "b" * 10 + "@" + "c" * 63 + " " + fmt) - 10
    what = f"{c['kind']}({c['user']!r}, {c['message']!r}, length={c['length']!r})" + (
        f" [NICKLEN {c['nicklen']}]" if c.get("nicklen", 9) != 9 else "")
    overhead = _wire_len(fmt) + 2
    if out.startswith("!raised ValueError"):
        if out != "!raised ValueError":
            return {"key": "raised-after-writing", "detail": f"{what} wrote lines and then raised: {out}"}
        # refusing is within the statement only when the limit does not exceed the framing + terminator
        # (documented) or leaves fewer octets than some single character of the message needs
        room = limit - overhead
        if room > 0 and all(_wire_len(ch) <= room for ch in c["message"]):
            return {"key": "refused-with-room", "detail": f"{what} raised ValueError though limit {limit} leaves {room} octets "
                                                          f"and every character fits"}
        return None
    if out.startswith("!"):
        return {"key": "raised-other", "detail": f"{what} → {out}"}
    lines = [bytes.fromhex(h) if h != "-" else b"" for h in out.split(";")] if out != "~" else []
    for ln in lines:
        if len(ln) > limit:
            k = "line-exceeds-limit-multibyte" if any(b >= 0x80 for b in ln) else "line-exceeds-limit-quoted" if b"\x10" in ln else "line-exceeds-limit"
            return {"key": k, "detail": f"{what}: line of {len(ln)} octets > limit {limit}: {ln!r}"}
        if not ln.endswith(b"\r\n"):
            return {"key": "no-terminator", "detail": f"{what}: line {ln!r} does not end in CR LF"}
        body = ln[:-2]
        if b"\r" in body or b"\n" in body:
            return {"key": "cr-lf-in-line", "detail": f"{what}: line {ln!r} contains CR or LF before the terminator"}
        try:
            text = _dequote(body.decode("utf-8"), "\x10", _LOW)
        except UnicodeDecodeError:
            return {"key": "undecodable-line", "detail": f"{what}: line {ln!r} is not UTF-8"}
        if not text.startswith(fmt):
            return {"key": "bad-framing", "detail": f"{what}: line {ln!r} does not start with {fmt!r}"}
        parts.append(text[len(fmt):])
    if _nonspace("".join(parts)) != _nonspace(c["message"]):
        return {"key": "content-lost", "detail": f"{what}: parts {parts!r}"}
    return None




# --- CTCP framing: reference (property-level) forms, independent of irc.py and of the Lean model

def _ref_ctcp_quote(s):
    return "".join("\\\\" if ch == "\\" else "\\a" if ch == "\x01" else ch for ch in s)


def _ref_low_quote(s):
    return "".join({"\x10": "\x10\x10", "\x00": "\x100", "\n": "\x10n", "\r": "\x10r"}.get(ch, ch) for ch in s)


def _expected(msgs):
    """what must come back: the tag and the data TEXT, character for character.  Absent data and an empty text carry the
    same (no) characters: None and "" are not told apart (irc.py sends both as `X_DELIM tag X_DELIM` and hands back None;
    the exact choice is pinned by the tie with the model, not demanded by the statement)."""
    return [(tg, d or None) for tg, d in _texts(msgs)]


def _texts(msgs):
    """(tag, text put after the separating space, or None when the data is falsy and there is no separator)"""
    return [(tg, None if not d else d if isinstance(d, str) else " ".join(d)) for tg, d in msgs]


def _norm_ext(text):
    """an <extended> observable with empty data read as absent data"""
    return ";".join(e[:-2] + "N" if e.endswith("/T-") else e for e in text.split(";"))


def _ref_stringify(msgs):
    return "".join("\x01" + _ref_ctcp_quote(tg if d is None else tg + " " + d) + "\x01" for tg, d in _texts(msgs))


def _valid_tags(msgs):
    """a tag is a non-empty word without the space that separates it from its data"""
    return all(isinstance(tg, str) and tg != "" and " " not in tg for tg, _ in msgs)


def _lead(msgs):
    """which kind of whitespace the data texts begin with (the class the single-space cut is sensitive to)"""
    k = ""
    for _, d in _expected(msgs):
        if d:
            if d.isspace():
                k += "o"
            if d[0] == " ":
                k += "s"
            elif d[0] == "\t":
                k += "t"
            elif d[0].isspace():
                k += "u" if ord(d[0]) > 127 else "c"
            if d[-1].isspace():
                k += "e"
    return "".join(sorted(set(k))) or "0"


def _parse_ext(text):
    if text == "~":
        return []
    out = []
    for e in text.split(";"):
        tg, d = e.split("/")
        dec = lambda x: "" if x == "-" else "".join(chr(int(n)) for n in x.split(","))
        out.append((dec(tg), None if d == "N" else dec(d[1:])))
    return out


def _fail_class(msgs, got_ext):
    """stable class of a round-trip failure: the kind of data text of the first message that did not come back"""
    want = _expected(msgs)
    try:
        got = _parse_ext(got_ext)
    except ValueError:
        return "garbled"
    for i, w in enumerate(want):
        if i >= len(got) or (got[i][0], got[i][1] or None) != w:
            d = w[1]
            if not d:
                return "no-data"
            if d.isspace():
                return "only-whitespace"
            if d[0] == " ":
                return "lead-space"
            if d[0].isspace():
                return "lead-whitespace"
            return "trail-whitespace" if d[-1].isspace() else "inner-space" if " " in d else "text"
    return "extra-messages"


def _oracle_extract(c, out):
    msgs = _msgs(c)
    normals = c.get("normals")
    if out.startswith("!"):
        return {"key": "ctcp-raised", "detail": f"{c!r} → {out}"}
    if not _valid_tags(msgs) or (normals and any("\x01" in n for n in normals)):
        return None
    wire, ext, normal = out.split("|")
    what = (f"ctcpExtract(ctcpStringify({msgs!r}))" if normals is None
            else f"ctcpExtract of {normals!r} interleaved with ctcpStringify of {msgs!r}")
    if _norm_ext(ext) != show_ext(_expected(msgs)):
        return {"key": "ctcp-roundtrip-" + _fail_class(msgs, ext),
                "detail": f"{what}: extended = {ext}, expected {show_ext(_expected(msgs))} (text {wire})"}
    keep = [n for n in (normals or []) if n]
    if normal != (";".join(enc(n) for n in keep) if keep else "~"):
        return {"key": "ctcp-roundtrip-normal", "detail": f"{what}: normal = {normal}"}
    if normals is None and (wire.split(",").count("1") if wire != "-" else 0) != 2 * len(msgs):
        return {"key": "ctcp-stringify-delims",
                "detail": f"ctcpStringify({msgs!r}) = {wire}: X-DELIM must occur exactly as the {2 * len(msgs)} delimiters"}
    return None


def _oracle_recv(c, out):
    if "msgs" not in c:
        return None
    msgs = _msgs(c)
    if not msgs or not _valid_tags(msgs) or c["t"] != _ref_stringify(msgs):
        return None
    want = ("Q:" if c["kind"] == "p" else "R:") + show_ext(_expected(msgs))
    if _norm_ext(out) != want:
        return {"key": "ctcp-receive-" + (_fail_class(msgs, out[2:]) if out[:2] in ("Q:", "R:") and "+" not in out else "calls"),
                "detail": f"client receiving the CTCP text of {msgs!r} ({c['kind']}): calls {out}, expected {want}"}
    return None


def _oracle_e2e(c, out):
    msgs = _msgs(c)
    kind = "msg" if c["kind"] == "q" else "notice"
    text = _ref_stringify(msgs) if _valid_tags(msgs) else irc.ctcpStringify(msgs)
    lines = out if out.startswith("!") else out.split("|")[0]
    parts = []
    bad = _send_check({"op": "send", "kind": kind, "user": c["user"], "message": text, "length": None}, lines, parts)
    if bad is not None:
        return dict(bad, key="e2e-" + bad["key"])
    if out.startswith("!") or not msgs or not _valid_tags(msgs):
        return None
    # the round trip is claimed when the text reached the wire whole (msg()/notice() may split a long text and rewrite
    # whitespace, which the first clause of the statement allows; what the peer makes of such lines is left to the tie)
    if parts == [text]:
        want = ("Q:" if c["kind"] == "q" else "R:") + show_ext(_expected(msgs))
        got = out.split("|")[1]
        if _norm_ext(got) != want:
            return {"key": "ctcp-end-to-end-" + (_fail_class(msgs, got[2:]) if got[:2] in ("Q:", "R:") and "+" not in got else "calls"),
                    "detail": f"ctcpMake{'Query' if c['kind'] == 'q' else 'Reply'}({c['user']!r}, {msgs!r}) wrote {parts!r}; "
                              f"the peer's calls: {got}, expected {want}"}
    return None


# ------------------------------------------------------------------------------------------
# cases

WORDS = ["a", "be", "the", "hello", "world,", "goof-ball", "--", "-b", "x" * 13, "wörld", "naïve", "日本語", "€uro",
         "\U0001F600", "a\U0001F600b", "é" * 9, "€" * 7, "\U0001F600" * 5, "nul\x00nul", "\x10", "\x10\x10n", "\x00" * 6,
         "q\x10r", "!", "e.g.", "well-known-fact", "\x01ACTION\x01", "\\", "0", "n", "r"]
BLANKS = [" ", " ", " ", "  ", "\t", "\n", "\n", "\r", "\r\n", "\x0b", "\x0c", "\x1c", "\x85", "\xa0", " ", "　", " \n ", "\n\n"]
USERS = ["foo", "#chan", "nick", "&local", "#ünï", "#日本", "a", "n\x10k", "n\rk\n", "n\rk", "\r", "n\nk", "n\x00k"]
# targets are also assembled from these: each character low-level quoting rewrites occurs alone and in every combination
USER_ATOMS = ["n", "k", "#c", "ü", "日", "\r", "\n", "\x00", "\x10", "&", "x", "!", "+"]
LONG_UNITS = ["o", "é", "€", "\U0001F600", "\x00", "ab\x10", "wörld ", "日本語 ", "hello world, ", "\x10n ", "a\U0001F600"]
NICKLENS = [9, 16, 30, 5, 64]
QALPHA_LOW = ["\x10", "\x00", "\n", "\r", "0", "n", "r", "a", "\\", "\x01", "é", "\U0001F600", " "]
QALPHA_CTCP = ["\\", "\x01", "a", "\\", "\x10", "n", "é", " ", "\U0001F600", "\n"]


# CTCP framing cases.  The cut between tag and data is ONE space, so the data texts must begin (and end, and consist) of
# every kind of whitespace; X-DELIM / X-QUOTE / the letter `a` exercise the quoting inside the framing.
WS_ALL = [chr(n) for n in range(0x3001) if chr(n).isspace()]          # every str.isspace character
WS_WIRE_SAFE = [" ", "  ", "\xa0", "\u3000", "\u2003", "\x85", "\x1c", "\x1f", "\u2028", " \xa0 "]   # msg() leaves these alone
WS_REWRITTEN = ["\t", "\n", "\r", "\x0b", "\x0c", " \t", "\r\n"]                                      # msg() rewrites / splits at these
TAGS = ["ACTION", "ACTION", "ACTION", "PING", "VERSION", "DCC", "X", "a", "\\", "\\a", "T\x01G", "\x01", "ä", "日本", "CLIENT:INFO",
        "T\tG", "T\xa0G", ":x"]
BAD_TAGS = ["", "A B", " A", "A "]
DATA_ATOMS = ["waves", "at", "everybody", "12345", "a", "\\", "\\a", "\\\\", "\x01", "\x01\x01", "\\\x01", "é", "日本語", "\U0001F600", "\x10",
              "\x00", "\x10n", ":", " :", "CHAT chat 2130706433 5000", "x" * 40, "-"]
SEPS = [" ", " ", " ", "  ", "\xa0", "\t", "", "\u3000", "\n"]
NORMALS = ["", "", "hello", "hello world", " ", "  lead", "trail ", "\\a", "back\\slash", "é 日本", "\t", "a\nb", ":"]
E2E_USERS = ["bob", "bob", "#chan", "#ünï", "&local"]


def _data_text(rng, safe=False):
    lead_pool = WS_WIRE_SAFE if safe else WS_WIRE_SAFE + WS_REWRITTEN + WS_ALL
    r = rng.random()
    if r < 0.10:                                  # whitespace only
        return "".join(rng.choice(lead_pool) for _ in range(rng.randint(1, 3)))
    t = ""
    if rng.random() < 0.55:                       # leading whitespace (the blind spot of the seeded change C43-2)
        t += rng.choice(lead_pool)
    seps = [x for x in SEPS if x not in "\t\n"] if safe else SEPS
    for i in range(rng.choice([1, 1, 2, 3, 5])):
        if i:
            t += rng.choice(seps)
        t += rng.choice(DATA_ATOMS)
    if rng.random() < 0.25:
        t += rng.choice(lead_pool)
    return t


def _data(rng, safe=False):
    r = rng.random()
    if r < 0.07:
        return None
    if r < 0.11:
        return ""
    if r < 0.19:
        return [rng.choice(["", " ", "a", "b c", "\\", "\x01", " lead", "\xa0"]) for _ in range(rng.choice([0, 1, 1, 2, 3]))]
    return _data_text(rng, safe)


def _ctcp_msgs(rng, safe=False, atleast=0):
    n = max(atleast, rng.choice([0, 1, 1, 1, 1, 2, 2, 3]))
    return [[rng.choice(BAD_TAGS) if rng.random() < 0.04 else rng.choice(TAGS), _data(rng, safe)] for _ in range(n)]


def _ctcp_case(rng):
    r = rng.random()
    if r < 0.42:
        return {"op": "strex", "msgs": _ctcp_msgs(rng)}
    if r < 0.52:
        ms = _ctcp_msgs(rng)
        return {"op": "mixed", "msgs": ms, "normals": [rng.choice(NORMALS) for _ in range(len(ms) + 1)]}
    if r < 0.62:
        alpha = ["\x01", "\x01", " ", " ", "\\", "a", "A", "\t", "\xa0", "PING", "ACTION", "x y", "\\a", "\\\\", "é", "\n"]
        return {"op": "extract", "t": "".join(rng.choice(alpha) for _ in range(rng.randint(0, 12)))}
    if r < 0.72:
        ms = _ctcp_msgs(rng, atleast=1)
        if rng.random() < 0.8 and _valid_tags(_msgs({"msgs": ms})):
            return {"op": "recv", "kind": rng.choice("pn"), "t": _ref_stringify(_msgs({"msgs": ms})), "msgs": ms, "cuts": _cuts(rng)}
        alpha = ["\x01", "\x01", " ", "\\", "a", "ACTION", "x", "\t", "\xa0", "\x10", "\x00", "\n", "\r", " :", "é"]
        t = "".join(rng.choice(alpha) for _ in range(rng.randint(1, 10)))
        return {"op": "recv", "kind": rng.choice("pn"), "t": t, "cuts": _cuts(rng)}
    safe = rng.random() < 0.75
    ms = _ctcp_msgs(rng, safe)
    if rng.random() < 0.04:
        ms.append(["ACTION", "long " * rng.choice([60, 100]) + "tail"])
    return {"op": "e2e", "kind": rng.choice("qqr"), "user": rng.choice(E2E_USERS), "msgs": ms, "cuts": _cuts(rng)}


def _message(rng):
    n = rng.choice([0, 1, 2, 3, 5, 8, 13, 30])
    parts = []
    for _ in range(n):
        r = rng.random()
        if r < 0.55:
            parts.append(rng.choice(WORDS))
        elif r < 0.65:
            parts.append(rng.choice(WORDS) * rng.randint(2, 12))
        else:
            parts.append(rng.choice(BLANKS))
        if rng.random() < 0.5:
            parts.append(" ")
    return "".join(parts)


def _user(rng):
    if rng.random() < 0.8:
        return rng.choice(USERS[:4] * 3 + USERS)
    return "".join(rng.choice(USER_ATOMS) for _ in range(rng.randint(1, 4)))


def _long_message(rng):
    """texts longer than the default limit (about 400 octets): one unit repeated (fills every line to the brim) or many words"""
    if rng.random() < 0.6:
        u = rng.choice(LONG_UNITS)
        return u * (rng.randint(380, 1300) // len(u) + 1)
    return " ".join(rng.choice(WORDS) * rng.randint(1, 4) for _ in range(rng.randint(60, 200)))


def _cuts(rng):
    """how the octets reach the receiving client: whole, octet by octet, cut between CR and LF, cut anywhere"""
    r = rng.random()
    if r < 0.35:
        return None
    if r < 0.45:
        return "all"
    if r < 0.65:
        return [-1]
    return sorted({rng.choice([-1, -2, -3, rng.randint(1, 30), rng.randint(20, 120)]) for _ in range(rng.randint(1, 4))})


def _hist_case(rng):
    """several calls on ONE client: msg / notice / say, NICKLEN as announced by the server (changing in between),
    lineRate set or not, the timer firing between the calls"""
    nick = rng.choice([9, 9, 9] + NICKLENS)
    steps = []
    for _ in range(rng.choice([1, 2, 2, 3, 4])):
        if rng.random() < 0.25:
            nick = rng.choice(NICKLENS)
        kind = rng.choice(["msg", "notice", "say", "say"])
        user = _user(rng)
        long = rng.random() < 0.3
        message = _long_message(rng) if long else _message(rng)
        length = None if rng.random() < (0.7 if long else 0.3) else _length(rng, user, kind)
        steps.append({"kind": kind, "user": user, "message": message, "length": length, "nicklen": nick,
                      "fires": rng.choice([0, 0, 0, 1, 2, 5])})
    return {"op": "hist", "rate": rng.choice([None, None, 1, 0.5, 2]), "steps": steps}


def _length(rng, user, kind):
    mt = "NOTICE" if kind == "notice" else "PRIVMSG"
    if kind == "say":
        user = _say_target(user)
    base = len(f"{mt} {user} :") + 2
    r = rng.random()
    if r < 0.08:
        return None
    if r < 0.2:
        return base + rng.choice([-3, -1, 0])
    if r < 0.5:
        return base + rng.choice([1, 2, 3, 4, 5])
    if r < 0.85:
        return base + rng.randint(6, 40)
    return rng.choice([128, 256, 512])


def corpus():
    cs = [
        # the hand-found witnesses: characters are counted, octets are sent
        {"op": "send", "kind": "msg", "user": "foo", "message": "é" * 30, "length": 30},
        {"op": "send", "kind": "notice", "user": "foo", "message": "\U0001F600" * 8, "length": 25},
        {"op": "send", "kind": "msg", "user": "foo", "message": "\x00" * 12, "length": 24},
        {"op": "send", "kind": "msg", "user": "#ünï", "message": "hello world", "length": 22},
        # the unit tests' shapes
        {"op": "send", "kind": "msg", "user": "foo", "message": "bar", "length": None},
        {"op": "send", "kind": "msg", "user": "foo", "message": "barbazbo", "length": 14 + 2},
        {"op": "send", "kind": "msg", "user": "foo", "message": "bar\n\nbaz", "length": None},
        {"op": "send", "kind": "msg", "user": "foo", "message": "\nbar\n", "length": None},
        {"op": "send", "kind": "msg", "user": "foo", "message": "o" * 600, "length": None},
        {"op": "send", "kind": "notice", "user": "foo", "message": "o" * 600, "length": 256},
        {"op": "send", "kind": "msg", "user": "foo", "message": "bar", "length": 2},
        {"op": "send", "kind": "msg", "user": "foo", "message": "bar", "length": 15},
        {"op": "send", "kind": "msg", "user": "foo", "message": "a\rb\tc\x0bd\x0ce\x1cf  g", "length": 17},
        {"op": "send", "kind": "msg", "user": "foo", "message": "", "length": None},
        {"op": "send", "kind": "msg", "user": "foo", "message": "\U0001F600", "length": 16},
        {"op": "send", "kind": "msg", "user": "foo", "message": "é", "length": 16},
        {"op": "send", "kind": "msg", "user": "foo", "message": "\x00", "length": 16},
        {"op": "send", "kind": "notice", "user": "n\rk\n", "message": "x y", "length": 40},
        {"op": "send", "kind": "msg", "user": "&local", "message": "\t\x10", "length": 21},
        {"op": "send", "kind": "msg", "user": "foo", "message": "ab \U0001F600", "length": 18},
        # white-box mutation audit: a target whose only quoted character is CR; texts beyond the default limit;
        # one client used twice / after the server announced NICKLEN / through say() / with lineRate; segmented delivery
        {"op": "send", "kind": "msg", "user": "n\rk", "message": "hello", "length": None},
        {"op": "send", "kind": "notice", "user": "a\nb", "message": "x y", "length": None},
        {"op": "send", "kind": "msg", "user": "foo", "message": "é" * 900, "length": None},
        {"op": "hist", "rate": 1, "steps": [
            {"kind": "msg", "user": "foo", "message": "one two three", "length": 20, "nicklen": 9, "fires": 0}]},
        {"op": "hist", "rate": 0.5, "steps": [
            {"kind": "msg", "user": "foo", "message": "one two", "length": 20, "nicklen": 9, "fires": 1},
            {"kind": "notice", "user": "bar", "message": "three four five", "length": 20, "nicklen": 9, "fires": 0}]},
        {"op": "hist", "rate": None, "steps": [
            {"kind": "msg", "user": "a", "message": "x", "length": None, "nicklen": 9, "fires": 0},
            {"kind": "msg", "user": "#" + "c" * 40, "message": "o" * 900, "length": None, "nicklen": 9, "fires": 0}]},
        {"op": "hist", "rate": None, "steps": [
            {"kind": "msg", "user": "foo", "message": "o" * 900, "length": None, "nicklen": 30, "fires": 0}]},
        {"op": "hist", "rate": None, "steps": [
            {"kind": "say", "user": "chan", "message": "hello world again", "length": 25, "nicklen": 9, "fires": 0},
            {"kind": "say", "user": "&chan", "message": "hello world again", "length": 25, "nicklen": 9, "fires": 0}]},
        {"op": "e2e", "kind": "q", "user": "bob", "msgs": [["ACTION", "waves"]], "cuts": [-1]},
        {"op": "e2e", "kind": "r", "user": "#ünï", "msgs": [["ACTION", "é\x00\x10 日本"]], "cuts": "all"},
        {"op": "recv", "kind": "p", "t": "\x01ACTION waves\x01", "msgs": [["ACTION", "waves"]], "cuts": [-1]},
        {"op": "octets", "text": "", "maximum": 0},
        {"op": "octets", "text": "a", "maximum": 0},
        {"op": "octets", "text": "aé€\U0001F600\x00b", "maximum": 4},
        {"op": "octets", "text": "aé€\U0001F600\x00b", "maximum": 3},
        {"op": "split", "text": "hello world\nfoo", "length": 5},
        {"op": "split", "text": "", "length": 0},
        {"op": "split", "text": "abc", "length": -1},
        {"op": "split", "text": "a   b \x1c c", "length": 1},
        {"op": "lowq", "t": "\x10\x00\n\r0nr"},
        {"op": "lowdq", "t": "\x10"},
        {"op": "lowdq", "t": "a\x10\x10\x10nb\x10xc\x10"},
        {"op": "ctcpq", "t": "\\\x01a\\a"},
        {"op": "ctcpdq", "t": "\\"},
        {"op": "ctcpdq", "t": "x\\\\\\ay\\nz\\"},
        {"op": "utf8", "t": "\x00\x7f\x80߿ࠀ퟿￿\U00010000\U0010ffff"},
    ]
    # isspace over every code point (surrogates included: none is whitespace)
    step = 0x8000
    cs += [{"op": "isspace", "lo": lo, "hi": min(lo + step, 0x110000)} for lo in range(0, 0x110000, step)]
    return cs


def generate(rng, tier):
    n = 5800 if tier == "quick" else 86000
    for i in range(n):
        if rng.random() < 0.31:
            yield _ctcp_case(rng)
            continue
        if rng.random() < 0.2:
            yield _hist_case(rng)
            continue
        r = rng.random()
        if r < 0.62:
            kind = rng.choice(["msg", "notice"])
            user = _user(rng)
            if rng.random() < 0.05:
                yield {"op": "send", "kind": kind, "user": user, "message": _long_message(rng),
                       "length": rng.choice([None, None, 512, 256, _length(rng, user, kind)])}
                continue
            yield {"op": "send", "kind": kind, "user": user, "message": _message(rng), "length": _length(rng, user, kind)}
        elif r < 0.66:
            yield {"op": "octets", "text": _message(rng), "maximum": rng.choice([0, 1, 2, 3, 4, 4, 5, 6, 7, 9, 16, 40])}
        elif r < 0.72:
            yield {"op": "split", "text": _message(rng), "length": rng.choice([-1, 0, 1, 1, 2, 3, 5, 8, 13, 40, 80])}
        elif r < 0.8:
            yield {"op": "lowq", "t": "".join(rng.choice(QALPHA_LOW) for _ in range(rng.randint(0, 10)))}
        elif r < 0.86:
            yield {"op": "lowdq", "t": "".join(rng.choice(QALPHA_LOW) for _ in range(rng.randint(0, 10)))}
        elif r < 0.92:
            yield {"op": "ctcpq", "t": "".join(rng.choice(QALPHA_CTCP) for _ in range(rng.randint(0, 10)))}
        elif r < 0.97:
            yield {"op": "ctcpdq", "t": "".join(rng.choice(QALPHA_CTCP) for _ in range(rng.randint(0, 10)))}
        else:
            pts = [rng.choice([0, 0x7f, 0x80, 0x7ff, 0x800, 0xd7ff, 0xe000, 0xffff, 0x10000, 0x10ffff,
                               rng.randrange(0, 0xd800), rng.randrange(0xe000, 0x110000)]) for _ in range(rng.randint(1, 6))]
            yield {"op": "utf8", "t": "".join(chr(p) for p in pts)}


def search(rng, tier, disagreeing):
    """property-directed: every limit from the refusal boundary upward against texts of each octet width"""
    for user in ("foo", "#ünï"):
        base = len(f"PRIVMSG {user} :") + 2
        for unit in ("a", "é", "€", "\U0001F600", "\x00", "\x10", "a é", "€ \U0001F600"):
            for reps in (1, 3, 9, 40):
                for extra in range(-1, 12):
                    yield {"op": "send", "kind": "msg", "user": user, "message": unit * reps, "length": base + extra}
    # every whitespace character at the head / as the whole / at the tail of a CTCP data text, each path
    for ws in WS_ALL:
        for d in (ws + "x", ws, "x" + ws, ws + ws + "x y"):
            yield {"op": "strex", "msgs": [["ACTION", d]]}
            yield {"op": "recv", "kind": "p", "t": _ref_stringify([("ACTION", d)]), "msgs": [["ACTION", d]]}
            yield {"op": "e2e", "kind": "q", "user": "bob", "msgs": [["ACTION", d]]}
    yield from generate(rng, "quick")


def shrink(c):
    if "msgs" in c:
        ms = c["msgs"]
        for i in range(len(ms)):
            if c["op"] == "mixed":
                ns = c["normals"]
                yield dict(c, msgs=ms[:i] + ms[i + 1:], normals=ns[:i] + [ns[i] + ns[i + 1]] + ns[i + 2:])
            elif c["op"] != "recv":
                yield dict(c, msgs=ms[:i] + ms[i + 1:])
        for i, (tg, d) in enumerate(ms):
            cands = []
            if isinstance(d, str):
                if len(d) > 3:
                    cands += [[tg, d[:len(d) // 2]], [tg, d[len(d) // 2:]], [tg, d[:1] + d[-1:]]]
                cands += [[tg, d[:j] + d[j + 1:]] for j in range(len(d))]
            elif d is not None:
                cands += [[tg, " ".join(d)]] + [[tg, d[:j] + d[j + 1:]] for j in range(len(d))]
            if tg != "ACTION":
                cands.append(["ACTION", d])
            for m in cands:
                c2 = dict(c, msgs=ms[:i] + [m] + ms[i + 1:])
                if c["op"] == "recv":
                    if not _valid_tags(_msgs(c2)):
                        continue
                    c2["t"] = _ref_stringify(_msgs(c2))
                yield c2
        if c["op"] == "mixed":
            for i, n in enumerate(c["normals"]):
                if n:
                    yield dict(c, normals=c["normals"][:i] + [""] + c["normals"][i + 1:])
        if c.get("user", "bob") != "bob":
            yield dict(c, user="bob")
        if c.get("cuts"):
            yield dict(c, cuts=None)
            if c["cuts"] == "all":
                yield dict(c, cuts=[-1])
            elif len(c["cuts"]) > 1:
                for i in range(len(c["cuts"])):
                    yield dict(c, cuts=c["cuts"][:i] + c["cuts"][i + 1:])
        return
    if c["op"] == "recv" and c.get("cuts"):
        yield dict(c, cuts=None)
    if c["op"] == "hist":
        steps = c["steps"]
        for i in range(len(steps)):
            if len(steps) > 1:
                yield dict(c, steps=steps[:i] + steps[i + 1:])
        if c.get("rate") is not None:
            yield dict(c, rate=None)
        for i, st in enumerate(steps):
            m = st["message"]
            cands = []
            if len(m) > 3:
                cands += [dict(st, message=m[:len(m) // 2]), dict(st, message=m[len(m) // 2:]), dict(st, message=m[:-1])]
            if len(m) <= 40:
                cands += [dict(st, message=m[:j] + m[j + 1:]) for j in range(len(m))]
            if st.get("fires"):
                cands.append(dict(st, fires=0))
            if st.get("nicklen", 9) != 9:
                cands.append(dict(st, nicklen=9))
            if st["kind"] != "msg":
                cands.append(dict(st, kind="msg"))
            if st["user"] not in ("foo", "a"):
                cands += [dict(st, user="foo"), dict(st, user="a")]
            if len(st["user"]) > 1:
                cands += [dict(st, user=st["user"][:j] + st["user"][j + 1:]) for j in range(len(st["user"]))]
            for st2 in cands:
                yield dict(c, steps=steps[:i] + [st2] + steps[i + 1:])
        return
    if c["op"] == "send":
        m = c["message"]
        for i in range(len(m)):
            yield dict(c, message=m[:i] + m[i + 1:])
        for i in range(1, len(m)):
            yield dict(c, message=m[:i])
        if c["user"] != "foo":
            yield dict(c, user="foo")
        if c["length"] is not None and c["length"] > 0:
            yield dict(c, length=c["length"] - 1)
    elif c["op"] in ("split", "octets"):
        m = c["text"]
        for i in range(len(m)):
            yield dict(c, text=m[:i] + m[i + 1:])
    elif "t" in c:
        t = c["t"]
        for i in range(len(t)):
            yield dict(c, t=t[:i] + t[i + 1:])


def _classes(s):
    k = ""
    if any(ord(ch) >= 0x10000 for ch in s):
        k += "4"
    if any(0x800 <= ord(ch) < 0x10000 for ch in s):
        k += "3"
    if any(0x80 <= ord(ch) < 0x800 for ch in s):
        k += "2"
    if any(ch in "\x00\x10" for ch in s):
        k += "q"
    if "\n" in s:
        k += "n"
    if "\r" in s:
        k += "r"
    if "\t" in s:
        k += "t"
    if any(ch.isspace() and ord(ch) > 32 or ch in "\x1c\x0b\x0c" for ch in s):
        k += "w"
    if "-" in s:
        k += "h"
    return k or "a"


def tag(c, out):
    op = c["op"]
    if op == "hist":
        sts = c["steps"]
        kinds = "".join(sorted({st["kind"][0] for st in sts}))
        nicks = sorted({st.get("nicklen", 9) for st in sts})
        nc = "9" if nicks == [9] else "n" if len(nicks) == 1 else "v"
        lens = "".join(sorted({"N" if st["length"] is None else "g" for st in sts}))
        lng = "L" if any(len(st["message"]) > 380 for st in sts) else "s"
        uq = "".join(sorted({ch for st in sts for ch in st["user"] if ch in "\r\n\x00\x10"})).encode().hex() or "-"
        fires = "f" if c.get("rate") is not None and any(st.get("fires") for st in sts) else "-"
        groups = out.split("/") if not out.startswith("!written") else []
        res = "".join("r" if g.startswith("!") else "0" if g == "~" else "1" if ";" not in g else "m" for g in groups) or "!"
        return (f"hist:{'q' if c.get('rate') is not None else 'd'}:{kinds}:{nc}:{lens}:{lng}:{uq}:{fires}:{res}:"
                + _classes("".join(st["message"] for st in sts)))
    if op == "send":
        mt = "PRIVMSG" if c["kind"] == "msg" else "NOTICE"
        base = len(f"{mt} {c['user']} :") + 2
        ln = c["length"]
        lc = "none" if ln is None else "le" if ln <= base else "tight" if ln <= base + 5 else "mid" if ln < 128 else "big"
        if out.startswith("!"):
            nl = "raise"
        else:
            k = 0 if out == "~" else out.count(";") + 1
            nl = str(k) if k < 3 else "3+" if k < 10 else "10+"
        uc = "u8" if any(ord(ch) > 127 for ch in c["user"]) else "uq" if "\x10" in c["user"] else "ua"
        return f"send:{c['kind']}:{uc}:{_classes(c['message'])}:{lc}:{nl}"
    if op == "split":
        return f"split:{_classes(c['text'])}:{min(c['length'], 9)}:{'raise' if out.startswith('!') else min(out.count(';'), 5)}"
    if op == "isspace":
        return f"isspace:{c['lo']}"
    if op == "octets":
        return f"octets:{_classes(c['text'])}:{c['maximum']}:{'raise' if out.startswith('!') else min(out.count(';'), 5)}"
    if "msgs" in c:
        ms = _msgs(c)
        kinds = "".join(sorted({"n" if d is None else "e" if d == "" else "t" if isinstance(d, str) else "l" for _, d in ms}))
        alltext = "".join(tg + (d or "") for tg, d in _expected(ms)) + "".join(c.get("normals", []))
        esc = ("d" if "\x01" in alltext else "") + ("q" if "\\" in alltext else "")
        extra = ""
        if op == "e2e":
            extra = ":" + c["kind"] + (":raise" if out.startswith("!") else ":%d" % min(out.split("|")[0].count(";") + (out[0] != "~"), 3))
            extra += ":" + out.split("|")[-1][:1]
        elif op == "recv":
            extra = ":" + c["kind"]
        if op in ("e2e", "recv"):
            cu = c.get("cuts")
            extra += ":" + ("w" if not cu else "b" if cu == "all" else "t" if cu == [-1] else "c")
        return f"{op}:{min(len(ms), 3)}:{kinds}:{_lead(ms)}:{esc}:{_classes(alltext)}:{'v' if _valid_tags(ms) else 'i'}{extra}"
    if op == "recv":
        return f"recv:{c['kind']}:{_classes(c['t'])}:{min(c['t'].count(chr(1)), 4)}:{out[:1]}"
    if op == "extract":
        return f"extract:{_classes(c['t'])}:{min(c['t'].count(chr(1)), 4)}:{min(out.count(';'), 3)}"
    return f"{op}:{_classes(c['t'])}:{min(len(c['t']), 6)}"
