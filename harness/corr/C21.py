"""C21 — pipelined requests are handled one at a time and notifyFinish fires exactly once: real HTTPChannel driven with
deliveries, postponed finishes, transport pause/resume and connection loss at every event boundary, vs the Lean model
(tie, including the order of events) + an oracle on the real event log."""
import re

from corr import _httpchan as H

HEADLINE = ("TwistedProps.C21.at_most_one_request_in_flight / responses_in_request_order_not_interleaved / "
            "written_is_concatenation_of_responses / notifyFinish_fires_exactly_once / notifyFinish_result_matches_order")
RULE = ("1-5 pipelined requests (bodies by Content-Length/chunked, Connection: close, HTTP/1.0, a malformed one) cut into random "
        "deliveries, interleaved with: the application finishing the request it holds (resources answer at once, in pieces, later, "
        "never; 0-2 notifyFinish Deferreds each), transport pauseProducing/resumeProducing, and connectionLost inserted at every "
        "position of the event list (one case per position for short histories); distinct = (shape of the event log, lost?, closed?)")
ASSUMES = [
    "a well-behaved application (the model's `step`): it finishes only the request it currently holds, at most once, and not after "
    "its connection was lost (Request.finish raises then); what it writes / whether it finishes at once, later or never / how many "
    "notifyFinish Deferreds it takes is arbitrary (the theorems quantify over every App)",
    "a real transport (the model's `step`): nothing is delivered and no producer call is made after loseConnection()/an exception out "
    "of dataReceived; nothing at all after connectionLost",
    "the notifyFinish Deferreds of one request are modelled as a count and their firing loop as one event `notify k n ok` "
    "(all n with the same result); 'exactly once' is proved as: exactly one such batch, of all the Deferreds taken; the tie compares "
    "the real per-Deferred firings (merged per request and outcome) with these events, order included",
    "a notifyFinish Deferred of a request that is neither finished nor lost has not fired (it fires when one of the two happens): "
    "proved as pending_while_in_flight; no liveness claim",
]
TRUSTED = ["twisted.internet.testing.StringTransport(lenient=True); task.Clock; server.version / datetimeToString patched to constants"]
MANIFEST = {
    "text": "Lean theorems (TwistedProps/C21.lean + C21/*.lean) on the channel model, for every application and every history of "
            "events from a fresh connection (deliveries in any segmentation; finish now/later/never; pause/resume; loss at any event "
            "boundary): (a) at_most_one_request_in_flight — requests handed over are never more than one ahead of requestDone, "
            "requestReceived only when all earlier ones are done, requestDone(k) is for the request in flight; (b) "
            "responses_in_request_order_not_interleaved + written_is_concatenation_of_responses — the application's bytes for request k "
            "are written only while k is in flight, the channel's own 100/400 lines only while none is, so the wire is own0 resp0 own1 "
            "resp1 …; (c) notifyFinish_fires_exactly_once — for every request handed over its Deferreds fire in exactly one batch of all "
            "of them, with None iff requestDone(k) ran (before any loss: nothing_after_loss), else with a failure iff the connection was "
            "lost, else they are all still pending (pending_while_in_flight); no_firing_without_request; "
            "notifyFinish_result_matches_order — a firing with None comes after requestDone(k), one with a failure while k is in flight. Proved by a global invariant "
            "(reach_good) kept by allContentReceived/lineReceived/rawDataReceived/the receive loop/every event; nothing partial. Model "
            "tied to http.py by differential runs over random histories with loss at every event boundary, event order included; the "
            "oracle re-checks (a)-(c) on the real event log.",
    "note": "trusts Lean kernel, the hand-written channel model (differentially tied, event order included)",
    "technique": "Lean 4 proof (global invariant over channel state and outputs) + differential tie on event order + event-log oracle",
    "design_ref": "DESIGN.md §7 C21",
}

_W = lambda s: s.encode().hex()


def _case(script, ops, feats=()):
    return {"script": script, "ops": ops, "feats": sorted(feats)}


def _script(rng):
    out = []
    for _ in range(rng.choice([1, 2, 3, 4])):
        mode = rng.choice([0, 0, 1, 2, 2, 2, 3])
        pieces = [rng.choice(["-", _W("a"), _W("hello"), _W("x" * 30)]) for _ in range(rng.choice([0, 1, 1, 2]))]
        out.append([mode, rng.choice([0, 1, 1, 2]), pieces])
    return out


REQS = [
    b"GET /a HTTP/1.1\r\nHost: h\r\n\r\n",
    b"POST /b HTTP/1.1\r\nContent-Length: 5\r\n\r\nhello",
    b"PUT /c HTTP/1.1\r\nTransfer-Encoding: chunked\r\n\r\n3\r\nabc\r\n0\r\n\r\n",
    b"HEAD /d HTTP/1.1\r\n\r\n",
    b"GET /e HTTP/1.1\r\nExpect: 100-continue\r\n\r\n",
    b"GET /close HTTP/1.1\r\nConnection: close\r\n\r\n",
    b"GET /old HTTP/1.0\r\n\r\n",
    b"OPTIONS * HTTP/1.1\r\n\r\n",
    b"BAD LINE\r\n\r\n",
    b"POST /big HTTP/1.1\r\nContent-Length: 20000\r\n\r\n" + b"z" * 20000,
]


def _history(rng):
    stream = b"".join(rng.choice(REQS[:5] * 3 + REQS) for _ in range(rng.choice([1, 2, 2, 3, 4, 5])))
    n = len(stream)
    cuts = sorted(set(rng.randrange(1, n) for _ in range(rng.choice([0, 1, 2, 4])))) if n > 1 else []
    ops = ["d" + H.hx(c) for c in H.chunks_of(stream, cuts)]
    extra = ["f"] * rng.choice([0, 1, 2, 4, 6]) + ["p", "r"] * rng.choice([0, 0, 1, 2])
    for e in extra:
        ops.insert(rng.randrange(len(ops) + 1), e)
    return ops


def corpus():
    s = [[2, 1, [_W("later")]], [0, 1, [_W("now")]]]
    d = "d" + H.hx(REQS[0] + REQS[1] + REQS[0])
    cs = [_case(s, [d, "f", "f", "l"]), _case(s, [d, "l", "f"]), _case(s, [d, "f", "l", "f"]),
          _case([[3, 2, []]], [d, "f", "p", "r", "l", "l"]),
          _case([[2, 2, [_W("x")]]], ["d" + H.hx(REQS[9][:100]), "p", "d" + H.hx(REQS[9][100:] + REQS[0]), "f", "r", "f", "l"]),
          _case([[2, 1, [_W("x")]]], ["d" + H.hx(REQS[0] + REQS[9] + REQS[0]), "p", "f", "r", "f", "f", "l"])]
    return cs


def generate(rng, tier):
    n = 250 if tier == "quick" else 5000
    for i in range(n):
        script = _script(rng)
        ops = _history(rng)
        yield _case(script, ops + ["f"] * rng.choice([0, 3]), ["noloss"])
        # connection loss at every event boundary (short histories), else at a few
        pos = range(len(ops) + 1) if len(ops) <= 6 else sorted(set(rng.randrange(len(ops) + 1) for _ in range(3)))
        for p in pos:
            yield _case(script, ops[:p] + ["l"] + ops[p:], ["loss"])


def model_line(c):
    return "run " + H.enc_script(c["script"]) + " " + H.enc_ops(c["ops"])


def _events(st):
    out = []
    for e in st["events"]:
        if e[0] in ("R", "D"):
            out.append(f"{e[0]}{e[1]}@{e[2]}")
        else:
            # consecutive firings of the same request with the same outcome are one batch
            m = re.fullmatch(r"N(\d+):(\d+):([012])", out[-1]) if out else None
            if m and int(m.group(1)) == e[1] and int(m.group(3)) == e[2]:
                out[-1] = f"N{e[1]}:{int(m.group(2)) + 1}:{e[2]}"
            else:
                out.append(f"N{e[1]}:1:{e[2]}")
    return ",".join(out) if out else "none"


def _run(c):
    conn = H.Conn(c["script"])
    try:
        for o in c["ops"]:
            conn.op(o)
        st = conn.state()
        st["lost"] = conn.lost
        return st
    finally:
        conn.close()


def run_impl(c):
    st = _run(c)
    return H.enc_state(st) + f" lost={int(st['lost'])} log={_events(st)}"


def oracle(c, out):
    st = _run(c)
    ev = st["events"]
    w = st["written"]
    script = c["script"]
    # (1) one request at a time, in order: R0 D0 R1 D1 …
    inflight = None
    nextk = 0
    spans = {}
    for e in ev:
        if e[0] == "R":
            if inflight is not None:
                return {"key": "two-in-flight", "detail": f"request {e[1]} handed over while {inflight} is not finished: {ev[:12]}"}
            if e[1] != nextk:
                return {"key": "order", "detail": f"request index {e[1]} after {nextk - 1}"}
            inflight, nextk = e[1], nextk + 1
            spans[e[1]] = [e[2], None]
        elif e[0] == "D":
            if inflight != e[1]:
                return {"key": "order", "detail": f"requestDone({e[1]}) while in flight: {inflight}"}
            spans[e[1]][1] = e[2]
            inflight = None
    # (2) responses contiguous, in request order: between D_k and R_k+1 only the channel's own 100/400 lines
    prev_end = 0
    for k in sorted(spans):
        a, b = spans[k]
        gap = w[prev_end:a]
        rest = gap.replace(b"HTTP/1.1 100 Continue\r\n\r\n", b"").replace(b"HTTP/1.1 400 Bad Request\r\n\r\n", b"")
        if rest:
            return {"key": "interleaved", "detail": f"bytes between the responses {k - 1} and {k}: {rest[:60]!r}"}
        if b is None:
            prev_end = len(w)
            if k != max(spans):
                return {"key": "order", "detail": f"request {k} never finished but a later one was handed over"}
        else:
            if b < a:
                return {"key": "order", "detail": "response end before its start"}
            seg = w[a:b]
            if seg and not seg.startswith(b"HTTP/1."):
                return {"key": "interleaved", "detail": f"response {k} does not start with a status line: {seg[:40]!r}"}
            if seg.count(b"\r\n\r\n") >= 1 and re.search(rb"\r\n\r\nHTTP/1\.[01] \d\d\d ", seg) and b"x" * 10 not in seg:
                return {"key": "interleaved", "detail": f"two status lines inside response {k}: {seg[:80]!r}"}
            prev_end = b
    # (3) notifyFinish: exactly once each, None iff finished before loss
    lost = "l" in c["ops"] and st["lost"]
    for k in sorted(spans):
        if st["reqs"][k][1].split(b"?")[0] == b"*":
            continue
        nf = script[k % len(script)][1]
        fired = [e for e in ev if e[0] == "N" and e[1] == k]
        finished = spans[k][1] is not None
        if finished:
            if len(fired) != nf or any(e[2] != 1 for e in fired):
                return {"key": "notify", "detail": f"request {k} finished: {nf} Deferreds, firings {fired}"}
        elif lost:
            if len(fired) != nf or any(e[2] != 0 for e in fired):
                return {"key": "notify", "detail": f"request {k} lost before finishing: {nf} Deferreds, firings {fired}"}
        elif fired:
            return {"key": "notify", "detail": f"request {k} neither finished nor lost, yet fired {fired}"}
    stray = [e for e in ev if e[0] == "N" and e[1] not in spans]
    if stray:
        return {"key": "notify", "detail": f"firing for unknown request {stray[:3]}"}
    return None


def tag(c, out):
    m = re.search(r"log=(\S+)", out)
    shape = re.sub(r"@\d+", "", m.group(1)) if m else out[:30]
    shape = re.sub(r"\d+", "#", shape)
    return shape[:60] + ("|lost" if " lost=1" in out else "") + ("|closed" if out.startswith("closed=1") else "")


def shrink(c):
    ops = c["ops"]
    for i in range(len(ops)):
        yield dict(c, ops=ops[:i] + ops[i + 1:])
    if len(c["script"]) > 1:
        for i in range(len(c["script"])):
            yield dict(c, script=c["script"][:i] + c["script"][i + 1:])
