"""C21 — pipelined requests are handled one at a time and notifyFinish fires exactly once: real HTTPChannel driven with
deliveries, postponed finishes, transport pause/resume and connection loss at every event boundary, vs the Lean model
(tie, including the order of events) + an oracle on the real event log."""
import re

from twisted.internet import defer
from twisted.logger import Logger

from corr import _httpchan as H

HEADLINE = ("TwistedProps.C21.at_most_one_request_in_flight / responses_in_request_order_not_interleaved / "
            "written_is_concatenation_of_responses / notifyFinish_fires_exactly_once / notifyFinish_result_matches_order")
RULE = ("1-5 pipelined requests (bodies by Content-Length/chunked - 15 % of the histories with a chunked body that carries a trailer section, cut inside it -, Connection: close, HTTP/1.0, a malformed one; a third of them "
        "carrying the header fields the server itself reads - User-Agent, Referer, Cookie, Host, Content-Type, ... - with quotes, "
        "backslashes, Latin-1, UTF-8, control octets, empty values) cut into random deliveries, interleaved with: the application "
        "finishing the request it holds (resources answer at once, in pieces, later, never, or RAISE - an Exception or a BaseException "
        "that is not one - after taking their 0-2 notifyFinish Deferreds), the application dropping the client itself "
        "(request.loseConnection() on the request it holds), transport pauseProducing/resumeProducing, and connectionLost inserted at "
        "every position of the event list (one case per position for short histories); floods: 70-140 KB of pipelined requests "
        "delivered behind a response that is finished late or never; a tenth of the histories under defer.setDebugging(True); every "
        "history runs while a second connection of the same process (response pending, pipelined data buffered) is open, which is "
        "completed afterwards and judged by the same oracle; distinct = (shape of the event log, lost?, closed?, class)")
ASSUMES = [
    "a well-behaved application (the model's `step`): it finishes only the request it currently holds, at most once, and not after "
    "its connection was lost (Request.finish raises then); it takes its notifyFinish Deferreds inside render; what it writes / "
    "whether it finishes at once, later or never / whether render raises (then server.Request.processingFailed answers 500 and "
    "finishes: the App's onRequest) / how many notifyFinish Deferreds it takes / whether and when it calls loseConnection() on the "
    "request it holds (event `x` = Op.close) is arbitrary (the theorems quantify over every App and every history)",
    "a real transport (the model's `step`): nothing is delivered and no producer call is made after loseConnection()/an exception out "
    "of dataReceived; nothing at all after connectionLost",
    "the notifyFinish Deferreds of one request are modelled as a count and their firing loop as one event `notify k n ok` "
    "(all n with the same result); 'exactly once' is proved as: exactly one such batch, of all the Deferreds taken; the tie compares "
    "the real per-Deferred firings (merged per request and outcome) with these events, order included",
    "a notifyFinish Deferred of a request that is neither finished nor lost has not fired (it fires when one of the two happens): "
    "proved as pending_while_in_flight; no liveness claim",
]
TRUSTED = ["twisted.internet.testing.StringTransport(lenient=True), its unregisterProducer made idempotent as on a real transport "
           "(HTTPChannel.loseConnection may be called twice: by the application, then by the channel); task.Clock; "
           "server.version / datetimeToString patched to constants"]
MANIFEST = {
    "text": "Lean theorems (TwistedProps/C21.lean + C21/*.lean) on the channel model, for every application and every history of "
            "events from a fresh connection (deliveries in any segmentation; finish now/later/never; the application closing the connection under the request it "
            "holds; pause/resume; loss at any event boundary): (a) at_most_one_request_in_flight — requests handed over are never more than one ahead of requestDone, "
            "requestReceived only when all earlier ones are done, requestDone(k) is for the request in flight; (b) "
            "responses_in_request_order_not_interleaved + written_is_concatenation_of_responses — the application's bytes for request k "
            "are written only while k is in flight, the channel's own 100/400 lines only while none is, so the wire is own0 resp0 own1 "
            "resp1 …; (c) notifyFinish_fires_exactly_once — for every request handed over its Deferreds fire in exactly one batch of all "
            "of them, with None iff requestDone(k) ran (before any loss: nothing_after_loss), else with a failure iff the connection was "
            "lost, else they are all still pending (pending_while_in_flight); no_firing_without_request; "
            "notifyFinish_result_matches_order — a firing with None comes after requestDone(k), one with a failure while k is in flight. Proved by a global invariant "
            "(reach_good) kept by allContentReceived/lineReceived/rawDataReceived/the receive loop/every event; nothing partial. Model "
            "tied to http.py by differential runs over random histories with loss at every event boundary, event order included "
            "(resources that raise, application-initiated close and floods of buffered pipelined data are model-compared too); the "
            "oracle re-checks (a)-(c) on the real event log of the connection and of a second connection open at the same time.",
    "note": "trusts Lean kernel, the hand-written channel model (differentially tied, event order included)",
    "technique": "Lean 4 proof (global invariant over channel state and outputs) + differential tie on event order + event-log oracle",
    "design_ref": "DESIGN.md §7 C21",
}

_W = lambda s: s.encode().hex()


def _case(script, ops, feats=()):
    return {"script": script, "ops": ops, "feats": sorted(feats)}


def _script(rng):
    out = []
    for _ in range(rng.choice([1, 2, 3, 4])):
        mode = rng.choice([0, 0, 1, 2, 2, 2, 3, 4, 5])
        pieces = [rng.choice(["-", _W("a"), _W("hello"), _W("x" * 30)]) for _ in range(rng.choice([0, 1, 1, 2]))]
        out.append([mode, rng.choice([0, 1, 1, 2]), pieces])
    return out


REQS = [
    b"GET /a HTTP/1.1\r\nHost: h\r\n\r\n",
    b"POST /b HTTP/1.1\r\nContent-Length: 5\r\n\r\nhello",
    b"PUT /c HTTP/1.1\r\nTransfer-Encoding: chunked\r\n\r\n3\r\nabc\r\n0\r\n\r\n",
    b"HEAD /d HTTP/1.1\r\n\r\n",
    b"GET /e HTTP/1.1\r\nExpect: 100-continue\r\n\r\n",
    b"GET /close HTTP/1.1\r\nConnection: close\r\n\r\n",
    b"GET /old HTTP/1.0\r\n\r\n",
    b"OPTIONS * HTTP/1.1\r\n\r\n",
    b"BAD LINE\r\n\r\n",
    b"POST /big HTTP/1.1\r\nContent-Length: 20000\r\n\r\n" + b"z" * 20000,
    # chunked bodies with a trailer section (one field, two fields): the bytes after the trailer's final CRLF belong to the
    # next pipelined request (seeded change C21-4: a stale search offset in _dataReceived_TRAILER swallowed them)
    b"PUT /t1 HTTP/1.1\r\nTransfer-Encoding: chunked\r\n\r\n3\r\nabc\r\n0\r\nX-Trailer: value\r\n\r\n",
    b"PUT /t2 HTTP/1.1\r\nTransfer-Encoding: chunked\r\n\r\n2\r\nhi\r\n0\r\nA: 1\r\nLonger-Trailer: some value\r\n\r\n",
]
TRAILERS = REQS[10:12]


# header fields the server itself reads on the way of a request (access log: Referer / User-Agent; cookies; form
# arguments; Host; the client address) with the values a peer may legally or illegally put there: any octet except
# NUL, CR, LF - quotes, backslashes, Latin-1, UTF-8, empty
HDR_NAMES = [b"User-Agent", b"user-agent", b"Referer", b"Cookie", b"Host", b"X-Forwarded-For", b"Authorization",
             b"Accept-Encoding", b"If-Modified-Since", b"Content-Type", b"Range"]
HDR_VALUES = [b"Mozilla/5.0 (X11; Linux x86_64)", b"caf\xe9", b"caf\xc3\xa9/1.0", b"\xff\xfe\x80", b"a \"quoted\" \\ value",
              b"", b"x=1; y=\"2\"; \xe9", b"Basic !!!not-base64", b"text/plain; charset=\xe9", b"bytes=0-", b"'", b"%s %d %(ip)s",
              b"\x7f\x01\x1f", b"http://h/\xe2\x82\xac?q=\"", b"gzip, deflate", b"1.2.3.4, \xe9"]


def _decorate(rng, req):
    """insert 1-3 such header fields after the request line of a well-formed request"""
    i = req.index(b"\r\n") + 2
    extra = b"".join(rng.choice(HDR_NAMES) + b": " + rng.choice(HDR_VALUES) + b"\r\n" for _ in range(rng.choice([1, 1, 2, 3])))
    return req[:i] + extra + req[i:]


def _request(rng):
    r = rng.choice(REQS[:5] * 3 + REQS)
    if r != REQS[8] and rng.random() < 0.3:
        r = _decorate(rng, r)
    return r


def _history(rng):
    reqs = [_request(rng) for _ in range(rng.choice([1, 2, 2, 3, 4, 5]))]
    if rng.random() < 0.15:
        reqs.insert(rng.randrange(len(reqs)), rng.choice(TRAILERS))     # a trailer section with a request behind it
    stream = b"".join(reqs)
    n = len(stream)
    cuts = sorted(set(rng.randrange(1, n) for _ in range(rng.choice([0, 1, 2, 4])))) if n > 1 else []
    for r in reqs:
        if r in TRAILERS and rng.random() < 0.7:
            # cut inside the trailer section (inside a field line, or between the fields and the final CRLF)
            at = stream.index(r) + r.index(b"0\r\n") + 3
            cuts = sorted(set(cuts) | {rng.randrange(at + 1, stream.index(r) + len(r))})
    ops = ["d" + H.hx(c) for c in H.chunks_of(stream, cuts)]
    extra = ["f"] * rng.choice([0, 1, 2, 4, 6]) + ["p", "r"] * rng.choice([0, 0, 1, 2]) + ["x"] * rng.choice([0, 0, 0, 1, 1, 2])
    for e in extra:
        ops.insert(rng.randrange(len(ops) + 1), e)
    return ops


def _big(rng, n):
    if rng.random() < 0.7:
        return b"POST /big HTTP/1.1\r\nContent-Length: %d\r\n\r\n" % n + b"z" * n
    return b"PUT /bigc HTTP/1.1\r\nTransfer-Encoding: chunked\r\n\r\n%x\r\n" % n + b"c" * n + b"\r\n0\r\n\r\n"


def _flood(rng):
    """a response that is finished late (or never) with 70-200 KB of pipelined requests delivered behind it - several
    times `_optimisticEagerReadSize`, with or without the transport pausing - then the finishes"""
    script = [[rng.choice([2, 2, 3]), rng.choice([0, 1, 2]), [_W("slow")]]] + \
             [[rng.choice([0, 1, 2]), rng.choice([0, 1, 2]), [_W("b")]] for _ in range(rng.choice([1, 2]))]
    ops = ["d" + H.hx(rng.choice([REQS[0], REQS[4], REQS[1]]))]
    total = 0
    target = rng.choice([70000, 70000, 100000, 140000])
    while total < target:
        b = _big(rng, rng.choice([16384, 20000, 33000, 65536, 70000])) + (REQS[0] if rng.random() < 0.3 else b"")
        total += len(b)
        k = rng.choice([0, len(b) // 2, 30])
        ops += ["d" + H.hx(b[:k]), "d" + H.hx(b[k:])] if 0 < k < len(b) else ["d" + H.hx(b)]
    for e in ["p", "r"] * rng.choice([0, 0, 1]) + ["x"] * rng.choice([0, 0, 0, 1]):
        ops.insert(rng.randrange(1, len(ops) + 1), e)
    return script, ops + ["f"] * rng.choice([1, 3, 8])


UA = b"GET /ua HTTP/1.1\r\nUser-Agent: caf\xe9 \"x\"\r\nReferer: http://h/\xc3\xa9\r\n\r\n"


def _witnesses():
    """one minimal history per class added by the mutation audit (harness/mutants/C21/README.md)"""
    g = "d" + H.hx(REQS[0])
    gg = "d" + H.hx(REQS[0] + REQS[1])
    big = "d" + H.hx(REQS[9])
    late2 = [[2, 2, [_W("later")]], [0, 1, [_W("now")]]]
    cs = [
        # the application drops the client while it holds the request, then the connection goes
        _case(late2, [g, "x", "l"], ["appclose"]), _case(late2, [gg, "x", "f", "l"], ["appclose"]),
        _case(late2, [gg, "x", "x", "l", "f"], ["appclose"]), _case([[3, 1, []]], [gg, "p", "x", "r", "l"], ["appclose"]),
        # a resource that raises (Exception / BaseException) - at once, and behind a response that finishes later
        _case([[4, 2, []]], [gg, "l"], ["raises"]), _case([[5, 2, []]], [gg, "l"], ["raises"]),
        _case([[2, 1, [_W("x")]], [5, 1, []], [0, 1, []]], ["d" + H.hx(REQS[0] * 3), "f", "l"], ["raises"]),
        _case([[2, 2, [_W("x")]], [4, 1, []]], ["d" + H.hx(REQS[0] + REQS[3] + REQS[6]), "f", "f", "l"], ["raises"]),
        # far more than _optimisticEagerReadSize buffered behind a response that is finished later
        _case(late2, [g, big, big, big, big, "f", "f", "f", "f", "f", "l"], ["flood"]),
        _case(late2, [g, "p", big, big, "r", big, big, big, "f", "l"], ["flood"]),
        # header fields the access log reads, with octets outside ASCII
        _case(late2, ["d" + H.hx(UA + REQS[0]), "f", "l"], ["hdrs"]), _case([[0, 1, [_W("now")]]], ["d" + H.hx(UA + UA)], ["hdrs"]),
        _case(late2, ["d" + H.hx(REQS[0] + UA), "f", "l"], ["debug", "hdrs"]),
    ]
    return cs


def corpus():
    s = [[2, 1, [_W("later")]], [0, 1, [_W("now")]]]
    d = "d" + H.hx(REQS[0] + REQS[1] + REQS[0])
    cs = [_case(s, [d, "f", "f", "l"]), _case(s, [d, "l", "f"]), _case(s, [d, "f", "l", "f"]),
          _case([[3, 2, []]], [d, "f", "p", "r", "l", "l"]),
          _case([[2, 2, [_W("x")]]], ["d" + H.hx(REQS[9][:100]), "p", "d" + H.hx(REQS[9][100:] + REQS[0]), "f", "r", "f", "l"]),
          _case([[2, 1, [_W("x")]]], ["d" + H.hx(REQS[0] + REQS[9] + REQS[0]), "p", "f", "r", "f", "f", "l"])]
    return cs + _witnesses()


def generate(rng, tier):
    n = 250 if tier == "quick" else 5000
    for i in range(n):
        script = _script(rng)
        ops = _history(rng)
        dbg = ["debug"] if rng.random() < 0.1 else []
        yield _case(script, ops + ["f"] * rng.choice([0, 3]), ["noloss"] + dbg)
        # connection loss at every event boundary (short histories), else at a few
        pos = range(len(ops) + 1) if len(ops) <= 6 else sorted(set(rng.randrange(len(ops) + 1) for _ in range(3)))
        for p in pos:
            yield _case(script, ops[:p] + ["l"] + ops[p:], ["loss"] + dbg)
    for i in range(8 if tier == "quick" else 60):
        script, ops = _flood(rng)
        yield _case(script, ops, ["flood", "noloss"])
        p = rng.randrange(1, len(ops) + 1)
        yield _case(script, ops[:p] + ["l"] + ops[p:], ["flood", "loss"])


def model_line(c):
    return "run " + H.enc_script(c["script"]) + " " + H.enc_ops(c["ops"])


def _events(st):
    out = []
    for e in st["events"]:
        if e[0] in ("R", "D"):
            out.append(f"{e[0]}{e[1]}@{e[2]}")
        else:
            # consecutive firings of the same request with the same outcome are one batch
            m = re.fullmatch(r"N(\d+):(\d+):([012])", out[-1]) if out else None
            if m and int(m.group(1)) == e[1] and int(m.group(3)) == e[2]:
                out[-1] = f"N{e[1]}:{int(m.group(2)) + 1}:{e[2]}"
            else:
                out.append(f"N{e[1]}:1:{e[2]}")
    return ",".join(out) if out else "none"


_QUIET = Logger(observer=lambda event: None)


class _Boom(BaseException):
    """what a resource may raise that is not an `Exception` (KeyboardInterrupt, GeneratorExit, asyncio's CancelledError, ...)"""


class Conn(H.Conn):
    """the shared connection driver + what C21 adds to the application: script modes 4/5 (`render` takes its notifyFinish
    Deferreds, then raises an Exception / a BaseException that is not one) and the event `x` (the application calls
    `loseConnection()` on the request it holds)"""

    def __init__(self, script):
        H.Conn.__init__(self, script)
        res, log, plain = self.res, self.log, self.res.render
        t = self.transport

        def unregisterProducer():
            # as on a real transport (abstract.FileDescriptor.unregisterProducer): no complaint when loseConnection() is
            # called a second time (the application drops the client, then the channel closes after the response)
            t.producer = None
            t.streaming = None
        t.unregisterProducer = unregisterProducer

        def render(request):
            k = request._verif_k
            mode, nf, _ = res.script[k % len(res.script)]
            if mode not in (4, 5):
                return plain(request)
            for _ in range(nf):
                request.notifyFinish().addCallbacks(lambda r, k=k: log.events.append(("N", k, 1 if r is None else 2)),
                                                    lambda f, k=k: log.events.append(("N", k, 0)))
            request._log = _QUIET      # processingFailed logs the failure as critical: not to our stderr
            raise RuntimeError("render failed") if mode == 4 else _Boom()
        res.render = render

    def op(self, o):
        if o == "x":
            if not (self.lost or self.raised is not None or self.res.pending is None):
                self.res.pending[0].loseConnection()
            return
        try:
            H.Conn.op(self, o)
        except _Boom:
            # it went through `Request.process`: out of dataReceived (the reactor logs it and drops the connection) or
            # out of the application's own call of finish()
            self.raised = "_Boom"


GET = lambda p: b"GET " + p + b" HTTP/1.1\r\n\r\n"
DECOY_SCRIPT = [[2, 1, [_W("one")]], [2, 2, [_W("two")]]]
DECOY_OPS = ["d" + H.hx(GET(b"/decoy1") + GET(b"/decoy2") + b"GET /dec")]


def _run(c):
    """the history of the case on one connection - while ANOTHER connection of the same process (the decoy: a response
    pending, a pipelined request and a half buffered behind it) is open; afterwards the decoy is completed"""
    debug = "debug" in c.get("feats", ())
    was = defer.getDebugging()
    if debug:
        defer.setDebugging(True)
    decoy = H.Conn(DECOY_SCRIPT)
    conn = None
    try:
        for o in DECOY_OPS:
            decoy.op(o)
        conn = Conn(c["script"])
        for o in c["ops"]:
            conn.op(o)
        st = conn.state()
        st["lost"] = conn.lost
        for o in ["f", "d" + H.hx(b"oy3 HTTP/1.1\r\n\r\n"), "f", "l"]:
            decoy.op(o)
        st["decoy"] = decoy.state()
        st["decoy"]["lost"] = True
        return st
    finally:
        if conn is not None:
            conn.close()
        decoy.close()
        if debug:
            defer.setDebugging(was)


DECOY_ALL = DECOY_OPS + ["f", "d" + H.hx(b"oy3 HTTP/1.1\r\n\r\n"), "f", "l"]


def run_impl(c):
    st = _run(c)
    return H.enc_state(st) + f" lost={int(st['lost'])} log={_events(st)}"


def oracle(c, out):
    st = _run(c)
    bad = _judge(c["script"], c["ops"], st)
    if bad:
        return bad
    # the other connection of the process saw exactly its own three requests, in order, one at a time
    d = st["decoy"]
    if [r[1] for r in d["reqs"]] != [b"/decoy1", b"/decoy2", b"/decoy3"] or d["raised"]:
        return {"key": "other-connection", "detail": f"a connection open at the same time was handed {[r[1] for r in d['reqs']]} "
                                                     f"(raised: {d['raised']}) instead of its own /decoy1 /decoy2 /decoy3"}
    bad = _judge(DECOY_SCRIPT, DECOY_ALL, d)
    if bad:
        return {"key": "other-connection", "detail": "on a connection open at the same time: " + bad["detail"]}
    return None


def _judge(script, ops, st):
    """the property on the event log / wire bytes of one connection"""
    c = {"ops": ops}
    ev = st["events"]
    w = st["written"]
    # (1) one request at a time, in order: R0 D0 R1 D1 …
    inflight = None
    nextk = 0
    spans = {}
    for e in ev:
        if e[0] == "R":
            if inflight is not None:
                return {"key": "two-in-flight", "detail": f"request {e[1]} handed over while {inflight} is not finished: {ev[:12]}"}
            if e[1] != nextk:
                return {"key": "order", "detail": f"request index {e[1]} after {nextk - 1}"}
            inflight, nextk = e[1], nextk + 1
            spans[e[1]] = [e[2], None]
        elif e[0] == "D":
            if inflight != e[1]:
                return {"key": "order", "detail": f"requestDone({e[1]}) while in flight: {inflight}"}
            spans[e[1]][1] = e[2]
            inflight = None
    # (2) responses contiguous, in request order: between D_k and R_k+1 only the channel's own 100/400 lines
    prev_end = 0
    for k in sorted(spans):
        a, b = spans[k]
        gap = w[prev_end:a]
        rest = gap.replace(b"HTTP/1.1 100 Continue\r\n\r\n", b"").replace(b"HTTP/1.1 400 Bad Request\r\n\r\n", b"")
        if rest:
            return {"key": "interleaved", "detail": f"bytes between the responses {k - 1} and {k}: {rest[:60]!r}"}
        if b is None:
            prev_end = len(w)
            if k != max(spans):
                return {"key": "order", "detail": f"request {k} never finished but a later one was handed over"}
        else:
            if b < a:
                return {"key": "order", "detail": "response end before its start"}
            seg = w[a:b]
            if seg and not seg.startswith(b"HTTP/1."):
                return {"key": "interleaved", "detail": f"response {k} does not start with a status line: {seg[:40]!r}"}
            if seg.count(b"\r\n\r\n") >= 1 and re.search(rb"\r\n\r\nHTTP/1\.[01] \d\d\d ", seg) and b"x" * 10 not in seg:
                return {"key": "interleaved", "detail": f"two status lines inside response {k}: {seg[:80]!r}"}
            prev_end = b
    # (3) notifyFinish: exactly once each, None iff finished before loss
    lost = "l" in c["ops"] and st["lost"]
    for k in sorted(spans):
        if st["reqs"][k][1].split(b"?")[0] == b"*":
            continue
        nf = script[k % len(script)][1]
        fired = [e for e in ev if e[0] == "N" and e[1] == k]
        finished = spans[k][1] is not None
        if finished:
            if len(fired) != nf or any(e[2] != 1 for e in fired):
                return {"key": "notify", "detail": f"request {k} finished: {nf} Deferreds, firings {fired}"}
        elif lost:
            if len(fired) != nf or any(e[2] != 0 for e in fired):
                return {"key": "notify", "detail": f"request {k} lost before finishing: {nf} Deferreds, firings {fired}"}
        elif fired:
            return {"key": "notify", "detail": f"request {k} neither finished nor lost, yet fired {fired}"}
    stray = [e for e in ev if e[0] == "N" and e[1] not in spans]
    if stray:
        return {"key": "notify", "detail": f"firing for unknown request {stray[:3]}"}
    return None


def tag(c, out):
    m = re.search(r"log=(\S+)", out)
    shape = re.sub(r"@\d+", "", m.group(1)) if m else out[:30]
    shape = re.sub(r"\d+", "#", shape)
    cls = ("|x" if "x" in c["ops"] else "") + ("|raise" if any(e[0] in (4, 5) for e in c["script"]) else "") + \
          "".join("|" + f for f in c.get("feats", ()) if f in ("flood", "debug"))
    return shape[:60] + ("|lost" if " lost=1" in out else "") + ("|closed" if out.startswith("closed=1") else "") + cls


def search(rng, tier, disagreeing):
    """around the histories on which model and code disagree: the connection lost at EVERY position, and every prefix
    (instead of the engine's default, the whole thorough generator)"""
    for c in disagreeing[:40]:
        ops = [o for o in c["ops"] if o != "l"][:40]
        feats = [f for f in c.get("feats", ()) if f in ("debug", "flood")]
        for p in range(len(ops) + 1):
            yield _case(c["script"], ops[:p] + ["l"] + ops[p:], ["loss"] + feats)
        for p in range(1, len(ops) + 1):
            yield _case(c["script"], ops[:p] + ["f", "f"], ["noloss"] + feats)


def shrink(c):
    ops = c["ops"]
    for i in range(len(ops)):
        yield dict(c, ops=ops[:i] + ops[i + 1:])
    if len(c["script"]) > 1:
        for i in range(len(c["script"])):
            yield dict(c, script=c["script"][:i] + c["script"][i + 1:])
