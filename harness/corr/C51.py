"""C51 — DirDBM crash safety: the real DirDBM over the crash-able in-memory filesystem (harness/lib/fsim.py),
killed at every primitive (and every partial write length) of random operation sequences, with nested
crashes inside the recovery of DirDBM.__init__, vs the Lean model; + the property oracle.

Case language (a JSON dict):
  {"pre": [[ext, keyhex, valuehex], …], "procs": [{"ops": [op, …], "cut": [k, p] | None}, …],
   "dir": name of the database directory (default "db"), "cls": "Shelf" (default DirDBM)}
  op = ["set", k, v] | ["del", k] | ["sdf", k, v] (setdefault) | ["upd", [[k, v], …]] (update) | ["clr"] (clear)
     | ["setf", k, v, p, Exc]   a set whose _writeFile raises Exc after p bytes reached the file — NOT a crash:
                                the process lives on and performs its following operations
  {"enc": keyhex}               the key → file name encoding alone
"""
import base64
import errno
import os
import fnmatch
import glob as _glob
import pickle
import posixpath

from twisted.persisted import dirdbm
from twisted.python import filepath

from lib import fsim

HEADLINE = "TwistedProps.C51.crash_consistent"
RULE = ("a case = database directory name + initial directory + a list of processes; every process opens the DirDBM "
        "(recovery), performs its operations and is killed at one cut (k primitives, p bytes of a partial write) — for a "
        "generated operation sequence EVERY cut is a case, and for every crash state every cut of the following "
        "recovery (nested crashes) too.  Operations: set / replace / delete through __setitem__/__delitem__, and the "
        "same through setdefault, update, clear and the Shelf subclass (pickled values); sets whose write FAILS with an "
        "exception (OSError ENOSPC, KeyboardInterrupt) after p bytes while the process lives on (often followed by a "
        "delete of the same key).  Keys from a pool incl. the empty key, long keys (>57 bytes: multi-line base64), keys "
        "whose encoding contains '/' and '+', and families whose file names are prefixes of each other (K*57, K*57+x, "
        "K*114, …); values incl. empty and large ones around io.DEFAULT_BUFFER_SIZE (8191…8193, 20000, 65537); directory "
        "names incl. glob metacharacters ([, ], *, ?); separately the key→file-name encoding on structured random keys "
        "(lengths around multiples of 3 and 57, bytes giving '+' and '/').  distinct = (kind of op hit, cut position in "
        "it, old value present?, value empty/large?, nested recovery cuts, key class, directory class, class)")
ASSUMES = ["POSIX: rename()/remove() are atomic, rename replaces the destination (the statement's assumption)",
           "process crash, not power loss: bytes handed to the OS survive, user-space buffers are lost",
           "only files created by DirDBM itself live in its directory (module docstring); one process at a time",
           "key file names fit the filesystem's name limit (not modelled by fsim)",
           "a failing write is injected only inside _writeFile (the step __setitem__ guards with a handler), as an "
           "exception raised by the flush after p bytes; failures of open/remove/rename are not injected"]
TRUSTED = ["harness/lib/fsim.py (in-memory filesystem the real code is redirected to; crash = cut of its primitive log; "
           "listdir returns sorted names)",
           "the glob stand-in of this module (glob.glob semantics incl. metacharacters in the directory part, sorted; "
           "glob.escape is the real one)"]
MANIFEST = {
    "text": "Lean theorems (TwistedProps/C51.lean) over the crash-able filesystem model: for every clean database state, "
            "every operation and every cut (k, p) of its primitive trace, and every sequence of nested cuts of the "
            "recovery run by DirDBM.__init__, the recovered database maps every other key to its last completed value "
            "and the interrupted key to its old or its new value, and contains no file that is not the encoding of a key; "
            "key encoding proved injective and dot-free; a set whose write fails restores the directory exactly and every "
            "crash state inside it is a crash state of the plain set; setdefault/update/clear are sequences of sets and "
            "deletes; model tied to dirdbm.py by killing the real DirDBM (and Shelf) at every primitive over fsim, for "
            "directory names with glob metacharacters, prefix-related key names, large values and failing writes.",
    "note": "trusts Lean kernel, hand model of DirDBM (tied at every cut), fsim.py, POSIX rename/remove atomicity",
    "technique": "Lean 4 proof (invariant over crash states + recovery) + differential tie at every crash point",
    "design_ref": "DESIGN.md §7.7 C51",
}


def _D(c):
    return fsim.ROOT + "/" + c.get("dir", "db")


def _cls(c):
    return dirdbm.Shelf if c.get("cls") == "Shelf" else dirdbm.DirDBM


def _open_db(c):
    """the database object; with c["bmode"] the directory name is handed over as BYTES (DirDBM takes either; FilePath then
    works in bytes mode — seeded change C51-3 compared bytes extensions with str ones, so recovery found nothing)"""
    d = _D(c)
    return _cls(c)(os.fsencode(d) if c.get("bmode") else d)


def hx(b):
    return b.hex() if b else "-"


def enc(k):
    """file name of key k as documented: base64 text with newline→'_' and '/'→'-'; the empty key is the
    empty base64 line "_" (independent of the model)"""
    return (base64.encodebytes(k) or b"\n").replace(b"\n", b"_").replace(b"/", b"-").decode()


def stored(c, v):
    """bytes of the entry file for value v (Shelf pickles)"""
    return pickle.dumps(v) if c.get("cls") == "Shelf" else v


def show_state(snap):
    if not snap:
        return "."
    return ",".join(f"{hx(n.encode())}={hx(c)}" for n, c in sorted(snap.items(), key=lambda kv: kv[0].encode()))


def op_keys(op):
    if op[0] == "upd":
        return [kv[0] for kv in op[1]]
    if op[0] == "clr":
        return []
    return [op[1]]


def universe(c):
    ks = {e[1] for e in c["pre"]}
    for pr in c["procs"]:
        for op in pr["ops"]:
            ks.update(op_keys(op))
    return sorted(ks, key=bytes.fromhex)


def pre_files(c):
    return {enc(bytes.fromhex(e[1])) + e[0]: (stored(c, bytes.fromhex(e[2])) if not e[0] else bytes.fromhex(e[2]))
            for e in c["pre"]}


def _cut(cut):
    return "-" if cut is None else f"{cut[0]}:{cut[1]}"


def _key(h):
    return h if h else "-"


def _val(c, h):
    return hx(stored(c, bytes.fromhex(h)))


def _op_line(c, o):
    kind = o[0]
    if kind == "set":
        return f"s:{_key(o[1])}:{_val(c, o[2])}"
    if kind == "del":
        return f"d:{_key(o[1])}"
    if kind == "sdf":
        return f"sd:{_key(o[1])}:{_val(c, o[2])}"
    if kind == "setf":
        return f"f:{_key(o[1])}:{_val(c, o[2])}:{int(o[3])}:{o[4]}"
    if kind == "upd":
        return "u:" + "+".join(f"{_key(k)}:{_val(c, v)}" for k, v in o[1])
    if kind == "clr":
        return "c"
    raise ValueError(kind)


def model_line(c):
    if "enc" in c:
        return "enc " + _key(c["enc"])
    procs = []
    for pr in c["procs"]:
        ops = ";".join(_op_line(c, o) for o in pr["ops"]) or "."
        procs.append(ops + "@" + _cut(pr["cut"]))
    keys = ",".join(_key(k) for k in universe(c)) or "."
    return " ".join(["run", show_state(pre_files(c)), keys, "/".join(procs)])


# ---------------------------------------------------------------------------------------------
# the filesystem the real code runs on: fsim + a failing write + glob with real directory-part semantics

EXCS = {"OSError": lambda: OSError(errno.ENOSPC, "No space left on device"),
        "KeyboardInterrupt": lambda: KeyboardInterrupt()}


class FaultFS(fsim.FSim):
    """fsim + one armed *failure* (not a crash): the next write primitive hands only its first p bytes to the OS and
    then raises the armed exception; the process lives on (its handlers run)."""
    fault = None       # (p, exception instance)

    def _prim_write(self, f, data):
        if self.fault is not None and not self.dead:
            p, exc = self.fault
            self.fault = None
            if p > 0:
                super()._prim_write(f, data[:p])      # a primitive like any other (a crash cut may fall in it)
            f.buf.clear()                             # what did not reach the OS is lost with the failed file object
            raise exc
        return super()._prim_write(f, data)


class Glob:
    """glob.glob over the simulated filesystem with the semantics of the real one for a pattern `<dir>/<base>`:
    metacharacters in the last component of <dir> are honoured too (fsim.glob takes <dir> literally); sorted."""

    def __init__(self, fs):
        self.fs = fs
        self.escape = _glob.escape
        self.has_magic = _glob.has_magic

    def glob(self, pattern, **kw):
        fs = self.fs
        fs._read()
        isb = isinstance(pattern, bytes)
        pat = pattern.decode("utf-8", "surrogateescape") if isb else pattern
        d, base = posixpath.split(pat)
        if _glob.has_magic(d):
            parent, dbase = posixpath.split(d)
            assert not _glob.has_magic(parent)
            dirs = [posixpath.join(parent, n) for n in fs._children(fs.P(parent))
                    if posixpath.join(fs.P(parent), n) in fs.dirs and fnmatch.fnmatchcase(n, dbase)]
        else:
            dirs = [d]
        out = []
        for dd in dirs:
            dp = fs.P(dd)
            if dp not in fs.dirs:
                continue
            if not _glob.has_magic(base):
                if fs.exists(posixpath.join(dp, base)):
                    out.append(posixpath.join(dd, base))
                continue
            for n in fs._children(dp):
                if n.startswith(".") and not base.startswith("."):
                    continue
                if fnmatch.fnmatchcase(n, base):
                    out.append(posixpath.join(dd, n))
        return [x.encode("utf-8", "surrogateescape") for x in out] if isb else out


def _patched(fs):
    return fsim.patched(fs, filepath, dirdbm, extra=[(dirdbm, "glob", Glob(fs))])


def _mkfs(c):
    fs = FaultFS()
    D = _D(c)
    fs.makedirs(D)
    for n, v in pre_files(c).items():
        fs.put(D + "/" + n, v)
    return fs


def _do(fs, db, op):
    kind = op[0]
    if kind == "set":
        db[bytes.fromhex(op[1])] = bytes.fromhex(op[2])
    elif kind == "del":
        del db[bytes.fromhex(op[1])]
    elif kind == "sdf":
        db.setdefault(bytes.fromhex(op[1]), bytes.fromhex(op[2]))
    elif kind == "upd":
        db.update({bytes.fromhex(k): bytes.fromhex(v) for k, v in op[1]})
    elif kind == "clr":
        db.clear()
    elif kind == "setf":
        fs.fault = (int(op[3]), EXCS[op[4]]())
        try:
            db[bytes.fromhex(op[1])] = bytes.fromhex(op[2])
        finally:
            fs.fault = None
    else:
        raise ValueError(kind)


def _proc(c, fs, pr):
    """one process: open (recovery), ops, killed at its cut → per-op results"""
    fs.revive()
    fs.fault = None
    fs.crash_at = tuple(pr["cut"]) if pr["cut"] is not None else None
    res = []
    try:
        db = _open_db(c)
        for op in pr["ops"]:
            res.append("crash")
            try:
                _do(fs, db, op)
                res[-1] = "ok"
            except KeyError:
                res[-1] = "KeyError"
            except fsim.Crash:
                raise
            except BaseException as e:
                if op[0] != "setf" or fs.dead:
                    raise
                res[-1] = "fail:" + type(e).__name__      # the injected failure came back to the caller
    except fsim.Crash:
        pass
    return res


_LAST = [None, None]


def _execute(c):
    if _LAST[0] is c:
        return _LAST[1]
    r = _execute1(c)
    _LAST[0], _LAST[1] = c, r
    return r


def _execute1(c):
    fs = _mkfs(c)
    D = _D(c)
    results = []
    with _patched(fs):
        for pr in c["procs"]:
            results.append(_proc(c, fs, pr))
        fs.revive()
        db = _open_db(c)
        items = []
        for k in universe(c):
            kb = bytes.fromhex(k)
            try:
                items.append((k, db[kb]))
            except KeyError:
                items.append((k, None))
            except (pickle.UnpicklingError, EOFError, ValueError, IndexError, AttributeError, ImportError) as e:
                if c.get("cls") != "Shelf":
                    raise
                items.append((k, "!" + type(e).__name__))        # a partial pickle is visible as data
        try:
            keys = sorted(db.keys())
            nkeys = len(db)
        except Exception as e:          # stray file names do not decode
            keys, nkeys = f"!{type(e).__name__}", -1
        snap = fs.snapshot(D) if D in fs.dirs else None
    return snap, items, results, keys, nkeys, fs


def _show_item(c, v):
    if v is None:
        return "~"
    if isinstance(v, str):
        return v
    return hx(stored(c, v))


def run_impl(c):
    if "enc" in c:
        k = bytes.fromhex(c["enc"])
        db = dirdbm.DirDBM.__new__(dirdbm.DirDBM)
        return hx(db._encode(k))
    snap, items, results, keys, nkeys, fs = _execute(c)
    st = show_state(snap) if snap is not None else "!no-directory"
    it = ",".join(f"{_key(k)}={_show_item(c, v)}" for k, v in items) or "."
    rs = "/".join(",".join(r) or "." for r in results)
    return f"{st}|{it}|{rs}"


def _oracle_enc(c, out):
    k = bytes.fromhex(c["enc"])
    if out != hx(enc(k).encode()):
        return {"key": "file-name-is-not-the-documented-encoding", "detail": f"key {k!r}: {out} vs {enc(k)!r}"}
    db = dirdbm.DirDBM.__new__(dirdbm.DirDBM)
    name = db._encode(k)
    if db._decode(name) != k:
        return {"key": "file-name-does-not-decode-to-the-key", "detail": f"key {k!r}: {name!r} → {db._decode(name)!r}"}
    if b"." in name or b"/" in name or b"\n" in name or not name:
        return {"key": "file-name-not-a-plain-name", "detail": f"key {k!r}: {name!r}"}
    return None


def oracle(c, out):
    """The property on the real DirDBM, from the operation history alone (no model)."""
    if "enc" in c:
        return _oracle_enc(c, out)
    if any(e[0] for e in c["pre"]):
        return None                     # hand-made leftover files: tie only (not a state DirDBM produces)
    try:
        snap, items, results, keys, nkeys, fs = _execute(c)
    except fsim.Crash:
        raise
    except Exception as e:
        return {"key": _keyclass(c) + "reopen-raises", "detail": f"{type(e).__name__}: {e}"}
    # allowed[k] = set of values (None = absent) the history permits
    allowed = {bytes.fromhex(e[1]): {bytes.fromhex(e[2])} for e in c["pre"]}
    uni = [bytes.fromhex(k) for k in universe(c)]

    def cur(k):
        return allowed.get(k, {None})

    for pr, res in zip(c["procs"], results):
        for op, r in zip(pr["ops"], res):
            kind = op[0]
            done = r == "ok"
            if kind in ("set", "setf"):
                # an operation that was interrupted by the crash, or that failed with an exception, is not a
                # completed operation: its key has its old or its new value
                k, new = bytes.fromhex(op[1]), bytes.fromhex(op[2])
                allowed[k] = {new} if done else cur(k) | {new}
            elif kind == "del":
                k = bytes.fromhex(op[1])
                if r == "crash":
                    allowed[k] = cur(k) | {None}
                else:
                    if r == "ok" and cur(k) == {None}:
                        return {"key": _keyclass(c) + "delete-of-absent-key-succeeded", "detail": f"del {k!r}"}
                    if r == "KeyError" and None not in cur(k):
                        return {"key": _keyclass(c) + "delete-of-present-key-keyerror", "detail": f"del {k!r}"}
                    allowed[k] = {None}
            elif kind == "sdf":
                k, new = bytes.fromhex(op[1]), bytes.fromhex(op[2])
                if done:        # present → untouched; absent → set
                    allowed[k] = (cur(k) - {None}) | ({new} if None in cur(k) else set())
                else:
                    allowed[k] = cur(k) | {new}
            elif kind == "upd":
                for kh, vh in op[1]:
                    k, new = bytes.fromhex(kh), bytes.fromhex(vh)
                    allowed[k] = {new} if done else cur(k) | {new}
            elif kind == "clr":
                for k in set(uni) | set(allowed):
                    allowed[k] = {None} if done else cur(k) | {None}
    for k, v in items:
        kb = bytes.fromhex(k)
        if v not in cur(kb):
            return {"key": _keyclass(c) + "wrong-value-after-reopen",
                    "detail": f"key {_short(kb)} reads {_short(v)}; history allows "
                              f"{sorted((_short(x) for x in cur(kb)))}"}
    present = sorted(bytes.fromhex(k) for k, v in items if v is not None)
    if keys != present or nkeys != len(present):
        return {"key": _keyclass(c) + "stray-visible-as-data", "detail": f"keys()={keys!r} len={nkeys}; present keys {present!r}"}
    if snap is None or sorted(snap) != sorted(enc(k) for k in present):
        return {"key": _keyclass(c) + "stray-file-after-recovery",
                "detail": f"files {sorted(snap) if snap is not None else None} vs keys {present!r}"}
    return None


def _short(v):
    r = repr(v)
    return r if len(r) <= 60 else f"{r[:40]}…({len(v)} bytes)"


def _keyclass(c):
    return ""


def tag(c, out):
    if "enc" in c:
        n = len(c["enc"]) // 2
        return f"enc:len%3={n % 3}:lines={min((n + 56) // 57, 4)}:{'b' if n % 57 in (0, 1, 56) else ''}"
    parts = []
    for pr in c["procs"]:
        if pr["cut"] is None:
            parts.append(f"run{min(len(pr['ops']), 3)}")
        else:
            parts.append(f"cut{'+p' if pr['cut'][1] else ''}" + ("" if pr["ops"] else "R"))
    res = out.split("|")[-1] if "|" in out else out
    hit = ""
    big = False
    for pr, r in zip(c["procs"], res.split("/")):
        rs = r.split(",")
        if "crash" in rs:
            op = pr["ops"][rs.index("crash")]
            hit = op[0] + ("E" if op[0] in ("set", "sdf") and not op[2] else "")
        for op in pr["ops"]:
            if op[0] in ("set", "setf", "sdf") and len(op[2]) > 2000:
                big = True
    kc = "".join(sorted({("e" if not k else "L" if len(k) > 114 else "s") for k in universe(c)}))
    fam = "P" if sum(1 for k in universe(c) if k.startswith("4b" * 57)) > 1 else ""
    dc = ("" if c.get("dir", "db") == "db" else "G") + ("b" if c.get("bmode") else "")
    return (f"{'/'.join(parts[:4])}:{hit}:keys={kc}{fam}:strays={'y' if any(e[0] for e in c['pre']) else 'n'}:"
            f"{'err' if 'KeyError' in res else ''}{'F' if 'fail:' in res else ''}{'B' if big else ''}{dc}{(c.get('cls') or '')[:1]}")


# ---------------------------------------------------------------------------------------------
# generation

KEYS = [b"k", b"a", b"key2", b"", b"\xff\xff\xfe", b"\xfb\xf0", b"K" * 57, b"L" * 58, b"x" * 120, b"ab", b"abc", b"abcd"]
# keys whose file names are prefixes of one another (a full 76-character base64 line + "_" starts the longer ones)
FAMILY = [b"K" * 57, b"K" * 57 + b"x", b"K" * 58, b"K" * 114, b"K" * 114 + b"yz"]
VALS = [b"", b"v", b"old", b"new value", b"\x00\xff", b"0123456789abcdef"]
BIG = [8191, 8192, 8193, 20000, 65537]         # around io.DEFAULT_BUFFER_SIZE, and beyond 64 KiB
DIRS = ["db[1]", "d*b", "data[ab]", "q?", "x]y["]


def _big(rng, n):
    return bytes(rng.randrange(256) for _ in range(61)) * (n // 61) + b"z" * (n % 61)


def _ops(rng, n, keys, rich=True):
    ops = []
    while len(ops) < n:
        k = rng.choice(keys)
        x = rng.random()
        if not rich:
            x *= 0.77
        if x < 0.55:
            ops.append(["set", k.hex(), rng.choice(VALS).hex()])
        elif x < 0.77:
            ops.append(["del", k.hex()])
        elif x < 0.85:
            ops.append(["sdf", k.hex(), rng.choice(VALS).hex()])
        elif x < 0.95:
            v = rng.choice(VALS[1:])
            ops.append(["setf", k.hex(), v.hex(), rng.randrange(len(v) + 1), rng.choice(sorted(EXCS))])
            if rng.random() < 0.6:      # the process lives on: what it does next to the same key matters
                ops.append(["del", k.hex()])
        elif x < 0.98:
            ks = rng.sample(keys, rng.randint(1, len(keys)))
            ops.append(["upd", [[kk.hex(), rng.choice(VALS).hex()] for kk in ks]])
        else:
            ops.append(["clr"])
    return ops


def _with(c, **kw):
    d = dict(c)
    d.update(kw)
    return d


def _trace_of(c):
    """primitive trace of the LAST process of c, run uncut (to enumerate its cuts)"""
    fs = _mkfs(c)
    with _patched(fs):
        for pr in c["procs"][:-1]:
            _proc(c, fs, pr)
        last = dict(c["procs"][-1])
        last["cut"] = None
        try:
            _proc(c, fs, last)
        except Exception:
            pass
        return list(fs.trace)


def _cuts(trace, rng=None, limit=None):
    out = []
    for k, prim in enumerate(trace):
        out.append([k, 0])
        if prim[0] == "write":
            L = prim[-1]
            out += [[k, p] for p in (range(1, L) if L <= 10 else sorted({1, L // 2, L - 1}))]
    if limit and len(out) > limit and rng:
        out = rng.sample(out, limit)
    return out


def expand(c, rng=None, nested=True):
    """c (last process uncut) → c itself + one case per cut of the last process + nested recovery cuts"""
    yield c
    for cut in _cuts(_trace_of(c)):
        d = _with(c, procs=c["procs"][:-1] + [{"ops": c["procs"][-1]["ops"], "cut": cut}])
        yield d
        if nested:
            # kill the following recovery at each of its primitives, then again (recovery of the recovery)
            rec = _with(d, procs=d["procs"] + [{"ops": [], "cut": None}])
            rtrace = _trace_of(rec)
            for k in range(len(rtrace)):
                e = _with(d, procs=d["procs"] + [{"ops": [], "cut": [k, 0]}])
                yield e
                yield _with(d, procs=e["procs"] + [{"ops": [], "cut": [0, 0]}])


ENC_FIXED = [b"", b"\x00", b"\xfb", b"\xff\xff", b"\xfb\xf0", b"\xff\xf0", b"\xff\xff\xff", b"\xfb\xef\xbe",
             b"K" * 56, b"K" * 57, b"K" * 58, b"\xff" * 57, b"\xfb" * 58, b"K" * 76, b"K" * 77, b"K" * 113, b"K" * 114,
             b"K" * 115, b"\xff" * 171, b"K" * 172, b" ", b"\n", b"k\n", b"a.b", b"_", b"-", b"../x"]


def _enc_key(rng):
    n = rng.choice([0, 1, 2, 3, 4, 5, 6, 55, 56, 57, 58, 59, 75, 76, 77, 113, 114, 115, 116, 170, 171, 172, rng.randrange(180)])
    x = rng.random()
    if x < 0.4:
        return bytes(rng.randrange(256) for _ in range(n))
    if x < 0.7:       # many '+' and '/' in the base64 text
        return bytes(rng.choice([0xfb, 0xff, 0xef, 0xbe, 0xfe, 0x3e, 0x3f]) for _ in range(n))
    return bytes(rng.choice(b"abcXYZ019 \n._-/+=") for _ in range(n))


def corpus():
    base = [
        {"pre": [], "procs": [{"ops": [["set", "6b", "76"], ["set", "6b", "7732"], ["del", "6b"], ["del", "6b"]], "cut": None}]},
        {"pre": [["", "6b", "6f6c64"]], "procs": [{"ops": [["set", "6b", "6e6577"]], "cut": None}]},
        {"pre": [["", "6b", "6f6c64"], ["", "61", "31"]], "procs": [{"ops": [["del", "6b"], ["set", "61", ""]], "cut": None}]},
        # test_dirdbm.py's hand-made leftovers, and more than one stray at a time (tie only)
        {"pre": [["", "6b", "6f6c64"], [".rpl", "6b", "6e"], [".new", "61", "78"], [".rpl", "61", "79"], [".new", "6b", "7a"]],
         "procs": [{"ops": [], "cut": None}]},
        {"pre": [[".rpl", "4b" * 57, "6e"], [".rpl", "4c" * 58, "6e"], [".new", "fffffe", ""]], "procs": [{"ops": [], "cut": None}]},
        # the empty key
        {"pre": [["", "6b", "6f6c64"]], "procs": [{"ops": [["set", "", "76"]], "cut": None}]},
        {"pre": [["", "6b", "6f6c64"]], "procs": [{"ops": [["set", "", "76"], ["set", "", "77"], ["del", ""]], "cut": None}]},
        # a database directory whose name contains glob metacharacters (recovery must still find its leftovers)
        {"dir": "db[1]", "pre": [["", "6b", "6f6c64"]], "procs": [{"ops": [["set", "6b", "6e6577"], ["set", "61", "31"]], "cut": None}]},
        {"dir": "d*b", "pre": [["", "6b", "6f6c64"]], "procs": [{"ops": [["set", "6b", "6e6577"]], "cut": None}]},
        # the database opened with a BYTES directory name (seeded change C51-3): leftovers must still be recovered
        {"bmode": 1, "pre": [["", "6b", "6f6c64"], [".rpl", "61", "31"], [".new", "62", "32"]],
         "procs": [{"ops": [["set", "6b", "6e6577"], ["del", "6b"]], "cut": None}]},
        {"bmode": 1, "dir": "db[1]", "pre": [["", "6b", "6f6c64"]], "procs": [{"ops": [["set", "6b", "6e6577"], ["set", "61", "31"]], "cut": None}]},
        # keys whose file names are prefixes of each other
        {"pre": [["", "4b" * 57, "31"], ["", "4b" * 57 + "78", "32"], ["", "4b" * 114, "33"]],
         "procs": [{"ops": [["del", "4b" * 57], ["set", "4b" * 57, "34"], ["del", "4b" * 114]], "cut": None}]},
        # a set whose write fails (the process lives on), then a delete of the same key
        {"pre": [["", "6b", "6f6c64"]], "procs": [{"ops": [["setf", "6b", "6e657776616c7565", 3, "KeyboardInterrupt"], ["del", "6b"]], "cut": None}]},
        {"pre": [["", "6b", "6f6c64"]], "procs": [{"ops": [["setf", "6b", "6e657776616c7565", 8, "OSError"], ["setf", "61", "78", 0, "OSError"]], "cut": None}]},
        # setdefault / update / clear, and the Shelf subclass
        {"pre": [["", "6b", "6f6c64"]], "procs": [{"ops": [["sdf", "61", "6e6577"], ["sdf", "6b", "78"], ["upd", [["6b", "32"], ["62", "33"]]], ["clr"]], "cut": None}]},
        {"cls": "Shelf", "pre": [["", "6b", "6f6c64"]], "procs": [{"ops": [["set", "6b", "6e6577"], ["set", "61", ""], ["sdf", "62", "31"]], "cut": None}]},
    ]
    out = []
    for c in base:
        out += list(expand(c))
    # a large value replacing a small one (no nested cuts: the lines are long)
    out += list(expand({"pre": [["", "6b", "6f6c64"]], "procs": [{"ops": [["set", "6b", (bytes(range(256)) * 33).hex()]], "cut": None}]},
                       nested=False))
    out += [{"enc": k.hex()} for k in ENC_FIXED]
    return out


def generate(rng, tier):
    n = 60 if tier == "quick" else 1000
    for i in range(n):
        pool = FAMILY if rng.random() < 0.2 else KEYS
        keys = rng.sample(pool, rng.choice([1, 2, 3]))
        pre = []
        for k in keys:
            if rng.random() < 0.5:
                pre.append(["", k.hex(), rng.choice(VALS).hex()])
        L = rng.choice([1, 2, 3, 5, 8, 12]) if tier == "quick" else rng.choice([1, 3, 8, 12, 25, 40])
        procs = []
        c = {"pre": pre}
        if rng.random() < 0.3:
            c["dir"] = rng.choice(DIRS)
        if rng.random() < 0.25:
            c["bmode"] = 1
        if rng.random() < 0.15:
            c["cls"] = "Shelf"
        if rng.random() < 0.3:      # an earlier generation: ops, crash, (recovery happens when the next process opens)
            first = _with(c, procs=[{"ops": _ops(rng, rng.choice([1, 2, 4]), keys), "cut": None}])
            cuts = _cuts(_trace_of(first))
            procs.append({"ops": first["procs"][0]["ops"], "cut": rng.choice(cuts) if cuts else None})
        procs.append({"ops": _ops(rng, L, keys), "cut": None})
        yield from expand(_with(c, procs=procs), rng, nested=(rng.random() < 0.5))
    # large values: at and around the size of the I/O buffer, and beyond 64 KiB
    for i in range(5 if tier == "quick" else 40):
        keys = rng.sample(KEYS, 2)
        pre = [["", k.hex(), rng.choice(VALS).hex()] for k in keys if rng.random() < 0.7]
        size = BIG[i % len(BIG)]
        ops = _ops(rng, rng.choice([0, 1]), keys, rich=False)
        ops.append([rng.choice(["set", "set", "sdf"]), keys[0].hex(), _big(rng, size).hex()])
        if rng.random() < 0.5:
            ops.append(["setf", keys[0].hex(), _big(rng, rng.choice(BIG)).hex(), rng.choice([1, 8192, 8193]), rng.choice(sorted(EXCS))])
            ops.append(["del", keys[0].hex()])
        yield from expand({"pre": pre, "procs": [{"ops": ops, "cut": None}]}, rng, nested=False)
    # hand-made leftovers (tie of the recovery code on states DirDBM itself never produces)
    for i in range(10 if tier == "quick" else 300):
        keys = rng.sample(KEYS, rng.choice([1, 2, 3]))
        pre = []
        for k in keys:
            for kind in ("", ".rpl", ".new"):
                if rng.random() < 0.5:
                    pre.append([kind, k.hex(), rng.choice(VALS).hex()])
        c = {"pre": pre, "procs": [{"ops": _ops(rng, rng.choice([0, 1, 2]), keys, rich=False), "cut": None}]}
        if rng.random() < 0.3:
            c["dir"] = rng.choice(DIRS)
        if rng.random() < 0.25:
            c["bmode"] = 1
        yield from expand(c, rng)
    # the key → file-name encoding on its own
    for i in range(200 if tier == "quick" else 5000):
        yield {"enc": _enc_key(rng).hex()}


def search(rng, tier, disagreeing):
    for c in disagreeing[:10]:
        if "enc" in c:
            continue
        base = _with(c, procs=c["procs"][:1])
        base["procs"][-1] = {"ops": base["procs"][-1]["ops"], "cut": None}
        yield from expand(base, rng)
    yield from generate(rng, "quick")


def shrink(c):
    if "enc" in c:
        k = c["enc"]
        for j in range(0, len(k), 2):
            yield {"enc": k[:j] + k[j + 2:]}
        return
    procs = c["procs"]
    for i, pr in enumerate(procs):
        if len(procs) > 1 and pr["cut"] is None:
            yield _with(c, procs=procs[:i] + procs[i + 1:])
        for j in range(len(pr["ops"])):
            if pr["cut"] is None:
                yield _with(c, procs=procs[:i] + [{"ops": pr["ops"][:j] + pr["ops"][j + 1:], "cut": None}] + procs[i + 1:])
    for j in range(len(c["pre"])):
        yield _with(c, pre=c["pre"][:j] + c["pre"][j + 1:])
    if len(procs) > 1:
        yield _with(c, procs=procs[:-1])
    if c.get("dir", "db") != "db":
        yield _with(c, dir="db")
    if c.get("cls"):
        yield _with(c, cls=None)
    if c.get("bmode"):
        yield _with(c, bmode=0)
