"""C51 — DirDBM crash safety: the real DirDBM over the crash-able in-memory filesystem (harness/lib/fsim.py),
killed at every primitive (and every partial write length) of random operation sequences, with nested
crashes inside the recovery of DirDBM.__init__, vs the Lean model; + the property oracle."""
import base64

from twisted.persisted import dirdbm
from twisted.python import filepath

from lib import fsim

HEADLINE = "TwistedProps.C51.crash_consistent"
RULE = ("a case = initial directory + a list of processes; every process opens the DirDBM (recovery), performs its "
        "set/replace/delete operations and is killed at one cut (k primitives, p bytes of a partial write) — for a "
        "generated operation sequence EVERY cut is a case, and for every crash state every cut of the following "
        "recovery (nested crashes) too; keys from a small pool incl. the empty key, long keys (>57 bytes: multi-line "
        "base64) and keys whose encoding contains '/' and '+'; distinct = (kind of op hit, cut position in it, "
        "old value present?, value empty?, nested recovery cuts, key class)")
ASSUMES = ["POSIX: rename()/remove() are atomic, rename replaces the destination (the statement's assumption)",
           "process crash, not power loss: bytes handed to the OS survive, user-space buffers are lost",
           "only files created by DirDBM itself live in its directory (module docstring); one process at a time",
           "key file names fit the filesystem's name limit (not modelled by fsim)"]
TRUSTED = ["harness/lib/fsim.py (in-memory filesystem the real code is redirected to; crash = cut of its primitive log; "
           "glob/listdir return sorted names)"]
MANIFEST = {
    "text": "Lean theorems (TwistedProps/C51.lean) over the crash-able filesystem model: for every clean database state, "
            "every operation and every cut (k, p) of its primitive trace, and every sequence of nested cuts of the "
            "recovery run by DirDBM.__init__, the recovered database maps every other key to its last completed value "
            "and the interrupted key to its old or its new value, and contains no file that is not the encoding of a key; "
            "key encoding proved injective and dot-free; model tied to dirdbm.py by killing the real DirDBM at every "
            "primitive over fsim.",
    "note": "trusts Lean kernel, hand model of DirDBM (tied at every cut), fsim.py, POSIX rename/remove atomicity",
    "technique": "Lean 4 proof (invariant over crash states + recovery) + differential tie at every crash point",
    "design_ref": "DESIGN.md §7.7 C51",
}

D = fsim.ROOT + "/db"


def hx(b):
    return b.hex() if b else "-"


def enc(k):
    """file name of key k as documented: base64 text with newline→'_' and '/'→'-'; the empty key is the
    empty base64 line "_" (independent of the model)"""
    return (base64.encodebytes(k) or b"\n").replace(b"\n", b"_").replace(b"/", b"-").decode()


def show_state(snap):
    if not snap:
        return "."
    return ",".join(f"{hx(n.encode())}={hx(c)}" for n, c in sorted(snap.items(), key=lambda kv: kv[0].encode()))


def universe(c):
    ks = {e[1] for e in c["pre"]}
    for pr in c["procs"]:
        for op in pr["ops"]:
            ks.add(op[1])
    return sorted(ks, key=bytes.fromhex)


def pre_files(c):
    return {enc(bytes.fromhex(e[1])) + e[0]: bytes.fromhex(e[2]) for e in c["pre"]}


def _cut(cut):
    return "-" if cut is None else f"{cut[0]}:{cut[1]}"


def _key(h):
    return h if h else "-"


def model_line(c):
    procs = []
    for pr in c["procs"]:
        ops = ";".join(f"s:{_key(o[1])}:{_key(o[2])}" if o[0] == "set" else f"d:{_key(o[1])}" for o in pr["ops"]) or "."
        procs.append(ops + "@" + _cut(pr["cut"]))
    keys = ",".join(_key(k) for k in universe(c)) or "."
    return " ".join(["run", show_state(pre_files(c)), keys, "/".join(procs)])


def _mkfs(c):
    fs = fsim.FSim()
    fs.makedirs(D)
    for n, v in pre_files(c).items():
        fs.put(D + "/" + n, v)
    return fs


def _proc(fs, pr):
    """one process: open (recovery), ops, killed at its cut → per-op results"""
    fs.revive()
    fs.crash_at = tuple(pr["cut"]) if pr["cut"] is not None else None
    res = []
    try:
        db = dirdbm.DirDBM(D)
        for op in pr["ops"]:
            res.append("crash")
            try:
                if op[0] == "set":
                    db[bytes.fromhex(op[1])] = bytes.fromhex(op[2])
                else:
                    del db[bytes.fromhex(op[1])]
                res[-1] = "ok"
            except KeyError:
                res[-1] = "KeyError"
    except fsim.Crash:
        pass
    return res


_LAST = [None, None]


def _execute(c):
    if _LAST[0] is c:
        return _LAST[1]
    r = _execute1(c)
    _LAST[0], _LAST[1] = c, r
    return r


def _execute1(c):
    fs = _mkfs(c)
    results = []
    with fsim.patched(fs, filepath, dirdbm):
        for pr in c["procs"]:
            results.append(_proc(fs, pr))
        fs.revive()
        db = dirdbm.DirDBM(D)
        items = []
        for k in universe(c):
            kb = bytes.fromhex(k)
            try:
                items.append((k, db[kb]))
            except KeyError:
                items.append((k, None))
        try:
            keys = sorted(db.keys())
            nkeys = len(db)
        except Exception as e:          # stray file names do not decode
            keys, nkeys = f"!{type(e).__name__}", -1
        snap = fs.snapshot(D) if D in fs.dirs else None
    return snap, items, results, keys, nkeys, fs


def run_impl(c):
    snap, items, results, keys, nkeys, fs = _execute(c)
    st = show_state(snap) if snap is not None else "!no-directory"
    it = ",".join(f"{_key(k)}={'~' if v is None else hx(v)}" for k, v in items) or "."
    rs = "/".join(",".join(r) or "." for r in results)
    return f"{st}|{it}|{rs}"


def oracle(c, out):
    """The property on the real DirDBM, from the operation history alone (no model)."""
    if any(e[0] for e in c["pre"]):
        return None                     # hand-made leftover files: tie only (not a state DirDBM produces)
    try:
        snap, items, results, keys, nkeys, fs = _execute(c)
    except fsim.Crash:
        raise
    except Exception as e:
        return {"key": _keyclass(c) + "reopen-raises", "detail": f"{type(e).__name__}: {e}"}
    # allowed[k] = set of values (None = absent) the history permits
    allowed = {bytes.fromhex(e[1]): {bytes.fromhex(e[2])} for e in c["pre"]}
    for pr, res in zip(c["procs"], results):
        for op, r in zip(pr["ops"], res):
            k = bytes.fromhex(op[1])
            new = bytes.fromhex(op[2]) if op[0] == "set" else None
            if r == "crash":
                allowed[k] = allowed.get(k, {None}) | {new}
            else:
                if op[0] == "del" and r == "ok" and allowed.get(k, {None}) == {None}:
                    return {"key": _keyclass(c) + "delete-of-absent-key-succeeded", "detail": f"del {k!r}"}
                if op[0] == "del" and r == "KeyError" and None not in allowed.get(k, {None}):
                    return {"key": _keyclass(c) + "delete-of-present-key-keyerror", "detail": f"del {k!r}"}
                allowed[k] = {new}
    for k, v in items:
        kb = bytes.fromhex(k)
        if v not in allowed.get(kb, {None}):
            return {"key": _keyclass(c) + "wrong-value-after-reopen",
                    "detail": f"key {kb!r} reads {v!r}; history allows {sorted(allowed.get(kb, {None}), key=repr)}"}
    present = sorted(bytes.fromhex(k) for k, v in items if v is not None)
    if keys != present or nkeys != len(present):
        return {"key": _keyclass(c) + "stray-visible-as-data", "detail": f"keys()={keys!r} len={nkeys}; present keys {present!r}"}
    if snap is None or sorted(snap) != sorted(enc(k) for k in present):
        return {"key": _keyclass(c) + "stray-file-after-recovery",
                "detail": f"files {sorted(snap) if snap is not None else None} vs keys {present!r}"}
    return None


def _keyclass(c):
    return ""


def tag(c, out):
    parts = []
    for pr in c["procs"]:
        if pr["cut"] is None:
            parts.append(f"run{min(len(pr['ops']), 3)}")
        else:
            parts.append(f"cut{'+p' if pr['cut'][1] else ''}" + ("" if pr["ops"] else "R"))
    res = out.split("|")[-1] if "|" in out else out
    hit = ""
    for pr, r in zip(c["procs"], res.split("/")):
        rs = r.split(",")
        if "crash" in rs:
            op = pr["ops"][rs.index("crash")]
            hit = op[0] + ("E" if op[0] == "set" and not op[2] else "")
    kc = "".join(sorted({("e" if not k else "L" if len(k) > 114 else "s") for k in universe(c)}))
    return f"{'/'.join(parts[:4])}:{hit}:keys={kc}:strays={'y' if any(e[0] for e in c['pre']) else 'n'}:{'err' if 'KeyError' in res else ''}"


# ---------------------------------------------------------------------------------------------
# generation

KEYS = [b"k", b"a", b"key2", b"", b"\xff\xff\xfe", b"\xfb\xf0", b"K" * 57, b"L" * 58, b"x" * 120, b"ab", b"abc", b"abcd"]
VALS = [b"", b"v", b"old", b"new value", b"\x00\xff", b"0123456789abcdef"]


def _ops(rng, n, keys):
    ops = []
    for _ in range(n):
        k = rng.choice(keys)
        if rng.random() < 0.7:
            ops.append(["set", k.hex(), rng.choice(VALS).hex()])
        else:
            ops.append(["del", k.hex()])
    return ops


def _trace_of(c):
    """primitive trace of the LAST process of c, run uncut (to enumerate its cuts)"""
    fs = _mkfs(c)
    with fsim.patched(fs, filepath, dirdbm):
        for pr in c["procs"][:-1]:
            _proc(fs, pr)
        last = dict(c["procs"][-1])
        last["cut"] = None
        try:
            _proc(fs, last)
        except Exception:
            pass
        return list(fs.trace)


def _cuts(trace, rng=None, limit=None):
    out = []
    for k, prim in enumerate(trace):
        out.append([k, 0])
        if prim[0] == "write":
            L = prim[-1]
            out += [[k, p] for p in (range(1, L) if L <= 10 else sorted({1, L // 2, L - 1}))]
    if limit and len(out) > limit and rng:
        out = rng.sample(out, limit)
    return out


def expand(c, rng=None, nested=True):
    """c (last process uncut) → c itself + one case per cut of the last process + nested recovery cuts"""
    yield c
    for cut in _cuts(_trace_of(c)):
        d = {"pre": c["pre"], "procs": c["procs"][:-1] + [{"ops": c["procs"][-1]["ops"], "cut": cut}]}
        yield d
        if nested:
            # kill the following recovery at each of its primitives, then again (recovery of the recovery)
            rec = {"pre": d["pre"], "procs": d["procs"] + [{"ops": [], "cut": None}]}
            rtrace = _trace_of(rec)
            for k in range(len(rtrace)):
                e = {"pre": d["pre"], "procs": d["procs"] + [{"ops": [], "cut": [k, 0]}]}
                yield e
                yield {"pre": d["pre"], "procs": e["procs"] + [{"ops": [], "cut": [0, 0]}]}


def corpus():
    base = [
        {"pre": [], "procs": [{"ops": [["set", "6b", "76"], ["set", "6b", "7732"], ["del", "6b"], ["del", "6b"]], "cut": None}]},
        {"pre": [["", "6b", "6f6c64"]], "procs": [{"ops": [["set", "6b", "6e6577"]], "cut": None}]},
        {"pre": [["", "6b", "6f6c64"], ["", "61", "31"]], "procs": [{"ops": [["del", "6b"], ["set", "61", ""]], "cut": None}]},
        # test_dirdbm.py's hand-made leftovers, and more than one stray at a time (tie only)
        {"pre": [["", "6b", "6f6c64"], [".rpl", "6b", "6e"], [".new", "61", "78"], [".rpl", "61", "79"], [".new", "6b", "7a"]],
         "procs": [{"ops": [], "cut": None}]},
        {"pre": [[".rpl", "4b" * 57, "6e"], [".rpl", "4c" * 58, "6e"], [".new", "fffffe", ""]], "procs": [{"ops": [], "cut": None}]},
        # the empty key
        {"pre": [["", "6b", "6f6c64"]], "procs": [{"ops": [["set", "", "76"]], "cut": None}]},
        {"pre": [["", "6b", "6f6c64"]], "procs": [{"ops": [["set", "", "76"], ["set", "", "77"], ["del", ""]], "cut": None}]},
    ]
    out = []
    for c in base:
        out += list(expand(c))
    return out


def generate(rng, tier):
    n = 60 if tier == "quick" else 1000
    for i in range(n):
        keys = rng.sample(KEYS, rng.choice([1, 2, 3]))
        pre = []
        for k in keys:
            if rng.random() < 0.5:
                pre.append(["", k.hex(), rng.choice(VALS).hex()])
        L = rng.choice([1, 2, 3, 5, 8, 12]) if tier == "quick" else rng.choice([1, 3, 8, 12, 25, 40])
        procs = []
        if rng.random() < 0.3:      # an earlier generation: ops, crash, (recovery happens when the next process opens)
            first = {"pre": pre, "procs": [{"ops": _ops(rng, rng.choice([1, 2, 4]), keys), "cut": None}]}
            cuts = _cuts(_trace_of(first))
            procs.append({"ops": first["procs"][0]["ops"], "cut": rng.choice(cuts) if cuts else None})
        procs.append({"ops": _ops(rng, L, keys), "cut": None})
        yield from expand({"pre": pre, "procs": procs}, rng, nested=(rng.random() < 0.5))
    # hand-made leftovers (tie of the recovery code on states DirDBM itself never produces)
    for i in range(10 if tier == "quick" else 300):
        keys = rng.sample(KEYS, rng.choice([1, 2, 3]))
        pre = []
        for k in keys:
            for kind in ("", ".rpl", ".new"):
                if rng.random() < 0.5:
                    pre.append([kind, k.hex(), rng.choice(VALS).hex()])
        yield from expand({"pre": pre, "procs": [{"ops": _ops(rng, rng.choice([0, 1, 2]), keys), "cut": None}]}, rng)


def search(rng, tier, disagreeing):
    for c in disagreeing[:10]:
        base = {"pre": c["pre"], "procs": c["procs"][:1]}
        base["procs"][-1] = {"ops": base["procs"][-1]["ops"], "cut": None}
        yield from expand(base, rng)
    yield from generate(rng, "quick")


def shrink(c):
    procs = c["procs"]
    for i, pr in enumerate(procs):
        if len(procs) > 1 and pr["cut"] is None:
            yield {"pre": c["pre"], "procs": procs[:i] + procs[i + 1:]}
        for j in range(len(pr["ops"])):
            if pr["cut"] is None:
                yield {"pre": c["pre"], "procs": procs[:i] + [{"ops": pr["ops"][:j] + pr["ops"][j + 1:], "cut": None}] + procs[i + 1:]}
    for j in range(len(c["pre"])):
        yield {"pre": c["pre"][:j] + c["pre"][j + 1:], "procs": procs}
    if len(procs) > 1:
        yield {"pre": c["pre"], "procs": procs[:-1]}
