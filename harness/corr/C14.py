"""C14 — transport write buffering delivers bytes exactly once and honours producers.

A real `twisted.internet.abstract.FileDescriptor` (subclass: scripted `writeSomeData`, recording
`_closeWriteConnection` / `connectionLost`) on a recording fake reactor (reader set / writer set,
`_disconnectSelectable` behaviour when `doWrite` returns a value), driven by an operation history with
real logging producers whose callbacks re-enter the transport, against the Lean model
(TwistedModel/Transport/FD.lean); plus the property oracle evaluated on the real code alone."""
import collections
import zlib

from twisted.internet import abstract, error, main
from twisted.python import failure

HEADLINE = "TwistedProps.C14.stream_integrity"
RULE = ("histories of 3..30 operations (write, writeSequence incl. [] and [b''], registerProducer streaming / "
        "non-streaming, unregisterProducer, loseConnection, loseWriteConnection, stopConsuming, transport "
        "pause/resumeProducing, writability events whose OS answer is 0 / 1 / few / offered-1 / all / an error, "
        "connection dropped by the reactor) over 0..2 producers whose k-th resumeProducing / pauseProducing runs a "
        "script of re-entrant transport calls; SEND_LIMIT and bufferSize either tiny (1..16, payloads 0..24 bytes, so "
        "both thresholds are crossed constantly) or the real 128 KiB / 64 KiB with payloads at the thresholds +-1 and "
        "up to 1 MiB; the Python representation of every argument varies too: writeSequence is given a list (40%) or a "
        "tuple / generator / iter() / map object / deque / user collection / a list the caller clears or overwrites "
        "right after the call / one list object re-filled for every call (60%, top level and inside producer callbacks), "
        "write a bytes or a bytes-subclass instance (12%), registerProducer a bool or an int flag (1/3), 40% of the "
        "producer objects have a false truth value (__bool__ False or __len__ 0), and in 25% of the histories a second "
        "transport of the same class on the same reactor is written to and flushed in between (its stream is judged "
        "too); distinct = (threshold regime, op kinds, argument representations, event kinds, OS answer classes, nesting, "
        "SEND_LIMIT split seen, final connection state)")
ASSUMES = [
    "0 < SEND_LIMIT (with SEND_LIMIT = 0 doWrite never moves _tempDataBuffer into dataBuffer; the class constant is 128 KiB)",
    "writeSomeData returns an int in [0, len(data)] or an exception instance; it does not re-enter the transport",
    "write is given bytes (or a bytes subclass), writeSequence any iterable of bytes - list, tuple, other collection, "
    "one-shot iterator / generator (ITransport.writeSequence: Iterable[bytes]) - which the caller may go on using or "
    "mutating once the call has RETURNED (not during it); the TypeError guard is not part of the property",
    "registerProducer's streaming flag is a bool or an int (docstring: 'C{bool} or C{int}'); a producer is any object with "
    "the three methods, whatever its truth value",
    "other transports of the same class may be used between the operations of this one; they share nothing with it",
    "doWrite is called only by the reactor, for descriptors in its writer set; a value returned by doWrite makes the "
    "reactor remove the descriptor from both sets and call connectionLost (posixbase._disconnectSelectable)",
    "producer callbacks are finite scripts of write/writeSequence/unregisterProducer/loseConnection/loseWriteConnection calls",
    "'written while connected' = accepted while connected and before the write side was shut (_closeWriteConnection): "
    "once the write side is shut nothing is pending and nothing is accepted ever again (half_closed_nothing_pending, "
    "half_closed_is_final)",
    "'not closed while a non-streaming producer is registered' is proved for every producer registered before the write "
    "side was shut (such a producer keeps doWrite from half-closing and from closing); a non-streaming producer found "
    "registered at a clean close is proved to have been registered on an already half-closed transport, so every write "
    "it ever made was dropped - loseConnection on a half-closed transport closes at once and stops it",
    "eventual delivery: the schedule is a run of consecutive writability events (no other operation interleaved) in each "
    "of which writeSomeData takes >= 1 byte of a non-empty offer; bytes written by a producer from the resumeProducing "
    "call made at the drain point start a new round (the theorem applies again to the state reached)",
]
TRUSTED = [
    "harness/py2lean.py (translator: abstract.FileDescriptor._isSendBufferFull is regenerated into lean/Generated/FD.lean on "
    "every run, len(self.dataBuffer) as a length parameter; translator-regenerated kernel proved equal to the model: "
    "TwistedProps.C14.gen_isSendBufferFull, gen_maybePauseProducer, gen_full_when_over_bufferSize)",
    "the fake reactor (two sets) and the scripted writeSomeData stand for the reactor and the kernel",
    "Iovec.traverse / Iovec.truthy / Flag.truthy (TwistedModel/Transport/FDPy.lean) stand for Python's iteration protocol, "
    "bool(iovec) and bool(streaming); producer truthiness and the bystander transport have no model counterpart (the model "
    "tests `producer.isSome` and has one transport): for those the tie compares the real code on the unusual objects with the "
    "model of the plain history, and the oracle judges the real code alone",
    "zlib.adler32 / the Lean adler32 and the shared LCG byte-stream generator used to keep 1 MiB cases on one line",
]
MANIFEST = {
    "text": "Lean theorems (TwistedProps/C14.lean) over the executable model of abstract.FileDescriptor/_ConsumerMixin: for "
            "every operation history, every OS acceptance pattern and every finite producer behaviour (re-entrant, any "
            "nesting depth): bytes handed to the OS ++ bytes still buffered = bytes accepted by write/writeSequence while "
            "connected (exactly once, in order); the OS is always offered exactly the next pending bytes; pending data keeps "
            "the descriptor in the writer set and a writability event offers a non-empty buffer (no stuck data); eventual "
            "delivery (eventual_delivery): from any reachable open state with n > 0 bytes pending and 0 < SEND_LIMIT, under any "
            "schedule of OS answers taking >= 1 byte of a non-empty offer, after some j <= n writability events every byte "
            "accepted has been handed to the OS exactly once in order (sent = accepted), no callback ran and the connection "
            "stayed open before that, and then doWrite resumes the producer that must be resumed, else closes cleanly iff "
            "loseConnection had been requested, else carries out a requested half-close (end-to-end form without producer: "
            "eventual_delivery_no_producer; idle transport: eventual_close_when_idle; after loseConnection with no producer "
            "registered the descriptor is in the writer set and the connection is closed cleanly within max(1, n) such events: "
            "writer_registered_when_closing, eventual_close); write/writeSequence on an open transport "
            "append exactly their bytes to the accepted stream also when producer callbacks run and re-enter "
            "(write_accepted_with_callbacks); a clean close happens only with nothing pending and with a pull producer "
            "registered only if that producer was registered after the write side had been shut, i.e. never had a byte "
            "accepted (close_only_after_flush, no exception left; half_closed_is_final, half_close_waits_for_producer); a "
            "registered push producer is paused whenever more than bufferSize bytes are pending and is never left paused "
            "with a drained buffer. writeSequence(<any iterable: list / tuple / other collection / one-shot iterator or "
            "generator>) and registerProducer(p, <bool or int>) as the code has them do exactly what the model does with the "
            "elements / the truth value (writeSequencePy_eq, applyPy_eq, reachPy_eq), so every theorem holds for histories of "
            "Python-level operations (stream_integrity_py, close_only_after_flush_py); before the repair of writeSequence "
            "(twisted 25e023e) a one-shot iterable lost every byte (writeSequencePyOld_counterexample). Model tied to abstract.py by differential runs, event by event; the pause test "
            "_isSendBufferFull is regenerated from abstract.py by the translator on every run and proved equal to the "
            "model's predicate (gen_*).",
    "note": "trusts Lean kernel, the hand-written model (differentially tied), the fake reactor and scripted kernel",
    "technique": "Lean 4 proof (state invariants and monotone relations preserved by every operation, higher-order in the "
                 "producer callbacks, induction over nesting depth and history; eventual delivery by induction on the "
                 "pending byte count) + differential tie + translator-regenerated kernel proved equal to the model",
    "design_ref": "DESIGN.md §7 C14",
}

# ---------------------------------------------------------------------------------------
# byte strings `<len>:<seed>`

_streams = {}


def _stream(seed, n):
    st = _streams.get(seed)
    if st is None:
        st = _streams[seed] = [seed, bytearray()]
    x, buf = st
    if len(buf) < n:
        ap = buf.append
        for _ in range(n - len(buf)):
            x = (x * 1103515245 + 12345) % 2147483648
            ap((x >> 16) & 0xFF)
        st[0] = x
    return bytes(buf[:n])


def dec_bytes(tok):
    l, sd = tok.split(":")
    return _stream(int(sd), int(l))


SEQ_KINDS = "tgimqvcjr"     # see _Run._container


def norm_tok(tok):
    """the token of the abstract operation (what the Lean model is given): the Python representation of the
    argument (which iterable, bytes subclass, int flag) is dropped"""
    if tok[0] == "W":
        return "w" + tok[1:]
    if tok[0] == "S":
        return "s" + tok[2:]
    if tok[0] == "r" and tok[-1] == "n":
        return tok[:-1]
    return tok


def dec_pop(tok):
    """token → (kind, payload, representation)"""
    if tok in ("u", "l", "h"):
        return (tok, None, None)
    if tok == "s":
        return ("s", [], "l")
    if tok[0] == "w":
        return ("w", dec_bytes(tok[1:]), "b")
    if tok[0] == "W":
        return ("w", dec_bytes(tok[1:]), "B")
    if tok[0] == "s":
        return ("s", [dec_bytes(t) for t in tok[1:].split(";")], "l")
    if tok[0] == "S" and len(tok) >= 2 and tok[1] in SEQ_KINDS:
        return ("s", [dec_bytes(t) for t in tok[2:].split(";")] if len(tok) > 2 else [], tok[1])
    raise ValueError(tok)


# ---------------------------------------------------------------------------------------
# the real code under a recording reactor

class _Reactor:
    def __init__(self):
        self.readers, self.writers = set(), set()

    def addReader(self, r):
        self.readers.add(r)

    def addWriter(self, w):
        self.writers.add(w)

    def removeReader(self, r):
        self.readers.discard(r)

    def removeWriter(self, w):
        self.writers.discard(w)


class _FD(abstract.FileDescriptor):
    def __init__(self, reactor, h):
        abstract.FileDescriptor.__init__(self, reactor)
        self.h = h

    def writeSomeData(self, data):
        return self.h.os_write(bytes(data))

    def _closeWriteConnection(self):
        self.h.half_closed()

    def connectionLost(self, reason):
        self.h.lost(reason)
        abstract.FileDescriptor.connectionLost(self, reason)

    def fileno(self):
        return 7


class _Bytes(bytes):
    """a bytes subclass (legal data for write)"""


class _Chunks:
    """a re-iterable collection of chunks that is neither a list nor a tuple"""

    def __init__(self, chunks):
        self._c = list(chunks)

    def __iter__(self):
        return iter(list(self._c))

    def __len__(self):
        return len(self._c)


class _Producer:
    def __init__(self, h, pid, spec):
        self.h, self.pid = h, pid
        self.q = {"R": [list(s) for s in spec.get("R", [])], "P": [list(s) for s in spec.get("P", [])]}

    def _cb(self, k):
        self.h.called(self.pid, k)
        q = self.q.get(k)
        if q:
            self.h.depth += 1
            try:
                for tok in q.pop(0):
                    self.h.transport_call(tok, nested=True)
            finally:
                self.h.depth -= 1

    def resumeProducing(self):
        self._cb("R")

    def pauseProducing(self):
        self._cb("P")

    def stopProducing(self):
        self._cb("S")


class _ProducerFalse(_Producer):
    """a producer whose truth value is false"""

    def __bool__(self):
        return False


class _ProducerEmpty(_Producer):
    """a queue-like producer: `len()` is the number of items it holds - none"""

    def __len__(self):
        return 0


def _make_producer(h, pid, spec):
    return (_Producer, _ProducerFalse, _ProducerEmpty)[spec.get("z", 0)](h, pid, spec)


class _Side:
    """A second transport of the same class on the same reactor (the bystander): only written to and flushed.  What
    it hands to its OS must be exactly what was written to IT."""

    def __init__(self, run):
        self.run = run
        self.fd = _FD(run.reactor, self)
        self.fd.SEND_LIMIT = run.case["sl"]
        self.fd.bufferSize = run.case["bs"]
        self.fd.connected = 1
        self.fd.startReading()
        self.acc = bytearray()
        self.sent = 0
        self.accept = "A"

    def os_write(self, data):
        exp = bytes(self.acc[self.sent:self.sent + len(data)])
        if data != exp:
            self.run.violation("bystander-offered-wrong-bytes",
                               f"another transport of the same class was offered {len(data)} bytes that are not the next pending "
                               f"bytes of ITS stream (position {self.sent}, {len(self.acc) - self.sent} pending): got "
                               f"{data[:24]!r}…, expected {exp[:24]!r}…")
        n = len(data) if self.accept == "A" else min(self.accept, len(data))
        self.sent += n
        return n

    def half_closed(self):
        self.run.violation("bystander-closed", "the bystander transport was half-closed")

    def lost(self, reason):
        self.run.violation("bystander-closed", "the bystander transport was closed")

    def op(self, tok):
        fd = self.fd
        if tok[0] == "d":
            if fd in self.run.reactor.writers:
                self.accept = "A" if tok == "dA" else int(tok[1:])
                fd.doWrite()
            return
        kind, arg, _ = dec_pop(tok)
        if kind == "w":
            self.acc += arg
            fd.write(arg)
        elif kind == "s":
            self.acc += b"".join(arg)
            fd.writeSequence(arg)

    def finish(self):
        for _ in range(64):
            if self.fd not in self.run.reactor.writers:
                break
            self.op("dA")
        if self.sent != len(self.acc):
            self.run.violation("bystander-not-delivered", f"{len(self.acc) - self.sent} of {len(self.acc)} bytes written to another "
                               "transport of the same class never reached its OS")


class _Run:
    """One history on the real code.  Keeps, independently of the transport's private state, what the property talks
    about: the bytes handed to `write*` while the connection was open, the bytes the OS took, who is registered."""

    def __init__(self, case):
        self.case = case
        self.reactor = _Reactor()
        self.fd = _FD(self.reactor, self)
        self.fd.SEND_LIMIT = case["sl"]
        self.fd.bufferSize = case["bs"]
        self.fd.connected = 1
        self.fd.startReading()
        self.prods = [_make_producer(self, i, p) for i, p in enumerate(case["prods"])]
        self.side = None
        self.depth = 0
        self.shared = {}            # nesting depth → the list object the caller passes to writeSequence again and again
        self.evs = []
        self.accept = None
        # oracle bookkeeping
        self.acc = bytearray()
        self.sent = 0
        self.open = True            # no half-close / connectionLost seen yet
        self.half = False
        self.is_lost = False
        self.abnormal = False       # lost for a reason other than a clean close
        self.lose_requested = False
        self.reg = None             # [pid, streaming, lastcall, registered after the write side was shut]
        self.bad = None
        self.flags = set()

    # -- callbacks from the fakes ----------------------------------------------------
    def violation(self, key, detail):
        if self.bad is None:
            self.bad = {"key": key, "detail": detail}

    def os_write(self, data):
        exp = bytes(self.acc[self.sent:self.sent + len(data)])
        if data != exp:
            self.violation("os-offered-wrong-bytes",
                           f"writeSomeData was offered {len(data)} bytes that are not the next pending bytes of the stream "
                           f"(stream position {self.sent}, {len(self.acc) - self.sent} pending): got {data[:24]!r}…, expected {exp[:24]!r}…")
        if len(data) < len(self.acc) - self.sent:
            self.flags.add("split")
        a = self.accept
        if a == "E":
            self.evs.append(f"o{len(data)}:{zlib.adler32(data)}>E")
            return error.ConnectionLost()
        n = len(data) if a == "A" else min(a, len(data))
        self.flags.add("os0" if n == 0 and data else "osall" if n == len(data) else "ospart")
        self.sent += n
        self.evs.append(f"o{len(data)}:{zlib.adler32(data)}>{n}")
        return n

    def half_closed(self):
        self.evs.append("H")
        if self.sent != len(self.acc):
            self.violation("half-closed-before-flush", f"write side shut with {len(self.acc) - self.sent} bytes pending")
        if self.reg and not self.reg[1]:
            self.violation("half-closed-with-pull-producer", "write side shut while a non-streaming producer is registered")
        self.open = False
        self.half = True

    def lost(self, reason):
        why = "done" if reason.type is error.ConnectionDone else "err" if reason.type is error.ConnectionLost else "ext"
        pending = len(self.acc) - self.sent
        self.evs.append(f"X{why}:{pending}")
        if why == "done":
            if pending:
                self.violation("closed-before-flush", f"connection closed with {pending} written bytes not handed to the OS")
            if not self.lose_requested:
                self.violation("closed-without-loseConnection", "doWrite closed the connection although loseConnection was never called")
            if self.reg and not self.reg[1] and not self.reg[3]:
                self.violation("closed-with-pull-producer", "connection closed while a non-streaming producer is registered "
                               "(one registered before the write side was shut)")
        else:
            self.abnormal = True
        self.open = False
        self.is_lost = True
        self.reg = None

    def called(self, pid, k):
        self.evs.append(f"p{pid}.{k}")
        if self.reg and self.reg[0] == pid:
            self.reg[2] = k

    # -- operations ------------------------------------------------------------------
    def _note_write(self, data):
        if self.open:
            self.acc += data

    def _container(self, chunks, rep):
        """the iterable handed to writeSequence, and what the caller does with it once the call has returned"""
        after = None
        if rep == "l":
            c = list(chunks)
        elif rep == "t":
            c = tuple(chunks)
        elif rep == "g":
            c = (x for x in chunks)
        elif rep == "i":
            c = iter(list(chunks))
        elif rep == "m":
            c = map(bytes, chunks)
        elif rep == "q":
            c = collections.deque(chunks)
        elif rep == "v":
            c = _Chunks(chunks)
        elif rep == "c":            # the caller empties its list afterwards
            c = list(chunks)
            after = c.clear
        elif rep == "j":            # the caller goes on using its list: overwrites an element, appends
            c = list(chunks)

            def after():
                if c:
                    c[0] = b"\xee-overwritten-later"
                c.append(b"\xff-appended-later")
        elif rep == "r":            # one list object, re-filled for every call (at this nesting depth)
            c = self.shared.setdefault(self.depth, [])
            c[:] = chunks
        else:
            raise ValueError(rep)
        return c, after

    def transport_call(self, tok, nested=False):
        fd = self.fd
        kind, arg, rep = dec_pop(tok)
        if kind == "w":
            self._note_write(arg)
            fd.write(_Bytes(arg) if rep == "B" else arg)
        elif kind == "s":
            self._note_write(b"".join(arg))
            c, after = self._container(arg, rep)
            fd.writeSequence(c)
            if after:
                after()
        elif kind == "u":
            self.reg = None
            fd.unregisterProducer()
        elif kind == "l":
            if not self.is_lost:
                self.lose_requested = True
            fd.loseConnection()
        elif kind == "h":
            fd.loseWriteConnection()

    def _producer(self, pid):
        while len(self.prods) <= pid:
            self.prods.append(_make_producer(self, len(self.prods), {}))
        return self.prods[pid]

    def _reactor_lost(self, why):
        self.reactor.removeReader(self.fd)
        self.reactor.removeWriter(self.fd)
        self.fd.connectionLost(failure.Failure(why))

    def top(self, tok):
        fd = self.fd
        c = tok[0]
        if c == "b":
            if self.side is None:
                self.side = _Side(self)
            self.side.op(tok[1:])
        elif c == "r":
            pid, st = tok[1:].split(":")
            as_int = st.endswith("n")          # registerProducer(p, 0) / (p, 1): "C{bool} or C{int}"
            pid, st = int(pid), st[0] == "1"
            was = self.reg
            if was is None and not self.is_lost:
                self.reg = [pid, st, None, self.half]
            try:
                fd.registerProducer(self._producer(pid), int(st) if as_int else st)
            except RuntimeError:
                self.evs.append("!RuntimeError")
                self.reg = was
        elif c == "p":
            fd.pauseProducing()
        elif c == "q":
            fd.resumeProducing()
        elif c == "d":
            if fd in self.reactor.writers:
                self.accept = "A" if tok == "dA" else "E" if tok == "dE" else int(tok[1:])
                why = fd.doWrite()
                if why is not None:
                    self._reactor_lost(why)
        elif c == "x":
            if not self.is_lost:
                self._reactor_lost(error.ConnectionAborted())
        elif c == "c":
            self.reg = None
            if not self.is_lost:
                self.lose_requested = True
            fd.stopConsuming()
        else:
            self.transport_call(tok)

    def quiescent_checks(self, tok):
        pending = len(self.acc) - self.sent
        if not self.is_lost and pending and self.fd not in self.reactor.writers:
            self.violation("stuck-data", f"after {tok!r}: {pending} bytes pending on a connected transport that is not in the writer set")
        if self.reg and self.reg[1] and not self.is_lost:
            if pending > self.case["bs"] and self.reg[2] != "P":
                self.violation("not-paused-over-buffer",
                               f"after {tok!r}: {pending} bytes buffered > bufferSize {self.case['bs']} with streaming producer "
                               f"{self.reg[0]} registered, last callback it got: {self.reg[2]}")
            if pending == 0 and self.reg[2] == "P":
                self.violation("not-resumed-when-drained",
                               f"after {tok!r}: buffer drained but streaming producer {self.reg[0]} was left paused")

    def state(self):
        fd = self.fd
        return "W%dR%dc%dd%d" % (fd in self.reactor.writers, fd in self.reactor.readers, bool(fd.connected), bool(fd.disconnecting))

    def run(self):
        out = []
        for tok in self.case["ops"]:
            self.evs = []
            self.top(tok)
            self.quiescent_checks(tok)
            if tok[0] == "b":
                continue                # an operation on the bystander is not an operation of this transport
            out.append((",".join(self.evs) if self.evs else "-") + "/" + self.state())
        line = " ".join(out)
        # oracle only: a fair reactor and a kernel that takes everything must now deliver the rest; what was accepted
        # up to now must have been handed over after at most max(1, pending) writability events
        target, budget = len(self.acc), max(1, len(self.acc) - self.sent)
        for i in range(64):
            if self.fd not in self.reactor.writers or self.is_lost:
                break
            self.evs = []
            self.top("dA")
            self.quiescent_checks("dA (drain)")
            if i + 1 == budget and self.sent < target and not self.abnormal:
                self.violation("delivery-too-slow", f"{target - self.sent} bytes still pending after {budget} writability "
                               f"events that each took everything offered ({budget} bytes were pending)")
        pending = len(self.acc) - self.sent
        if pending and not self.abnormal:
            self.violation("not-delivered", f"{pending} of {len(self.acc)} written bytes never reached the OS although every later write was accepted in full")
        if self.side is not None:
            self.side.finish()
        return line


_last = [None, None, None]


def _shared_state():
    """non-empty mutable containers kept on the transport CLASSES (anything put there is shared by every transport of the
    process and survives from one history to the next)"""
    found = []
    for cls in abstract.FileDescriptor.__mro__:
        if cls is object:
            continue
        for name, v in vars(cls).items():
            if isinstance(v, (list, dict, set, bytearray, collections.deque)) and len(v):
                found.append((cls, name, v))
    return found


def _exec(case):
    key = repr(case)
    r = _Run(case)
    _last[:] = [key, None, set()]
    try:
        line = r.run()
    finally:
        leaked = _shared_state()
        if leaked:
            r.violation("state-shared-between-transports",
                        "after the history, class-level (shared by all transports) mutable state is not empty: "
                        + ", ".join(f"{c.__name__}.{n} holds {len(v)} item(s)" for c, n, v in leaked))
            for _, _, v in leaked:      # containment: the next history starts from a clean class again
                v.clear()
        _last[1] = r.bad if r.bad else None
        _last[2] = r.flags
    return line


def run_impl(case):
    return _exec(case)


def model_line(case):
    """the history as it is: the driver decodes the representations itself (top-level writeSequence(<iterable>) and
    registerProducer(p, <flag>) are run by the Python-level functions of TwistedModel/Transport/FDPy.lean, those inside
    producer scripts are abstracted to their elements - TwistedProps.C14.applyPy_eq; `b…` operations act on another
    transport and are skipped by the driver: the model of THIS transport is not affected by them)"""
    def queue(q):
        return "|".join((",".join(s) if s else "-") for s in q) if q else "-"
    prods = "+".join(queue(p.get("R", [])) + "/" + queue(p.get("P", [])) for p in case["prods"]) if case["prods"] else "-"
    return f"{case['sl']} {case['bs']} {prods} " + " ".join(case["ops"])


def oracle(case, impl_out):
    if _last[0] != repr(case):
        try:
            _exec(case)
        except BaseException as e:   # noqa
            return {"key": "exception", "detail": f"history raised {type(e).__name__}: {e}"}
    if impl_out.startswith("!raised"):
        return {"key": "exception", "detail": f"history raised: {impl_out}"}
    return _last[1]


def _all_toks(case):
    for t in case["ops"]:
        yield t
    for p in case["prods"]:
        for k in ("R", "P"):
            for sc in p.get(k, []):
                for t in sc:
                    yield t


def tag(case, out):
    flags = _last[2] if _last[0] == repr(case) else set()
    kinds = set()
    for t in case["ops"]:
        kinds.add(("r" + t.split(":")[1]) if t[0] == "r"
                  else ("d" + ("A" if t == "dA" else "E" if t == "dE" else "0" if t == "d0" else "n")) if t[0] == "d"
                  else ("s0" if t == "s" else t[0]))
    reps = set()
    for t in _all_toks(case):
        if t[0] == "S":
            reps.add(t[1])
        elif t[0] == "W":
            reps.add("B")
    for p in case["prods"]:
        if p.get("z"):
            reps.add("z%d" % p["z"])
    evk = set()
    for step in out.split(" "):
        for e in step.split("/")[0].split(","):
            if e == "-" or not e:
                continue
            evk.add(e[2:] if e[0] == "p" else "o" if e[0] == "o" else e.split(":")[0])
    nested = any(s for p in case["prods"] for k in ("R", "P") for s in p.get(k, []))
    regime = "big" if case["sl"] > 1000 else "tiny"
    return (f"{regime}:{''.join(sorted(kinds))}:{''.join(sorted(reps))}:{','.join(sorted(evk))}:{','.join(sorted(flags))}:"
            f"{int(nested)}:{out[-8:]}")


# ---------------------------------------------------------------------------------------
# cases

def _case(sl, bs, prods, ops):
    return {"sl": sl, "bs": bs, "prods": prods, "ops": ops}


def corpus():
    return [
        _case(4, 4, [], ["w3:1", "d2", "dA"]),
        _case(4, 4, [], ["w3:1", "w9:2", "d1", "d0", "d2", "dA", "dA", "l", "dA"]),
        # SEND_LIMIT path: dataBuffer keeps >= SEND_LIMIT unsent, later writes stay in _tempDataBuffer
        _case(4, 100, [], ["w10:1", "d3", "w5:2", "d2", "d5", "w1:3", "dA", "dA", "dA"]),
        _case(4, 4, [], ["s3:1;0:1;2:2", "s", "s0:1", "dA", "dA"]),
        # streaming producer paused / resumed
        _case(8, 4, [{"R": [["w2:5"]], "P": [[]]}], ["r0:1", "w5:1", "d2", "dA", "dA", "u", "dA"]),
        # pull producer: resumed at registration and at every drain; loseConnection waits for it
        _case(8, 4, [{"R": [["w2:5"], ["w1:6"], ["u"]], "P": []}], ["r0:0", "l", "dA", "dA", "dA", "dA"]),
        # the witness found on the unrepaired tree: push producer registered on a full buffer was never paused
        _case(2, 0, [], ["w1:23", "r0:1"]),
        _case(8, 4, [{"R": [], "P": []}], ["w9:1", "r0:1", "d1", "dA"]),
        _case(8, 4, [{"R": [], "P": []}], ["r0:1", "r0:0", "u", "r0:0"]),
        # half close, then close
        _case(8, 4, [], ["w3:1", "h", "w2:2", "d1", "dA", "w4:3", "l", "w1:4", "dA"]),
        _case(8, 4, [], ["h", "dA", "h", "dA", "l", "h", "dA"]),
        # errors / drops
        _case(8, 4, [{"R": [], "P": []}], ["r0:1", "w6:1", "d2", "dE", "w1:1", "dA"]),
        _case(8, 4, [{"R": [["w3:1"]], "P": []}], ["r0:0", "x", "r0:1", "w1:1", "l", "h", "dA"]),
        # re-entrancy: pause callback writes again / unregisters / closes
        _case(8, 2, [{"R": [["w1:1", "l"]], "P": [["w3:9"], ["u", "l"]]}], ["r0:1", "w3:1", "d1", "dA", "dA", "dA"]),
        _case(131072, 65536, [{"R": [], "P": []}], ["r0:1", "w65536:1", "w1:2", "d1000", "w131072:3", "dA", "w70000:1", "d131071", "dA", "dA", "dA"]),
        _case(8, 4, [{"R": [], "P": []}], ["r0:0", "c", "dA"]),
        _case(8, 4, [], ["p", "q", "l", "q", "dA"]),
        # --- representations of the arguments (mutation audit M14) ---
        # the witness found on the unrepaired tree (25e023e^): writeSequence(<generator>) lost every byte
        _case(8, 4, [], ["Sg2:1;2:2", "dA"]),
        _case(8, 4, [], ["Si2:1;2:2", "w1:3", "Sm3:4", "d2", "dA", "Sg", "Sq1:1", "Sv2:2;0:1", "St1:5", "dA"]),
        # the caller goes on using the list it passed to writeSequence
        _case(8, 4, [], ["Sc2:1;2:2", "dA"]),
        _case(8, 4, [], ["Sj2:1", "w1:3", "dA"]),
        _case(8, 4, [], ["Sr2:1", "Sr3:2;1:3", "dA", "Sr1:4", "Sr", "dA"]),
        _case(8, 2, [{"R": [], "P": [["Sr1:7"], ["Sc2:8"]]}], ["r0:1", "Sr3:1", "d1", "Sr2:2", "dA", "dA"]),
        _case(8, 4, [], ["W3:1", "W0:1", "d1", "W9:2", "dA", "dA"]),
        # producers whose truth value is false; the streaming flag given as an int
        _case(8, 4, [{"R": [["w1:5"]], "P": [], "z": 2}], ["r0:0", "w2:1", "l", "dA", "dA", "u", "dA"]),
        _case(8, 4, [{"R": [], "P": [], "z": 1}], ["r0:1", "w6:1", "d2", "dA", "w5:2", "dA"]),
        _case(8, 4, [{"R": [["w1:5"]], "P": []}], ["r0:0n", "w2:1", "l", "dA", "dA", "u", "dA"]),
        _case(8, 4, [{"R": [], "P": [], "z": 2}], ["r0:1n", "w6:1", "d2", "dA", "u", "r0:0n", "l", "dA"]),
        # another transport of the same class is used in between
        _case(8, 4, [], ["w2:1", "bw2:2", "dA", "bdA"]),
        _case(4, 4, [{"R": [], "P": []}], ["bw9:2", "r0:1", "w3:1", "bd2", "w9:3", "d1", "bs1:4;2:5", "dA", "bdA", "dA", "dA"]),
    ]


def _payload(rng, regime):
    if regime == "tiny":
        return f"{rng.choice([0, 1, 1, 2, 3, 4, 5, 7, 8, 9, 15, 16, 17, 24])}:{rng.randrange(1, 50)}"
    n = rng.choice([1, 100, 65535, 65536, 65537, 131071, 131072, 131073, 4096, 200000, 1048576 if rng.random() < 0.3 else 300000])
    return f"{n}:{rng.choice([1, 2, 3])}"


def _write_tok(rng, regime):
    if rng.random() < 0.7:
        return ("W" if rng.random() < 0.12 else "w") + _payload(rng, regime)
    k = rng.choice([0, 1, 2, 3])
    body = ";".join(_payload(rng, regime if regime == "tiny" or k < 2 else "tiny") for _ in range(k))
    # the iterable: a list (plain), or one of the other representations (tuple, generator, iterator, map, deque, custom
    # collection, list emptied / overwritten afterwards, one list object used again and again)
    return ("s" if rng.random() < 0.4 else "S" + rng.choice(SEQ_KINDS)) + body


def _accept(rng, regime, sl):
    r = rng.random()
    if r < 0.3:
        return "dA"
    if r < 0.4:
        return "d0"
    if regime == "tiny":
        return "d" + str(rng.choice([1, 1, 2, 3, 4, 5, 8, 16]))
    return "d" + str(rng.choice([1, 1000, 65536, sl - 1, sl, sl + 1, 200000]))


def _script(rng, regime):
    out = []
    for _ in range(rng.choice([0, 1, 1, 2, 3])):
        r = rng.random()
        if r < 0.6:
            out.append(_write_tok(rng, regime))
        elif r < 0.75:
            out.append("u")
        elif r < 0.9:
            out.append("l")
        else:
            out.append("h")
    return out


def _gen(rng, regime):
    if regime == "tiny":
        sl = rng.choice([1, 2, 3, 4, 8, 16])
        bs = rng.choice([0, 1, 2, 4, 8, 16])
    else:
        sl, bs = 131072, 65536
    prods = []
    for _ in range(rng.choice([0, 1, 1, 2])):
        prods.append({"R": [_script(rng, regime) for _ in range(rng.choice([0, 1, 2, 3]))],
                      "P": [_script(rng, regime) for _ in range(rng.choice([0, 0, 1, 2]))]})
        z = rng.choice([0, 0, 0, 1, 2])        # truth value of the producer object: true / __bool__ False / __len__ 0
        if z:
            prods[-1]["z"] = z
    bystander = rng.random() < 0.25
    ops = []
    n = rng.randint(3, 30 if regime == "tiny" else 14)
    faults = rng.random() < 0.15
    for _ in range(n):
        r = rng.random()
        if r < 0.30:
            ops.append(_write_tok(rng, regime))
        elif r < 0.58:
            ops.append(_accept(rng, regime, sl))
        elif r < 0.70:
            ops.append(f"r{rng.randrange(0, max(1, len(prods)))}:{rng.choice([0, 1, 1])}{rng.choice(['', '', 'n'])}")
        elif r < 0.76:
            ops.append("u")
        elif r < 0.82:
            ops.append("l")
        elif r < 0.87:
            ops.append("h")
        elif r < 0.90:
            ops.append(rng.choice(["p", "q"]))
        elif r < 0.92:
            ops.append("c")
        elif faults and r < 0.96:
            ops.append(rng.choice(["dE", "x"]))
        else:
            ops.append(_accept(rng, regime, sl))
        if bystander and rng.random() < 0.2:
            ops.append("b" + (_accept(rng, regime, sl) if rng.random() < 0.4 else norm_tok(_write_tok(rng, regime))))
    if rng.random() < 0.7:
        ops += ["dA"] * rng.choice([1, 2, 4])
    return _case(sl, bs, prods, ops)


def generate(rng, tier):
    n_tiny, n_big = (3000, 25) if tier == "quick" else (60000, 400)
    for i in range(n_tiny):
        yield _gen(rng, "tiny")
    for i in range(n_big):
        yield _gen(rng, "big")


def search(rng, tier, disagreeing):
    """Property-directed: for the disagreeing cases and the corpus, every position at which a producer is
    registered (streaming / not) or the connection is closed / half-closed, and every OS answer 0..offered for each
    writability event; then fresh random histories."""
    seeds = list(disagreeing)[:20] + corpus()
    for c in seeds:
        ops = c["ops"]
        if c["sl"] > 1000:
            continue
        prods = c["prods"] or [{"R": [], "P": []}]
        for i in range(len(ops) + 1):
            for ins in ("r0:1", "r0:0", "l", "h", "u", "d0", "d1", "dA"):
                yield _case(c["sl"], c["bs"], prods, ops[:i] + [ins] + ops[i:])
        for i, t in enumerate(ops):
            if t[0] == "d":
                for k in range(0, 18):
                    yield _case(c["sl"], c["bs"], prods, ops[:i] + [f"d{k}"] + ops[i + 1:])
    for _ in range(4000 if tier == "quick" else 40000):
        yield _gen(rng, "tiny")


def shrink(c):
    ops, prods = c["ops"], c["prods"]
    # a failure that does not depend on how the arguments are represented is best shown on plain ones
    plain_ops = [norm_tok(t) for t in ops if t[0] != "b"]
    plain_prods = [{k: [[norm_tok(t) for t in sc] for sc in p.get(k, [])] for k in ("R", "P")} for p in prods]
    if plain_ops != ops or plain_prods != prods:
        yield _case(c["sl"], c["bs"], plain_prods, plain_ops)
        yield _case(c["sl"], c["bs"], prods, plain_ops)
        yield _case(c["sl"], c["bs"], plain_prods, ops)
    for i in range(len(ops)):
        yield _case(c["sl"], c["bs"], prods, ops[:i] + ops[i + 1:])
    for i in range(len(prods)):
        p = prods[i]
        for k in ("R", "P"):
            q = p.get(k, [])
            for j in range(len(q)):
                if q[j]:
                    for m in range(len(q[j])):
                        nq = q[:j] + [q[j][:m] + q[j][m + 1:]] + q[j + 1:]
                        yield _case(c["sl"], c["bs"], prods[:i] + [dict(p, **{k: nq})] + prods[i + 1:], ops)
            if q:
                yield _case(c["sl"], c["bs"], prods[:i] + [dict(p, **{k: q[:-1]})] + prods[i + 1:], ops)
    for i, t in enumerate(ops):
        if t[0] in "wW" and ":" in t:
            l, sd = t[1:].split(":")
            l = int(l)
            for nl in {l // 2, l - 1}:
                if 0 <= nl < l:
                    yield _case(c["sl"], c["bs"], prods, ops[:i] + [f"{t[0]}{nl}:{sd}"] + ops[i + 1:])
        if norm_tok(t) != t:
            yield _case(c["sl"], c["bs"], prods, ops[:i] + [norm_tok(t)] + ops[i + 1:])
        if t[0] == "d" and t[1:].isdigit() and int(t[1:]) > 0:
            yield _case(c["sl"], c["bs"], prods, ops[:i] + [f"d{int(t[1:]) // 2}"] + ops[i + 1:])
