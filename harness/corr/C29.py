"""C29 — HTTP/2 server flow control: real twisted.web._http2.H2Connection/H2Stream (driven by a real h2
client state machine, task.Clock as reactor, harness/shims/priority.py as the priority tree) vs the Lean
model TwistedModel/Http/H2Flow.lean, plus the property oracle evaluated on the frames the server wrote."""
import os
import re
import sys
import zlib

_SHIMS = os.path.join(os.path.dirname(os.path.dirname(os.path.abspath(__file__))), "shims")
try:
    import priority  # noqa: F401  (the real wheel, if it is ever installed)
except ImportError:
    sys.path.insert(0, _SHIMS)
    import priority  # noqa: F401

import h2.config
import h2.connection
import h2.exceptions
import h2.settings

from twisted.internet import task
from twisted.internet.interfaces import IPushProducer
from twisted.internet.testing import StringTransport
from twisted.web import http
from twisted.web._http2 import H2Connection
from zope.interface import implementer

HEADLINE = "TwistedProps.C29.frames_fit / never_exceeds_windows / delivered_in_order / no_stall / stream_body_complete_in_order"
RULE = ("histories over 1..4 concurrent streams of ops {open stream, Request.write, push-producer write (only while "
        "not paused), register/unregister producer, finish, peer WINDOW_UPDATE (stream / connection), peer SETTINGS "
        "INITIAL_WINDOW_SIZE (up and down, incl. below the bytes already sent => negative windows) and MAX_FRAME_SIZE, "
        "single send-loop iterations with an arbitrary scheduler choice, bounded runs of the loop}; small windows "
        "(0..60) so that every write meets the window edge, chunks around MAX_FRAME_SIZE (16384) for the frame split; "
        "every history ends with a settle phase (transport resumed, windows opened by WINDOW_UPDATE or by SETTINGS, "
        "loop run, all streams finished, loop run).  A second batch (500 quick / 8000 thorough cases) uses one or two "
        "of four further op classes: tp/tr = the transport pauses / resumes the connection (H2Connection."
        "pauseProducing/resumeProducing; writes — incl. the first of a response, whose HEADERS are then buffered — "
        "loop iterations, window updates and finishes happen while it is paused); areg = a RE-ENTRANT push producer "
        "that writes from inside resumeProducing() until paused, and unregisters + finishes the request from inside "
        "that callback when it is resumed with nothing left (plans that fill the window exactly in half of them, "
        "followed by loop runs and a stream / connection WINDOW_UPDATE or SETTINGS); ws = H2Stream.writeSequence with "
        "a list / tuple / iterator / generator of chunks, empty chunks included; prio = peer PRIORITY frames for open "
        "and for idle streams (before their HEADERS).  Model-compared: the basic language, ws without empty chunks "
        "(= that many writes), prio on open streams (= nothing); oracle-only: tp/tr, areg, ws with an empty chunk, "
        "prio on an idle stream.  distinct = (op kinds used, #streams, negative window seen, producer paused/"
        "resumed, frame split seen, loop parked/spinning/behind the transport, re-entrant write/finish, empty chunk, "
        "one-shot iterable, outcome)")
ASSUMES = [
    "the transport pauses the connection at most once before it resumes it (pauseProducing twice in a row replaces "
    "the Deferred the loop waits on; IPushProducer consumers do not do that); the Lean model does not contain the "
    "transport: histories with tp/tr are judged by the oracle only",
    "producers are push producers that stop writing while paused (either driven from outside, or re-entrant: "
    "writing / finishing from inside resumeProducing — oracle-only, not in the Lean model); pull producers "
    "(_PullToPush uses the global cooperator) are not driven",
    "the peer obeys RFC 7540: windows stay <= 2^31-1, MAX_FRAME_SIZE in [16384, 2^24-1], no RST_STREAM/GOAWAY, "
    "WINDOW_UPDATE only on streams it still has open; PRIORITY frames are sent (open and idle streams) but the "
    "stand-in priority tree is flat: weights and dependencies do not influence the schedule",
    "no write after finish; request bodies are empty (GET, END_STREAM on HEADERS)",
    "stream_body_complete_in_order (termination) is stated for states in which every stream's queued bytes fit its "
    "stream window and the connection window covers their sum, and for a run of more than Σ(queued bytes + queued "
    "chunks) loop iterations with no other event in between; against a shut window the loop neither sends nor parks "
    "(it reschedules itself each reactor turn) — resumption after WINDOW_UPDATE is no_stall / blocked_stream_resumes",
]
TRUSTED = [
    "harness/shims/priority.py replaces the absent `priority` wheel (flat tree, steerable choice); the theorems hold for "
    "every choice sequence, the real library's weighted choice is one of them",
    "h2 (installed) does the server-side window accounting that _http2.py reads (local_flow_control_window, "
    "max_outbound_frame_size) and refuses oversize send_data with FlowControlError; the model transcribes that contract",
    "the re-entrant producer's own log lines (W<sid>:<start>:<n> before each write, F<sid> before finish) tell the "
    "oracle what the application wrote and when",
]
MANIFEST = {
    "text": "Lean theorems (TwistedProps/C29.lean) over the executable model of H2Connection._sendPrioritisedData/"
            "writeDataToStream/endRequest/_handleWindowUpdate + H2Stream.windowUpdated/flowControlBlocked for every "
            "history of writes, WINDOW_UPDATE/SETTINGS frames and scheduler choices: frames never exceed the windows, the "
            "loop never dies, written = sent ++ queued, open-window streams are schedulable with an iteration pending, and "
            "(termination, any scheduler, no fairness assumption) once the windows cover what is queued, more than "
            "Σ(queued bytes + chunks) iterations end parked with all queues empty, each stream's DATA frames on the wire "
            "concatenating to exactly its queued bytes and END_STREAM sent iff finished; model tied on every run to the "
            "real H2Connection driven by a real h2 client with task.Clock.  The frame-level oracle (windows, max frame "
            "size, in-order bodies, END_STREAM last, no stalled stream, no producer left paused with room in the window, "
            "loop alive, peer accepts every frame, everything delivered after the settle phase) additionally judges "
            "histories outside the model: transport pause/resume, re-entrant producers, writeSequence with empty "
            "chunks / one-shot iterables, peer PRIORITY frames.",
    "note": "partial by nature: h2's accounting and the priority shim are trusted; transport back-pressure, re-entrant "
            "producers and PRIORITY on idle streams are checked by the oracle on the real code but are outside the Lean "
            "model; pull producers are not driven",
    "technique": "Lean 4 proof (invariants by induction over histories; decreasing measure for termination) + "
                 "differential tie + frame-level oracle",
    "design_ref": "DESIGN.md §7.4 C29",
}

INITIAL_WINDOW = 65535
DEFAULT_MFS = 16384
MAX_WINDOW = 2**31 - 1


# ----------------------------------------------------------------------------------------
# data: chunk (start, n) stands for the bytes (start + i) % 251, i < n

_PAT = bytes(range(251)) * 300


def chunk_bytes(start, n):
    return _PAT[start % 251:start % 251 + n]


def digest(b):
    return zlib.adler32(b)


# ----------------------------------------------------------------------------------------
# running the real code

@implementer(IPushProducer)
class _Producer:
    done = False

    def __init__(self, log, sid):
        self.log, self.sid, self.paused, self.stopped = log, sid, False, False

    def pauseProducing(self):
        self.paused = True
        self.log.append("P%d" % self.sid)

    def resumeProducing(self):
        self.paused = False
        self.log.append("R%d" % self.sid)

    def stopProducing(self):
        self.stopped = True
        self.log.append("S%d" % self.sid)


@implementer(IPushProducer)
class _AutoProducer:
    """A push producer that behaves like the real ones: it writes from inside resumeProducing() (re-entrantly,
    while H2Stream.windowUpdated / _windowsChanged / _handleWindowUpdate are on the stack) until it is paused or its
    plan is exhausted; when it is resumed (or started) with nothing left it unregisters itself and, if `fin`,
    finishes the request — still inside the callback.  What it does is logged (`W<sid>:<start>:<n>` before each
    write, `F<sid>` before finish) so that the oracle can account for it in order with the frames."""

    def __init__(self, world, sid, plan, fin):
        self.w, self.log, self.sid, self.plan, self.fin = world, world.log, sid, [list(x) for x in plan], fin
        self.paused, self.stopped, self.done = False, False, False

    def pauseProducing(self):
        self.paused = True
        self.log.append("P%d" % self.sid)

    def resumeProducing(self):
        self.paused = False
        self.log.append("R%d" % self.sid)
        self.pump()

    def stopProducing(self):
        self.stopped = True
        self.log.append("S%d" % self.sid)

    def pump(self):
        req = self.w.requests[self.sid]
        while not (self.paused or self.stopped or self.done) and self.plan:
            start, n = self.plan.pop(0)
            self.log.append("W%d:%d:%d" % (self.sid, start, n))
            req.write(chunk_bytes(start, n))
        if not (self.paused or self.stopped or self.done) and not self.plan:
            self.done = True
            req.unregisterProducer()
            if self.w.producers.get(self.sid) is self:
                del self.w.producers[self.sid]
            if self.fin:
                self.log.append("F%d" % self.sid)
                req.finish()


class _Request(http.Request):
    """The real Request; the application (the case's ops) writes to it from outside."""

    registry = None

    def process(self):
        pass

    def requestReceived(self, command, path, version):
        http.Request.requestReceived(self, command, path, version)
        type(self).registry[self.channel.streamID] = self


class _Transport(StringTransport):
    """Parses what the server writes into frames as it is written (order relative to producer calls is kept)."""

    def __init__(self, world):
        StringTransport.__init__(self)
        self.world = world
        self.buf = b""

    def write(self, data):
        self.buf += data
        while len(self.buf) >= 9:
            n = int.from_bytes(self.buf[0:3], "big")
            if len(self.buf) < 9 + n:
                break
            typ, flags = self.buf[3], self.buf[4]
            sid = int.from_bytes(self.buf[5:9], "big") & 0x7FFFFFFF
            body = self.buf[9:9 + n]
            self.world.raw.append((self.buf[:9 + n], sid if (typ == 0 and n == 0 and flags & 0x1) else 0))
            self.buf = self.buf[9 + n:]
            if typ == 0:  # DATA
                if flags & 0x8:
                    pad = body[0]
                    payload = body[1:len(body) - pad]
                else:
                    payload = body
                self.world.frame(sid, n, payload, bool(flags & 0x1))
            elif typ == 1 and flags & 0x1:  # HEADERS with END_STREAM
                self.world.frame(sid, 0, b"", True)


class World:
    def __init__(self):
        self.clock = task.Clock()
        self.log = []
        self.raw = []
        self.frames = []  # (sid, flow-controlled length, payload, end) in wire order, over the whole run
        self.requests = {}
        self.producers = {}
        self.dead = None
        self.client_error = None
        self.tpaused = False
        reqcls = type("_Req", (_Request,), {"registry": self.requests})
        self.server = H2Connection(reactor=self.clock)
        self.server.requestFactory = reqcls
        self.server.site = None
        self.server.factory = None
        self.server.timeOut = None
        self.server.priority._pick = 0
        inner = self.server._sendPrioritisedData

        def iteration(*a):
            # an exception escaping the loop is logged by the reactor / the waking Deferred and nothing reschedules
            # the loop; record it where it happens
            try:
                inner(*a)
            except Exception as e:
                self.dead = type(e).__name__
                self.log.append("X" + self.dead)

        self.iteration = iteration
        self.server._sendPrioritisedData = iteration
        for call in self.clock.calls:
            call.func = iteration
        self.transport = _Transport(self)
        self.client = h2.connection.H2Connection(
            config=h2.config.H2Configuration(client_side=True, header_encoding=None))
        self.client.initiate_connection()
        self.server.makeConnection(self.transport)
        self.flush()

    def frame(self, sid, fclen, payload, end):
        self.frames.append((sid, fclen, payload, end))
        if fclen or payload or not end:
            self.log.append("D%d:%d:%d" % (sid, len(payload), digest(payload)))
        if end:
            self.log.append("E%d" % sid)

    def flush(self):
        """client -> server, then server's answer -> client (the peer's own h2 state machine judges it)."""
        out = self.client.data_to_send()
        if out:
            self.server.dataReceived(out)
        self.feed_client()

    def feed_client(self):
        frames, self.raw = self.raw, []
        for data, empty_end_sid in frames:
            if self.client_error is not None:
                break
            if empty_end_sid:
                # h2 quirk (not Twisted's): its receiver raises FlowControlError for a zero-length END_STREAM DATA
                # frame while the stream's window is negative; RFC 7540 6.9.1 allows that frame.  The stream is
                # closing, so lifting its window to 0 first changes nothing else.
                st = self.client.streams.get(empty_end_sid)
                if st is not None and st._inbound_window_manager.current_window_size < 0:
                    st._inbound_window_manager.current_window_size = 0
            try:
                self.client.receive_data(data)
            except h2.exceptions.ProtocolError as e:
                self.client_error = type(e).__name__

    def run_one(self, pick):
        """One pending reactor call = one iteration of _sendPrioritisedData."""
        clock = self.clock
        if not clock.calls:
            return False
        clock._sortCalls()
        call = clock.calls.pop(0)
        call.called = 1
        self.server.priority._pick = pick
        try:
            call.func(*call.args, **call.kw)
        finally:
            self.server.priority._pick = 0
        self.feed_client()
        return True

    def client_open(self, sid):
        st = self.client.streams.get(sid)
        return st is not None and not st.closed

    def state(self):
        s = self.server
        if s._sendingDeferred is not None:
            loop = "p"
        elif self.clock.calls:
            loop = "s"
        elif s._consumerBlocked is not None and any(cb[0][0] is self.iteration for cb in s._consumerBlocked.callbacks):
            loop = "w"      # waiting behind the paused transport: resumeProducing() runs the next iteration
        else:
            loop = "d"
        parts = []
        for sid in s.streams:
            q = s._outboundStreamQueues[sid]
            nbytes = sum(len(c) for c in q if isinstance(c, bytes))
            end = any(not isinstance(c, bytes) for c in q)
            st = s.streams[sid]
            win = s.conn._get_stream_by_id(sid).outbound_flow_control_window
            parts.append("%d%s%d%sw%d%s" % (sid, "a" if s.priority._active.get(sid) else "b", nbytes,
                                            "e" if end else "", win,
                                            "" if not st.producer else ("+" if st._producerProducing else "-")))
        return "%sc%dm%d[%s]%s" % (loop, s.conn.outbound_flow_control_window, s.conn.max_outbound_frame_size,
                                   ",".join(parts), "T" if s._consumerBlocked is not None else "")


def _apply(w, op):
    """Returns False when the op is not applicable in the current state (skipped, printed as '~')."""
    k = op[0]
    if w.client_error is not None and k in ("req", "wu", "iws", "mfs", "prio"):
        return False        # the peer has already refused the server's frames and closed (reported by the oracle)
    if k == "req":
        sid = op[1]
        if sid % 2 == 0 or sid in w.client.streams or sid <= w.client.highest_outbound_stream_id:
            return False
        w.client.send_headers(sid, [(b":method", b"GET"), (b":path", b"/"), (b":scheme", b"https"),
                                    (b":authority", b"x")], end_stream=True)
        w.flush()
        return True
    if k in ("w", "pw", "reg", "unreg", "fin", "areg", "ws"):
        sid = op[1]
        req = w.requests.get(sid)
        if req is None or req.finished:
            return False
        if k == "w":
            if op[3] == 0:
                return False
            req.write(chunk_bytes(op[2], op[3]))
        elif k == "pw":
            p = w.producers.get(sid)
            if p is None or isinstance(p, _AutoProducer) or p.paused or p.stopped or op[3] == 0:
                return False
            req.write(chunk_bytes(op[2], op[3]))
        elif k == "reg":
            if sid in w.producers:
                return False
            p = w.producers[sid] = _Producer(w.log, sid)
            req.registerProducer(p, True)
        elif k == "areg":
            if sid in w.producers:
                return False
            p = w.producers[sid] = _AutoProducer(w, sid, op[2], bool(op[3]))
            req.registerProducer(p, True)
            p.pump()        # a push producer starts producing by itself
        elif k == "ws":
            if not req.startedWriting:
                req.write(b"")      # response HEADERS (Request.write passes no empty data to the channel)
            chunks = [chunk_bytes(a, n) for a, n in op[3]]
            seq = {"list": lambda: chunks, "tuple": lambda: tuple(chunks), "iter": lambda: iter(chunks),
                   "gen": lambda: (c for c in chunks)}[op[2]]()
            req.channel.writeSequence(seq)
        elif k == "unreg":
            if sid not in w.producers:
                return False
            req.unregisterProducer()
            w.producers.pop(sid).done = True
        else:
            if sid in w.producers:
                req.unregisterProducer()
                w.producers.pop(sid).done = True
            req.finish()
        w.feed_client()
        return True
    if k == "wu":
        sid, n = op[1], op[2]
        if n <= 0:
            return False
        if sid and not w.client_open(sid):
            return False
        try:
            w.client.increment_flow_control_window(n, sid or None)
        except h2.exceptions.ProtocolError:
            return False
        w.flush()
        return True
    if k == "iws":
        if not 0 <= op[1] <= MAX_WINDOW:
            return False
        w.client.update_settings({h2.settings.SettingCodes.INITIAL_WINDOW_SIZE: op[1]})
        w.flush()
        return True
    if k == "mfs":
        if not 16384 <= op[1] <= 16777215:
            return False
        w.client.update_settings({h2.settings.SettingCodes.MAX_FRAME_SIZE: op[1]})
        w.flush()
        return True
    if k == "tp":
        if w.server._consumerBlocked is not None:
            return False
        w.server.pauseProducing()
        return True
    if k == "tr":
        if w.server._consumerBlocked is None:
            return False
        w.server.resumeProducing()
        w.feed_client()
        return True
    if k == "prio":
        sid, weight, dep, excl = op[1:5]
        if sid % 2 == 0 or dep == sid or not 1 <= weight <= 256:
            return False
        if sid in w.client.streams and not w.client_open(sid):
            return False
        if sid not in w.client.streams and sid <= w.client.highest_outbound_stream_id:
            return False
        try:
            w.client.prioritize(sid, weight=weight, depends_on=dep, exclusive=bool(excl))
        except h2.exceptions.ProtocolError:
            return False
        w.flush()
        return True
    if k == "tick":
        return w.run_one(op[1])
    if k == "run":
        did = False
        for i in range(op[1]):
            if not w.run_one(i):
                break
            did = True
        return did
    raise ValueError(k)


def run_impl(c):
    w = World()
    segs = []
    for op in c["ops"]:
        w.log.clear()
        ok = _apply(w, op)
        segs.append(("" if ok else "~") + ".".join(w.log) + ";" + w.state())
    tail = ""
    if w.client_error:
        tail = "|client:" + w.client_error
    return "|".join(segs) + tail


# ----------------------------------------------------------------------------------------
# the model side

def _tok(op):
    k = op[0]
    return {"req": "req", "w": "w", "pw": "pw", "reg": "reg", "unreg": "unreg", "fin": "fin", "wu": "wu",
            "iws": "iws", "mfs": "mfs", "tick": "tick", "run": "run"}[k] + "".join(":%d" % x for x in op[1:])


def _model_tokens(c):
    """Per op: the model tokens it stands for, or None when the case has no model counterpart (oracle-only).
      ws (H2Stream.writeSequence) of non-empty chunks = that many writes (`for chunk in iovec: self.write(chunk)`);
        with an empty chunk the channel queues b"" — Request.write never does, the model's `write` op skips it;
      prio (peer PRIORITY) on a stream that is already open = nothing (the flat priority tree ignores weights and
        dependencies); on an idle stream it changes the tree's insertion order, which is the model's scheduler order;
      tp / tr (transport back-pressure) and areg (re-entrant producer) are outside the model."""
    opened, out = set(), []
    for op in c["ops"]:
        k = op[0]
        if k in ("tp", "tr", "areg"):
            return None
        if k == "ws":
            if any(n == 0 for _, n in op[3]):
                return None
            out.append(["w:%d:%d:%d" % (op[1], a, n) for a, n in op[3]])
        elif k == "prio":
            if op[1] not in opened:
                return None
            out.append([])
        else:
            if k == "req":
                opened.add(op[1])
            out.append([_tok(op)])
    return out


def model_line(c):
    toks = _model_tokens(c)
    if toks is None or not any(toks):
        return None
    return " ".join(t for ts in toks for t in ts)


# ----------------------------------------------------------------------------------------
# the property, evaluated on what the server wrote (independent of the model)

_PART = re.compile(r"^(\d+)([ab])(\d+)(e?)w(-?\d+)([+-]?)$")


def _parse_seg(seg):
    """→ skipped, events, loop letter, {sid: 'a'|'b'}, {sid: '+'|'-'|''} (producer producing / paused / none)"""
    skipped = seg.startswith("~")
    evs, _, state = seg.lstrip("~").partition(";")
    flags, prods = {}, {}
    inner = state[state.index("[") + 1:state.rindex("]")] if "[" in state else ""
    for part in filter(None, inner.split(",")):
        m = _PART.match(part)
        flags[int(m.group(1))] = m.group(2)
        prods[int(m.group(1))] = m.group(6)
    return skipped, [e for e in evs.split(".") if e], state[:1], flags, prods


def oracle(c, out):
    if out.startswith("!"):
        return {"key": "raises", "detail": out}
    segs = out.split("|")
    ops = c["ops"]
    client = None
    if len(segs) > len(ops):
        client = segs[len(ops)]
        segs = segs[:len(ops)]
    conn, iws, mfs = INITIAL_WINDOW, INITIAL_WINDOW, DEFAULT_MFS
    wins, written, delivered, finished, ended = {}, {}, {}, set(), set()
    nchunks = {}        # per stream: an upper bound of the number of queued chunks (END_STREAM marker included)
    empties = set()     # streams that had an empty chunk queued (writeSequence): nchunks is never reset for them
    tpaused = False     # the transport has paused the connection (H2Connection.pauseProducing)
    loop = "s"
    for i, (op, seg) in enumerate(zip(ops, segs)):
        skipped, evs, loop, flags, prods = _parse_seg(seg)
        where = "op %d %r" % (i, op)
        must_drain = None
        if not skipped:
            k = op[0]
            if k == "req":
                wins[op[1]], written[op[1]], delivered[op[1]] = iws, b"", b""
                nchunks[op[1]] = 0
            elif k in ("w", "pw"):
                written[op[1]] += chunk_bytes(op[2], op[3])
                nchunks[op[1]] += 1
            elif k == "ws":
                for a, n in op[3]:
                    written[op[1]] += chunk_bytes(a, n)
                    nchunks[op[1]] += 1
                    if n == 0:
                        empties.add(op[1])
            elif k == "fin":
                finished.add(op[1])
                nchunks[op[1]] += 1
            elif k == "tp":
                tpaused = True
            elif k == "tr":
                tpaused = False
            elif k == "run":
                # termination (TwistedProps.C29.stream_body_complete_in_order, evaluated on the implementation with
                # the oracle's own accounting): every queue fits its stream window, the connection window covers
                # the sum, and the run is longer than Σ(queued bytes + queued chunks)  ⇒  it ends parked, drained.
                live = [sid for sid in wins if sid not in ended]
                pend = {sid: len(written[sid]) - len(delivered[sid]) for sid in live}
                if (not tpaused and all(pend[sid] <= wins[sid] for sid in live) and sum(pend.values()) <= conn
                        and op[1] > sum(pend[sid] + nchunks[sid] for sid in live)):
                    must_drain = sum(pend[sid] + nchunks[sid] for sid in live)
            elif k == "wu":
                if op[1]:
                    wins[op[1]] += op[2]
                else:
                    conn += op[2]
            elif k == "iws":
                for sid in wins:
                    if sid not in ended:
                        wins[sid] += op[1] - iws
                iws = op[1]
            elif k == "mfs":
                mfs = op[1]
        for e in evs:
            if e[0] == "X":
                return {"key": "send-loop-died", "detail": "%s: %s escaped _sendPrioritisedData; the loop is never "
                        "rescheduled, queued data of every stream is stuck" % (where, e[1:])}
            if e[0] == "W":     # a re-entrant producer wrote (logged by the producer itself, before the call)
                sid, a, n = (int(x) for x in e[1:].split(":"))
                written[sid] += chunk_bytes(a, n)
                nchunks[sid] += 1
            elif e[0] == "F":   # … finished the request
                finished.add(int(e[1:]))
                nchunks[int(e[1:])] += 1
            elif e[0] == "D":
                sid, n, dg = (int(x) for x in e[1:].split(":"))
                if sid not in wins or sid in ended:
                    return {"key": "data-on-closed-stream", "detail": "%s: %s" % (where, e)}
                if n > mfs:
                    return {"key": "exceeds-max-frame-size", "detail": "%s: DATA of %d > %d" % (where, n, mfs)}
                if n > conn or n > wins[sid]:
                    return {"key": "exceeds-window", "detail": "%s: DATA of %d on stream %d, connection window %d, "
                            "stream window %d" % (where, n, sid, conn, wins[sid])}
                exp = written[sid][len(delivered[sid]):len(delivered[sid]) + n]
                if len(exp) != n or digest(exp) != dg:
                    return {"key": "body-corrupt", "detail": "%s: %s is not the next %d bytes of stream %d" % (where, e, n, sid)}
                delivered[sid] += exp
                conn -= n
                wins[sid] -= n
                if delivered[sid] == written[sid] and sid not in empties:
                    nchunks[sid] = 1 if sid in finished else 0
            elif e[0] == "E":
                sid = int(e[1:])
                if sid not in finished or delivered.get(sid) != written.get(sid) or sid in ended:
                    return {"key": "end-before-complete", "detail": "%s: END_STREAM on %d after %d of %d bytes" % (
                        where, sid, len(delivered.get(sid, b"")), len(written.get(sid, b"")))}
                ended.add(sid)
        if loop == "d":
            return {"key": "send-loop-died", "detail": "%s: no iteration of the send loop is pending and it is not parked" % where}
        if loop == "w" and not tpaused:
            return {"key": "send-loop-died", "detail": "%s: the send loop waits behind a transport that is not paused; "
                    "nothing will run it again" % where}
        if must_drain is not None:
            left = [sid for sid in wins if sid not in ended and (sid in finished or delivered[sid] != written[sid])]
            if left or loop != "p":
                return {"key": "not-drained-within-bound", "detail": "%s: the queues fitted the windows and the run is "
                        "longer than the backlog bound %d, but afterwards the loop is %s and streams %r are not "
                        "complete" % (where, must_drain, {"p": "parked", "s": "still scheduled"}.get(loop, loop), left)}
            _DRAIN_CHECKS[0] += 1
        # "streams blocked on flow control resume when the window opens": no stream with something to send and an
        # open window may be left with the send loop idle, or blocked in the priority tree; and a producer that was
        # paused (by flow control: nothing else pauses it) may not stay paused while its stream has room beyond
        # what is queued.  (While the transport is paused the loop waits behind it — 'w' — that is not a stall.)
        for sid in wins:
            if sid in ended:
                continue
            pending = len(written[sid]) - len(delivered[sid])
            open_ = min(conn, wins[sid]) > 0
            if (pending and open_) or (not pending and sid in finished):
                what = "%d bytes pending, windows conn=%d stream=%d" % (pending, conn, wins[sid]) if pending else "END_STREAM pending"
                if loop == "p":
                    return {"key": "stalled-send-loop-idle", "detail": "%s: stream %d: %s, but the send loop is %s" % (
                        where, sid, what, "parked" if loop == "p" else "dead")}
                if flags.get(sid) != "a":
                    return {"key": "stalled-blocked-in-priority", "detail": "%s: stream %d: %s, but it is blocked in "
                            "the priority tree" % (where, sid, what)}
            if prods.get(sid) == "-" and min(conn, wins[sid]) - pending > 0:
                return {"key": "producer-not-resumed", "detail": "%s: stream %d: its producer is paused although the "
                        "windows (conn=%d stream=%d) leave %d bytes of room beyond the %d queued" % (
                            where, sid, conn, wins[sid], min(conn, wins[sid]) - pending, pending)}
    if client:
        return {"key": "peer-rejected", "detail": "the h2 client refused the server's frames: " + client}
    if c.get("settle"):
        left = [sid for sid in wins if sid not in ended]
        if left or loop != "p":
            return {"key": "incomplete-after-settle", "detail": "streams %r not ended / loop %s after the settle phase" % (left, loop)}
    return None


# ----------------------------------------------------------------------------------------
# cases

SIDS = [1, 3, 5, 7]
_DRAIN_CHECKS = [0]     # how often the oracle's termination clause applied (debugging aid)
BIG = 1 << 20


def _settle(rng, sids, nwrites, variant=None, drain=0, tr=False, big=BIG):
    """Open every window (by WINDOW_UPDATE or by SETTINGS), run the loop, finish everything, run the loop.
    `big`: the window opened (at least every byte ever written, so that nothing stays blocked).
    `drain`: a lower bound for the length of the runs (the bound of stream_body_complete_in_order: queued bytes +
    queued chunks + 1; the runs stop as soon as the loop parks, so a large bound costs nothing)."""
    n = max(3 * nwrites + 6 * len(sids) + 12, drain)
    v = rng.randrange(3) if variant is None else variant
    ops = [["tr"]] if tr else []
    if v == 0:
        ops += [["wu", 0, big]] + [["wu", s, big] for s in sids] + [["run", n]] + [["fin", s] for s in sids] + [["run", n]]
    elif v == 1:
        ops += [["iws", big], ["wu", 0, big], ["run", n]] + [["fin", s] for s in sids] + [["run", n]]
    else:
        ops += [["fin", s] for s in sids] + [["run", 3]] + [["wu", s, big] for s in sids] + [["wu", 0, big], ["run", n]]
    return ops


def corpus():
    S = lambda ops, sids=(1,): {"ops": ops + _settle(None, list(sids), 4, 0), "settle": True}
    return [
        # SETTINGS lowers INITIAL_WINDOW_SIZE below what was already sent: stream window -90, 200 bytes queued
        {"ops": [["req", 1], ["w", 1, 0, 100], ["tick", 0], ["w", 1, 0, 200], ["iws", 10], ["tick", 0],
                 ["wu", 1, 1000], ["run", 5], ["fin", 1], ["run", 5]]},
        # data written while the window is 0 and the loop is parked; WINDOW_UPDATE does not wake the loop
        {"ops": [["iws", 10], ["req", 1], ["w", 1, 0, 10], ["tick", 0], ["tick", 0], ["w", 1, 10, 5], ["wu", 1, 10],
                 ["run", 5], ["fin", 1], ["run", 5]]},
        # same, the window is re-opened by SETTINGS_INITIAL_WINDOW_SIZE
        {"ops": [["iws", 10], ["req", 1], ["w", 1, 0, 10], ["run", 5], ["w", 1, 10, 5], ["iws", 100], ["run", 5],
                 ["fin", 1], ["run", 5]]},
        # producer paused with exactly the granted amount queued: never resumed, never sent
        {"ops": [["iws", 0], ["req", 1], ["run", 2], ["reg", 1], ["pw", 1, 0, 5], ["wu", 1, 5], ["run", 5]]},
        # connection window exhausted by one stream, second stream writes, connection WINDOW_UPDATE
        S([["req", 1], ["req", 3], ["w", 1, 0, 40000], ["w", 1, 3, 25535], ["run", 9], ["w", 3, 7, 10], ["wu", 0, 4],
           ["run", 4]], (1, 3)),
        S([["mfs", 20000], ["req", 1], ["w", 1, 0, 50000], ["run", 5]]),
        S([["req", 1], ["reg", 1], ["pw", 1, 0, 65535], ["pw", 1, 1, 1], ["run", 8], ["wu", 1, 1], ["wu", 0, 1], ["run", 3],
           ["pw", 1, 9, 9]]),
        # the history `demo` of TwistedProps/C29.lean: queues fit the windows exactly, any 9 iterations drain it
        {"ops": [["req", 1], ["req", 3], ["w", 1, 1, 3], ["w", 3, 4, 2], ["fin", 1], ["iws", 3]]
                + [["tick", k] for k in (7, 4, 1, 1, 0, 5, 2, 0, 0)]},
        {"ops": [["req", 1], ["req", 3], ["w", 1, 1, 3], ["w", 3, 4, 2], ["fin", 1], ["iws", 3], ["run", 9]]},
        # … and one byte short (stream window 2): the loop neither sends the rest nor parks, until WINDOW_UPDATE
        {"ops": [["req", 1], ["req", 3], ["w", 1, 1, 3], ["w", 3, 4, 2], ["fin", 1], ["iws", 2]]
                + [["tick", 0]] * 20 + [["wu", 1, 1], ["run", 4]]},
        # --- transport back-pressure (H2Connection.pauseProducing / resumeProducing) ---
        # a chunk is queued and the loop runs while the transport is paused: nothing may be lost
        S([["req", 1], ["tp"], ["w", 1, 0, 5], ["tick", 0], ["tr"], ["run", 3]]),
        S([["req", 1], ["w", 1, 0, 5], ["w", 1, 5, 6], ["tp"], ["tick", 0], ["tick", 0], ["w", 1, 11, 7], ["tr"], ["run", 5]]),
        # the response starts while the transport is paused: HEADERS are buffered and must precede the DATA
        S([["req", 1], ["req", 3], ["run", 2], ["tp"], ["w", 1, 0, 5], ["w", 3, 9, 4], ["wu", 0, 10], ["iws", 70000], ["tr"],
           ["run", 5]], (1, 3)),
        # the loop is parked when the transport pauses; a write wakes it, it waits behind the transport; window
        # updates arrive meanwhile
        S([["iws", 4], ["req", 1], ["run", 2], ["tp"], ["reg", 1], ["pw", 1, 0, 9], ["tick", 0], ["wu", 1, 3], ["tr"],
           ["run", 4], ["wu", 1, 50], ["run", 4]]),
        # --- re-entrant producers: write / unregister / finish from inside resumeProducing() ---
        # paused with the plan exhausted after an exact fill; resumed by SETTINGS / by a stream WINDOW_UPDATE / by a
        # connection WINDOW_UPDATE with the loop parked: it finishes inside the callback, the stream goes away while
        # _windowsChanged / _handleWindowUpdate are still running
        {"ops": [["iws", 10], ["req", 1], ["run", 2], ["areg", 1, [[0, 10]], 1], ["run", 3], ["iws", 100], ["run", 3]], "settle": True},
        {"ops": [["iws", 10], ["req", 1], ["run", 2], ["areg", 1, [[0, 10]], 1], ["run", 3], ["wu", 1, 50], ["run", 3]], "settle": True},
        {"ops": [["req", 1], ["req", 3], ["req", 5], ["areg", 3, [[0, 40000], [7, 25535]], 1], ["run", 9], ["wu", 0, 5], ["run", 3]]
                + _settle(None, [1, 3, 5], 4, 0), "settle": True},
        S([["iws", 6], ["req", 1], ["req", 3], ["areg", 1, [[0, 4], [4, 4], [8, 4], [12, 4]], 1], ["areg", 3, [[3, 6], [9, 1]], 0],
           ["run", 6], ["wu", 1, 3], ["run", 4], ["iws", 9], ["run", 6], ["wu", 3, 1], ["run", 3]], (1, 3)),
        # --- H2Stream.writeSequence: lists, tuples, one-shot iterables, empty chunks ---
        S([["req", 1], ["ws", 1, "gen", [[0, 3], [3, 4]]], ["run", 3]]),
        S([["req", 1], ["ws", 1, "iter", [[0, 0], [3, 4], [7, 0]]], ["ws", 1, "tuple", [[9, 2]]], ["ws", 1, "list", [[0, 0]]], ["run", 6]]),
        S([["iws", 0], ["req", 1], ["ws", 1, "gen", [[0, 0]]], ["run", 2], ["ws", 1, "gen", [[0, 0], [5, 5]]], ["wu", 1, 2], ["run", 4]]),
        # --- peer PRIORITY frames: for an idle stream (before its HEADERS), for an open stream ---
        S([["prio", 3, 16, 0, 0], ["tick", 0], ["req", 1], ["w", 1, 0, 5], ["req", 3], ["w", 3, 0, 5], ["run", 4]], (1, 3)),
        S([["req", 1], ["prio", 1, 256, 0, 1], ["w", 1, 0, 5], ["prio", 5, 1, 1, 0], ["req", 3], ["req", 5], ["w", 5, 1, 2], ["tick", 1],
           ["prio", 3, 16, 5, 1], ["run", 4]], (1, 3, 5)),
    ]


EXTRAS = ("tp", "auto", "ws", "prio")


def _extras(rng):
    """Which of the op classes outside the basic language a case uses: none (55 %), one, or two of
    tp = transport pause/resume, auto = re-entrant producers, ws = writeSequence, prio = peer PRIORITY."""
    if rng.random() < 0.55:
        return ()
    ext = {rng.choice(EXTRAS)}
    if rng.random() < 0.3:
        ext.add(rng.choice(EXTRAS))
    return tuple(sorted(ext))


def _case(rng, regime=None, extras=None):
    n = rng.choice([1, 1, 2, 2, 3, 4])
    sids = SIDS[:n]
    regime = regime or rng.choice(["small", "small", "small", "big", "mixed"])
    ext = _extras(rng) if extras is None else extras
    ops = []
    # half of the ws-only / prio-only cases stay inside what the model covers (no empty chunk; PRIORITY only for
    # streams that are open), so that these classes are model-compared too
    pure = bool(ext) and set(ext) <= {"ws", "prio"} and rng.random() < 0.5
    if "prio" in ext and not pure and rng.random() < 0.5:       # PRIORITY before any HEADERS
        ops.append(["prio", rng.choice(sids), rng.choice([1, 16, 256]), 0, rng.randrange(2)])
    cur_iws = INITIAL_WINDOW
    if regime != "big":
        cur_iws = rng.choice([0, 1, 2, 5, 10, 20, 50])
        ops.append(["iws", cur_iws])
    tp_guess = False
    opened, nwrites = [], 0
    length = rng.randint(3, 40)

    def size():
        if regime == "small":
            return rng.choice([1, 2, 3, 5, 8, 10, 13, 20, 33])
        if regime == "big":
            return rng.choice([1, 100, 16383, 16384, 16385, 20000, 32768, 32769, 40000, 65535, 65536])
        return rng.choice([1, 5, 10, 20, 16384, 16385, 40000])

    def win():
        if regime == "big":
            return rng.choice([1, 100, 16384, 20000, 65535, 70000])
        return rng.choice([1, 1, 2, 3, 5, 8, 10, 20, 40])

    def split(total, parts):
        cuts = sorted(rng.randint(1, total) for _ in range(parts - 1)) if total > 1 else []
        sizes = [b - a for a, b in zip([0] + cuts, cuts + [total])]
        return [[rng.randrange(251), x] for x in sizes if x > 0]

    for _ in range(length):
        if len(opened) < n and (not opened or rng.random() < 0.25):
            opened.append(sids[len(opened)])
            ops.append(["req", opened[-1]])
            continue
        sid = rng.choice(opened)
        if ext and rng.random() < 0.22:
            x = rng.choice(ext)
            if x == "tp":
                if tp_guess and rng.random() < 0.75:
                    ops.append(["tr"])
                    tp_guess = False
                else:
                    ops.append(["tp"])
                    tp_guess = True
                    if rng.random() < 0.5:  # writes (maybe the first of a response), loop iterations, window updates
                        for _ in range(rng.randint(1, 4)):     # while the transport is paused
                            y = rng.random()
                            t = rng.choice(opened)
                            if y < 0.45:
                                ops.append(["w", t, rng.randrange(251), size()])
                                nwrites += 1
                            elif y < 0.75:
                                ops.append(["tick", rng.randrange(4)])
                            elif y < 0.9:
                                ops.append(["wu", rng.choice([0, t]), win()])
                            else:
                                ops.append(["fin", t])
                        if rng.random() < 0.7:
                            ops.append(["tr"])
                            tp_guess = False
            elif x == "auto":
                if 0 < cur_iws <= 70000 and rng.random() < 0.5:
                    plan = split(cur_iws, rng.randint(1, 3))      # fills the stream window exactly
                else:
                    plan = [[rng.randrange(251), size()] for _ in range(rng.randint(0, 4))]
                ops.append(["areg", sid, plan, int(rng.random() < 0.6)])
                nwrites += len(plan)
                if rng.random() < 0.75:     # let it run against the window edge, then open the window
                    ops.append(["run", rng.randint(2, 6)])
                    for _ in range(rng.randint(1, 2)):
                        y = rng.random()
                        if y < 0.4:
                            ops.append(["wu", sid, win()])
                        elif y < 0.6:
                            ops.append(["wu", 0, win()])
                        else:
                            cur_iws = cur_iws + win() if cur_iws < 60000 else cur_iws
                            ops.append(["iws", cur_iws])
                        if rng.random() < 0.5:
                            ops.append(["run", rng.randint(1, 4)])
            elif x == "ws":
                chunks = [[rng.randrange(251), size()] for _ in range(rng.randint(1, 4))]
                if not pure and rng.random() < 0.5:
                    for _ in range(rng.randint(1, 2)):
                        chunks.insert(rng.randint(0, len(chunks)), [0, 0])
                    if rng.random() < 0.3:
                        chunks = [[0, 0]] * rng.randint(1, 2)
                ops.append(["ws", sid, rng.choice(["list", "tuple", "iter", "gen"]), chunks])
                nwrites += len(chunks)
            else:
                tgt = rng.choice(opened if pure else sids + [9])
                ops.append(["prio", tgt, rng.choice([1, 16, 255, 256]), rng.choice([0, 0] + [s_ for s_ in sids if s_ != tgt]),
                            rng.randrange(2)])
            continue
        r = rng.random()
        if r < 0.22:
            ops.append(["w", sid, rng.randrange(251), size()])
            nwrites += 1
        elif r < 0.34:
            ops.append(["pw", sid, rng.randrange(251), size()])
            nwrites += 1
        elif r < 0.41:
            ops.append(["reg", sid])
        elif r < 0.44:
            ops.append(["unreg", sid])
        elif r < 0.48:
            ops.append(["fin", sid])
        elif r < 0.62:
            ops.append(["wu", rng.choice([0, sid, sid]), win()])
        elif r < 0.70:
            cur_iws = rng.choice([0, 1, 3, 10, 30, 100]) if regime != "big" else rng.choice([0, 100, 16384, 65535, 100000])
            ops.append(["iws", cur_iws])
        elif r < 0.73:
            ops.append(["mfs", rng.choice([16384, 16385, 20000, 32768, 16777215])])
        elif r < 0.90:
            ops.append(["tick", rng.randrange(4)])
        else:
            ops.append(["run", rng.randint(1, 6)])
    for s in sids:
        if s not in opened:
            ops.append(["req", s])
    chunks = [op[3] for op in ops if op[0] in ("w", "pw")]
    chunks += [x for op in ops if op[0] == "areg" for _, x in op[2]] + [x for op in ops if op[0] == "ws" for _, x in op[3]]
    nw = sum(1 + x // DEFAULT_MFS for x in chunks)
    # half of the cases: the settle runs are longer than Σ(bytes + chunks) of everything ever written, so the
    # oracle's termination clause (stream_body_complete_in_order on the real code) applies to them
    drain = 0
    if rng.random() < 0.5:
        drain = sum(x + 1 for x in chunks) + len(sids) + 1
    ops += _settle(rng, sids, nw, drain=drain, tr="tp" in ext, big=max(BIG, sum(chunks) + 70000))
    return {"ops": ops, "settle": True}


def generate(rng, tier):
    n = 700 if tier == "quick" else 17000
    for _ in range(n):
        yield _case(rng, extras=())         # the basic language: every case is model-compared
    # a further batch that always uses one or two of the extra op classes (mostly oracle-only: cheap)
    for _ in range(500 if tier == "quick" else 8000):
        ext = _extras(rng)
        while not ext:
            ext = _extras(rng)
        yield _case(rng, "small" if rng.random() < 0.7 else None, ext)


def search(rng, tier, disagreeing):
    for _ in range(3000 if tier == "quick" else 20000):
        yield _case(rng, "small")


def shrink(c):
    ops = c["ops"]
    for i in range(len(ops)):
        yield {"ops": ops[:i] + ops[i + 1:]}
    for i, op in enumerate(ops):
        if op[0] in ("w", "pw") and op[3] > 1:
            for m in (1, op[3] // 2, op[3] - 1):
                yield {"ops": ops[:i] + [op[:3] + [m]] + ops[i + 1:]}
        if op[0] in ("wu",) and op[2] > 1:
            for m in (1, op[2] // 2):
                yield {"ops": ops[:i] + [op[:2] + [m]] + ops[i + 1:]}
        if op[0] == "run" and op[1] > 1:
            yield {"ops": ops[:i] + [["run", op[1] // 2]] + ops[i + 1:]}
        if op[0] in ("areg", "ws"):
            j = 2 if op[0] == "areg" else 3
            for x in range(len(op[j])):
                yield {"ops": ops[:i] + [op[:j] + [op[j][:x] + op[j][x + 1:]] + op[j + 1:]] + ops[i + 1:]}


INIT_STATE = "sc%dm%d[]" % (INITIAL_WINDOW, DEFAULT_MFS)


def compare(c, impl_out, model_out):
    toks = _model_tokens(c)
    if toks is None:
        return True
    impl = impl_out.split("|client:")[0].split("|")
    model = model_out.split("|")
    if len(impl) != len(toks) or len(model) != sum(len(t) for t in toks):
        return False
    i, prev = 0, INIT_STATE
    for seg, ts in zip(impl, toks):
        if not ts:          # PRIORITY on an open stream: no frame, no state change
            if seg.lstrip("~") != ";" + prev:
                return False
            continue
        part = model[i:i + len(ts)]
        i += len(ts)
        if len(part) == 1:
            want = part[0]
        else:               # writeSequence = the writes one after the other
            skipped = [m.startswith("~") for m in part]
            if all(skipped):
                want = part[-1]
            elif any(skipped):
                return False
            else:
                evs = [e for m in part for e in m.partition(";")[0].split(".") if e]
                want = ".".join(evs) + ";" + part[-1].partition(";")[2]
        if seg != want:
            return False
        prev = seg.partition(";")[2]
    return True


def tag(c, out):
    kinds = "".join(sorted({{"req": "q", "w": "w", "pw": "p", "reg": "g", "unreg": "u", "fin": "f", "wu": "W", "iws": "I",
                             "mfs": "M", "tick": "t", "run": "r", "tp": "T", "tr": "U", "areg": "A", "ws": "S",
                             "prio": "O"}[op[0]] for op in c["ops"]}))
    nstreams = len({op[1] for op in c["ops"] if op[0] == "req"})
    feats = []
    if "w-" in out:
        feats.append("neg")
    if ".P" in out or "|P" in out or out.startswith("P"):
        feats.append("pause")
    if "R" in out:
        feats.append("resume")
    if ":16384:" in out or ":16385:" in out or ":20000:" in out or ":32768:" in out:
        feats.append("split")
    if ";p" in out:
        feats.append("park")
    if "X" in out:
        feats.append("died")
    if "~" in out:
        feats.append("skip")
    if ";w" in out:
        feats.append("behind-transport")
    if re.search(r"R\d+\.(W|F)", out):
        feats.append("reentrant-" + ("fin" if re.search(r"R\d+\.F", out) else "write"))
    if any(op[0] == "ws" and any(x == 0 for _, x in op[3]) for op in c["ops"]):
        feats.append("empty-chunk")
    if any(op[0] == "ws" and op[2] in ("iter", "gen") for op in c["ops"]):
        feats.append("one-shot")
    return "%s:n%d:%s" % (kinds, nstreams, "+".join(feats))
