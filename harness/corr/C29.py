"""C29 — HTTP/2 server flow control: real twisted.web._http2.H2Connection/H2Stream (driven by a real h2
client state machine, task.Clock as reactor, harness/shims/priority.py as the priority tree) vs the Lean
model TwistedModel/Http/H2Flow.lean, plus the property oracle evaluated on the frames the server wrote."""
import os
import sys
import zlib

_SHIMS = os.path.join(os.path.dirname(os.path.dirname(os.path.abspath(__file__))), "shims")
try:
    import priority  # noqa: F401  (the real wheel, if it is ever installed)
except ImportError:
    sys.path.insert(0, _SHIMS)
    import priority  # noqa: F401

import h2.config
import h2.connection
import h2.exceptions
import h2.settings

from twisted.internet import task
from twisted.internet.interfaces import IPushProducer
from twisted.internet.testing import StringTransport
from twisted.web import http
from twisted.web._http2 import H2Connection
from zope.interface import implementer

HEADLINE = "TwistedProps.C29.frames_fit / never_exceeds_windows / delivered_in_order / no_stall / stream_body_complete_in_order"
RULE = ("histories over 1..4 concurrent streams of ops {open stream, Request.write, push-producer write (only while "
        "not paused), register/unregister producer, finish, peer WINDOW_UPDATE (stream / connection), peer SETTINGS "
        "INITIAL_WINDOW_SIZE (up and down, incl. below the bytes already sent => negative windows) and MAX_FRAME_SIZE, "
        "single send-loop iterations with an arbitrary scheduler choice, bounded runs of the loop}; small windows "
        "(0..60) so that every write meets the window edge, chunks around MAX_FRAME_SIZE (16384) for the frame split; "
        "every history ends with a settle phase (windows opened by WINDOW_UPDATE or by SETTINGS, loop run, all "
        "streams finished, loop run).  distinct = (op kinds used, #streams, negative window seen, producer paused/"
        "resumed, frame split seen, loop parked/spinning, outcome)")
ASSUMES = [
    "the transport never pauses the connection (H2Connection.pauseProducing/_consumerBlocked path not driven)",
    "producers are push producers that stop writing while paused; pull producers (_PullToPush uses the global "
    "cooperator) are not driven",
    "the peer obeys RFC 7540: windows stay <= 2^31-1, MAX_FRAME_SIZE in [16384, 2^24-1], no RST_STREAM/GOAWAY/PRIORITY, "
    "WINDOW_UPDATE only on streams it still has open",
    "no write after finish; request bodies are empty (GET, END_STREAM on HEADERS)",
    "stream_body_complete_in_order (termination) is stated for states in which every stream's queued bytes fit its "
    "stream window and the connection window covers their sum, and for a run of more than Σ(queued bytes + queued "
    "chunks) loop iterations with no other event in between; against a shut window the loop neither sends nor parks "
    "(it reschedules itself each reactor turn) — resumption after WINDOW_UPDATE is no_stall / blocked_stream_resumes",
]
TRUSTED = [
    "harness/shims/priority.py replaces the absent `priority` wheel (flat tree, steerable choice); the theorems hold for "
    "every choice sequence, the real library's weighted choice is one of them",
    "h2 (installed) does the server-side window accounting that _http2.py reads (local_flow_control_window, "
    "max_outbound_frame_size) and refuses oversize send_data with FlowControlError; the model transcribes that contract",
]
MANIFEST = {
    "text": "Lean theorems (TwistedProps/C29.lean) over the executable model of H2Connection._sendPrioritisedData/"
            "writeDataToStream/endRequest/_handleWindowUpdate + H2Stream.windowUpdated/flowControlBlocked for every "
            "history of writes, WINDOW_UPDATE/SETTINGS frames and scheduler choices: frames never exceed the windows, the "
            "loop never dies, written = sent ++ queued, open-window streams are schedulable with an iteration pending, and "
            "(termination, any scheduler, no fairness assumption) once the windows cover what is queued, more than "
            "Σ(queued bytes + chunks) iterations end parked with all queues empty, each stream's DATA frames on the wire "
            "concatenating to exactly its queued bytes and END_STREAM sent iff finished; model tied on every run to the "
            "real H2Connection driven by a real h2 client with task.Clock.",
    "note": "partial by nature: h2's accounting and the priority shim are trusted; transport back-pressure and pull "
            "producers are outside the model",
    "technique": "Lean 4 proof (invariants by induction over histories; decreasing measure for termination) + "
                 "differential tie + frame-level oracle",
    "design_ref": "DESIGN.md §7.4 C29",
}

INITIAL_WINDOW = 65535
DEFAULT_MFS = 16384
MAX_WINDOW = 2**31 - 1


# ----------------------------------------------------------------------------------------
# data: chunk (start, n) stands for the bytes (start + i) % 251, i < n

_PAT = bytes(range(251)) * 300


def chunk_bytes(start, n):
    return _PAT[start % 251:start % 251 + n]


def digest(b):
    return zlib.adler32(b)


# ----------------------------------------------------------------------------------------
# running the real code

@implementer(IPushProducer)
class _Producer:
    def __init__(self, log, sid):
        self.log, self.sid, self.paused, self.stopped = log, sid, False, False

    def pauseProducing(self):
        self.paused = True
        self.log.append("P%d" % self.sid)

    def resumeProducing(self):
        self.paused = False
        self.log.append("R%d" % self.sid)

    def stopProducing(self):
        self.stopped = True
        self.log.append("S%d" % self.sid)


class _Request(http.Request):
    """The real Request; the application (the case's ops) writes to it from outside."""

    registry = None

    def process(self):
        pass

    def requestReceived(self, command, path, version):
        http.Request.requestReceived(self, command, path, version)
        type(self).registry[self.channel.streamID] = self


class _Transport(StringTransport):
    """Parses what the server writes into frames as it is written (order relative to producer calls is kept)."""

    def __init__(self, world):
        StringTransport.__init__(self)
        self.world = world
        self.buf = b""

    def write(self, data):
        self.buf += data
        while len(self.buf) >= 9:
            n = int.from_bytes(self.buf[0:3], "big")
            if len(self.buf) < 9 + n:
                break
            typ, flags = self.buf[3], self.buf[4]
            sid = int.from_bytes(self.buf[5:9], "big") & 0x7FFFFFFF
            body = self.buf[9:9 + n]
            self.world.raw.append((self.buf[:9 + n], sid if (typ == 0 and n == 0 and flags & 0x1) else 0))
            self.buf = self.buf[9 + n:]
            if typ == 0:  # DATA
                if flags & 0x8:
                    pad = body[0]
                    payload = body[1:len(body) - pad]
                else:
                    payload = body
                self.world.frame(sid, n, payload, bool(flags & 0x1))
            elif typ == 1 and flags & 0x1:  # HEADERS with END_STREAM
                self.world.frame(sid, 0, b"", True)


class World:
    def __init__(self):
        self.clock = task.Clock()
        self.log = []
        self.raw = []
        self.frames = []  # (sid, flow-controlled length, payload, end) in wire order, over the whole run
        self.requests = {}
        self.producers = {}
        self.dead = None
        self.client_error = None
        reqcls = type("_Req", (_Request,), {"registry": self.requests})
        self.server = H2Connection(reactor=self.clock)
        self.server.requestFactory = reqcls
        self.server.site = None
        self.server.factory = None
        self.server.timeOut = None
        self.server.priority._pick = 0
        inner = self.server._sendPrioritisedData

        def iteration(*a):
            # an exception escaping the loop is logged by the reactor / the waking Deferred and nothing reschedules
            # the loop; record it where it happens
            try:
                inner(*a)
            except Exception as e:
                self.dead = type(e).__name__
                self.log.append("X" + self.dead)

        self.server._sendPrioritisedData = iteration
        for call in self.clock.calls:
            call.func = iteration
        self.transport = _Transport(self)
        self.client = h2.connection.H2Connection(
            config=h2.config.H2Configuration(client_side=True, header_encoding=None))
        self.client.initiate_connection()
        self.server.makeConnection(self.transport)
        self.flush()

    def frame(self, sid, fclen, payload, end):
        self.frames.append((sid, fclen, payload, end))
        if fclen or payload or not end:
            self.log.append("D%d:%d:%d" % (sid, len(payload), digest(payload)))
        if end:
            self.log.append("E%d" % sid)

    def flush(self):
        """client -> server, then server's answer -> client (the peer's own h2 state machine judges it)."""
        out = self.client.data_to_send()
        if out:
            self.server.dataReceived(out)
        self.feed_client()

    def feed_client(self):
        frames, self.raw = self.raw, []
        for data, empty_end_sid in frames:
            if self.client_error is not None:
                break
            if empty_end_sid:
                # h2 quirk (not Twisted's): its receiver raises FlowControlError for a zero-length END_STREAM DATA
                # frame while the stream's window is negative; RFC 7540 6.9.1 allows that frame.  The stream is
                # closing, so lifting its window to 0 first changes nothing else.
                st = self.client.streams.get(empty_end_sid)
                if st is not None and st._inbound_window_manager.current_window_size < 0:
                    st._inbound_window_manager.current_window_size = 0
            try:
                self.client.receive_data(data)
            except h2.exceptions.ProtocolError as e:
                self.client_error = type(e).__name__

    def run_one(self, pick):
        """One pending reactor call = one iteration of _sendPrioritisedData."""
        clock = self.clock
        if not clock.calls:
            return False
        clock._sortCalls()
        call = clock.calls.pop(0)
        call.called = 1
        self.server.priority._pick = pick
        try:
            call.func(*call.args, **call.kw)
        finally:
            self.server.priority._pick = 0
        self.feed_client()
        return True

    def client_open(self, sid):
        st = self.client.streams.get(sid)
        return st is not None and not st.closed

    def state(self):
        s = self.server
        if s._sendingDeferred is not None:
            loop = "p"
        elif self.clock.calls:
            loop = "s"
        else:
            loop = "d"
        parts = []
        for sid in s.streams:
            q = s._outboundStreamQueues[sid]
            nbytes = sum(len(c) for c in q if isinstance(c, bytes))
            end = any(not isinstance(c, bytes) for c in q)
            st = s.streams[sid]
            win = s.conn._get_stream_by_id(sid).outbound_flow_control_window
            parts.append("%d%s%d%sw%d%s" % (sid, "a" if s.priority._active.get(sid) else "b", nbytes,
                                            "e" if end else "", win,
                                            "" if not st.producer else ("+" if st._producerProducing else "-")))
        return "%sc%dm%d[%s]" % (loop, s.conn.outbound_flow_control_window, s.conn.max_outbound_frame_size,
                                 ",".join(parts))


def _apply(w, op):
    """Returns False when the op is not applicable in the current state (skipped, printed as '~')."""
    k = op[0]
    if k == "req":
        sid = op[1]
        if sid % 2 == 0 or sid in w.client.streams or sid <= w.client.highest_outbound_stream_id:
            return False
        w.client.send_headers(sid, [(b":method", b"GET"), (b":path", b"/"), (b":scheme", b"https"),
                                    (b":authority", b"x")], end_stream=True)
        w.flush()
        return True
    if k in ("w", "pw", "reg", "unreg", "fin"):
        sid = op[1]
        req = w.requests.get(sid)
        if req is None or req.finished:
            return False
        if k == "w":
            if op[3] == 0:
                return False
            req.write(chunk_bytes(op[2], op[3]))
        elif k == "pw":
            p = w.producers.get(sid)
            if p is None or p.paused or p.stopped or op[3] == 0:
                return False
            req.write(chunk_bytes(op[2], op[3]))
        elif k == "reg":
            if sid in w.producers:
                return False
            p = w.producers[sid] = _Producer(w.log, sid)
            req.registerProducer(p, True)
        elif k == "unreg":
            if sid not in w.producers:
                return False
            req.unregisterProducer()
            del w.producers[sid]
        else:
            if sid in w.producers:
                req.unregisterProducer()
                del w.producers[sid]
            req.finish()
        w.feed_client()
        return True
    if k == "wu":
        sid, n = op[1], op[2]
        if n <= 0:
            return False
        if sid and not w.client_open(sid):
            return False
        try:
            w.client.increment_flow_control_window(n, sid or None)
        except h2.exceptions.ProtocolError:
            return False
        w.flush()
        return True
    if k == "iws":
        if not 0 <= op[1] <= MAX_WINDOW:
            return False
        w.client.update_settings({h2.settings.SettingCodes.INITIAL_WINDOW_SIZE: op[1]})
        w.flush()
        return True
    if k == "mfs":
        if not 16384 <= op[1] <= 16777215:
            return False
        w.client.update_settings({h2.settings.SettingCodes.MAX_FRAME_SIZE: op[1]})
        w.flush()
        return True
    if k == "tick":
        return w.run_one(op[1])
    if k == "run":
        did = False
        for i in range(op[1]):
            if not w.run_one(i):
                break
            did = True
        return did
    raise ValueError(k)


def run_impl(c):
    w = World()
    segs = []
    for op in c["ops"]:
        w.log.clear()
        ok = _apply(w, op)
        segs.append(("" if ok else "~") + ".".join(w.log) + ";" + w.state())
    tail = ""
    if w.client_error:
        tail = "|client:" + w.client_error
    return "|".join(segs) + tail


# ----------------------------------------------------------------------------------------
# the model side

def _tok(op):
    k = op[0]
    return {"req": "req", "w": "w", "pw": "pw", "reg": "reg", "unreg": "unreg", "fin": "fin", "wu": "wu",
            "iws": "iws", "mfs": "mfs", "tick": "tick", "run": "run"}[k] + "".join(":%d" % x for x in op[1:])


def model_line(c):
    return " ".join(_tok(op) for op in c["ops"])


# ----------------------------------------------------------------------------------------
# the property, evaluated on what the server wrote (independent of the model)

def _parse_seg(seg):
    skipped = seg.startswith("~")
    evs, _, state = seg.lstrip("~").partition(";")
    flags = {}
    inner = state[state.index("[") + 1:state.rindex("]")] if "[" in state else ""
    for part in filter(None, inner.split(",")):
        i = 0
        while part[i].isdigit():
            i += 1
        flags[int(part[:i])] = part[i]
    return skipped, [e for e in evs.split(".") if e], state[:1], flags


def oracle(c, out):
    if out.startswith("!"):
        return {"key": "raises", "detail": out}
    segs = out.split("|")
    ops = c["ops"]
    client = None
    if len(segs) > len(ops):
        client = segs[len(ops)]
        segs = segs[:len(ops)]
    conn, iws, mfs = INITIAL_WINDOW, INITIAL_WINDOW, DEFAULT_MFS
    wins, written, delivered, finished, ended = {}, {}, {}, set(), set()
    nchunks = {}        # per stream: an upper bound of the number of queued chunks (END_STREAM marker included)
    loop = "s"
    for i, (op, seg) in enumerate(zip(ops, segs)):
        skipped, evs, loop, flags = _parse_seg(seg)
        where = "op %d %r" % (i, op)
        must_drain = None
        if not skipped:
            k = op[0]
            if k == "req":
                wins[op[1]], written[op[1]], delivered[op[1]] = iws, b"", b""
                nchunks[op[1]] = 0
            elif k in ("w", "pw"):
                written[op[1]] += chunk_bytes(op[2], op[3])
                nchunks[op[1]] += 1
            elif k == "fin":
                finished.add(op[1])
                nchunks[op[1]] += 1
            elif k == "run":
                # termination (TwistedProps.C29.stream_body_complete_in_order, evaluated on the implementation with
                # the oracle's own accounting): every queue fits its stream window, the connection window covers
                # the sum, and the run is longer than Σ(queued bytes + queued chunks)  ⇒  it ends parked, drained.
                live = [sid for sid in wins if sid not in ended]
                pend = {sid: len(written[sid]) - len(delivered[sid]) for sid in live}
                if (all(pend[sid] <= wins[sid] for sid in live) and sum(pend.values()) <= conn
                        and op[1] > sum(pend[sid] + nchunks[sid] for sid in live)):
                    must_drain = sum(pend[sid] + nchunks[sid] for sid in live)
            elif k == "wu":
                if op[1]:
                    wins[op[1]] += op[2]
                else:
                    conn += op[2]
            elif k == "iws":
                for sid in wins:
                    if sid not in ended:
                        wins[sid] += op[1] - iws
                iws = op[1]
            elif k == "mfs":
                mfs = op[1]
        for e in evs:
            if e[0] == "X":
                return {"key": "send-loop-died", "detail": "%s: %s escaped _sendPrioritisedData; the loop is never "
                        "rescheduled, queued data of every stream is stuck" % (where, e[1:])}
            if e[0] == "D":
                sid, n, dg = (int(x) for x in e[1:].split(":"))
                if sid not in wins or sid in ended:
                    return {"key": "data-on-closed-stream", "detail": "%s: %s" % (where, e)}
                if n > mfs:
                    return {"key": "exceeds-max-frame-size", "detail": "%s: DATA of %d > %d" % (where, n, mfs)}
                if n > conn or n > wins[sid]:
                    return {"key": "exceeds-window", "detail": "%s: DATA of %d on stream %d, connection window %d, "
                            "stream window %d" % (where, n, sid, conn, wins[sid])}
                exp = written[sid][len(delivered[sid]):len(delivered[sid]) + n]
                if len(exp) != n or digest(exp) != dg:
                    return {"key": "body-corrupt", "detail": "%s: %s is not the next %d bytes of stream %d" % (where, e, n, sid)}
                delivered[sid] += exp
                conn -= n
                wins[sid] -= n
                if delivered[sid] == written[sid]:
                    nchunks[sid] = 1 if sid in finished else 0
            elif e[0] == "E":
                sid = int(e[1:])
                if sid not in finished or delivered.get(sid) != written.get(sid) or sid in ended:
                    return {"key": "end-before-complete", "detail": "%s: END_STREAM on %d after %d of %d bytes" % (
                        where, sid, len(delivered.get(sid, b"")), len(written.get(sid, b"")))}
                ended.add(sid)
        if loop == "d":
            return {"key": "send-loop-died", "detail": "%s: no iteration of the send loop is pending and it is not parked" % where}
        if must_drain is not None:
            left = [sid for sid in wins if sid not in ended and (sid in finished or delivered[sid] != written[sid])]
            if left or loop != "p":
                return {"key": "not-drained-within-bound", "detail": "%s: the queues fitted the windows and the run is "
                        "longer than the backlog bound %d, but afterwards the loop is %s and streams %r are not "
                        "complete" % (where, must_drain, {"p": "parked", "s": "still scheduled"}.get(loop, loop), left)}
            _DRAIN_CHECKS[0] += 1
        # "streams blocked on flow control resume when the window opens": no stream with something to send and an
        # open window may be left with the send loop idle, or blocked in the priority tree
        for sid in wins:
            if sid in ended:
                continue
            pending = len(written[sid]) - len(delivered[sid])
            open_ = min(conn, wins[sid]) > 0
            if (pending and open_) or (not pending and sid in finished):
                what = "%d bytes pending, windows conn=%d stream=%d" % (pending, conn, wins[sid]) if pending else "END_STREAM pending"
                if loop == "p":
                    return {"key": "stalled-send-loop-idle", "detail": "%s: stream %d: %s, but the send loop is %s" % (
                        where, sid, what, "parked" if loop == "p" else "dead")}
                if flags.get(sid) != "a":
                    return {"key": "stalled-blocked-in-priority", "detail": "%s: stream %d: %s, but it is blocked in "
                            "the priority tree" % (where, sid, what)}
    if client:
        return {"key": "peer-rejected", "detail": "the h2 client refused the server's frames: " + client}
    if c.get("settle"):
        left = [sid for sid in wins if sid not in ended]
        if left or loop != "p":
            return {"key": "incomplete-after-settle", "detail": "streams %r not ended / loop %s after the settle phase" % (left, loop)}
    return None


# ----------------------------------------------------------------------------------------
# cases

SIDS = [1, 3, 5, 7]
_DRAIN_CHECKS = [0]     # how often the oracle's termination clause applied (debugging aid)
BIG = 1 << 20


def _settle(rng, sids, nwrites, variant=None, drain=0):
    """Open every window (by WINDOW_UPDATE or by SETTINGS), run the loop, finish everything, run the loop.
    `drain`: a lower bound for the length of the runs (the bound of stream_body_complete_in_order: queued bytes +
    queued chunks + 1; the runs stop as soon as the loop parks, so a large bound costs nothing)."""
    n = max(3 * nwrites + 6 * len(sids) + 12, drain)
    v = rng.randrange(3) if variant is None else variant
    ops = []
    if v == 0:
        ops += [["wu", 0, BIG]] + [["wu", s, BIG] for s in sids] + [["run", n]] + [["fin", s] for s in sids] + [["run", n]]
    elif v == 1:
        ops += [["iws", BIG], ["wu", 0, BIG], ["run", n]] + [["fin", s] for s in sids] + [["run", n]]
    else:
        ops += [["fin", s] for s in sids] + [["run", 3]] + [["wu", s, BIG] for s in sids] + [["wu", 0, BIG], ["run", n]]
    return ops


def corpus():
    S = lambda ops, sids=(1,): {"ops": ops + _settle(None, list(sids), 4, 0), "settle": True}
    return [
        # SETTINGS lowers INITIAL_WINDOW_SIZE below what was already sent: stream window -90, 200 bytes queued
        {"ops": [["req", 1], ["w", 1, 0, 100], ["tick", 0], ["w", 1, 0, 200], ["iws", 10], ["tick", 0],
                 ["wu", 1, 1000], ["run", 5], ["fin", 1], ["run", 5]]},
        # data written while the window is 0 and the loop is parked; WINDOW_UPDATE does not wake the loop
        {"ops": [["iws", 10], ["req", 1], ["w", 1, 0, 10], ["tick", 0], ["tick", 0], ["w", 1, 10, 5], ["wu", 1, 10],
                 ["run", 5], ["fin", 1], ["run", 5]]},
        # same, the window is re-opened by SETTINGS_INITIAL_WINDOW_SIZE
        {"ops": [["iws", 10], ["req", 1], ["w", 1, 0, 10], ["run", 5], ["w", 1, 10, 5], ["iws", 100], ["run", 5],
                 ["fin", 1], ["run", 5]]},
        # producer paused with exactly the granted amount queued: never resumed, never sent
        {"ops": [["iws", 0], ["req", 1], ["run", 2], ["reg", 1], ["pw", 1, 0, 5], ["wu", 1, 5], ["run", 5]]},
        # connection window exhausted by one stream, second stream writes, connection WINDOW_UPDATE
        S([["req", 1], ["req", 3], ["w", 1, 0, 40000], ["w", 1, 3, 25535], ["run", 9], ["w", 3, 7, 10], ["wu", 0, 4],
           ["run", 4]], (1, 3)),
        S([["mfs", 20000], ["req", 1], ["w", 1, 0, 50000], ["run", 5]]),
        S([["req", 1], ["reg", 1], ["pw", 1, 0, 65535], ["pw", 1, 1, 1], ["run", 8], ["wu", 1, 1], ["wu", 0, 1], ["run", 3],
           ["pw", 1, 9, 9]]),
        # the history `demo` of TwistedProps/C29.lean: queues fit the windows exactly, any 9 iterations drain it
        {"ops": [["req", 1], ["req", 3], ["w", 1, 1, 3], ["w", 3, 4, 2], ["fin", 1], ["iws", 3]]
                + [["tick", k] for k in (7, 4, 1, 1, 0, 5, 2, 0, 0)]},
        {"ops": [["req", 1], ["req", 3], ["w", 1, 1, 3], ["w", 3, 4, 2], ["fin", 1], ["iws", 3], ["run", 9]]},
        # … and one byte short (stream window 2): the loop neither sends the rest nor parks, until WINDOW_UPDATE
        {"ops": [["req", 1], ["req", 3], ["w", 1, 1, 3], ["w", 3, 4, 2], ["fin", 1], ["iws", 2]]
                + [["tick", 0]] * 20 + [["wu", 1, 1], ["run", 4]]},
    ]


def _case(rng, regime=None):
    n = rng.choice([1, 1, 2, 2, 3, 4])
    sids = SIDS[:n]
    regime = regime or rng.choice(["small", "small", "small", "big", "mixed"])
    ops = []
    if regime != "big":
        ops.append(["iws", rng.choice([0, 1, 2, 5, 10, 20, 50])])
    opened, nwrites = [], 0
    length = rng.randint(3, 40)

    def size():
        if regime == "small":
            return rng.choice([1, 2, 3, 5, 8, 10, 13, 20, 33])
        if regime == "big":
            return rng.choice([1, 100, 16383, 16384, 16385, 20000, 32768, 32769, 40000, 65535, 65536])
        return rng.choice([1, 5, 10, 20, 16384, 16385, 40000])

    def win():
        if regime == "big":
            return rng.choice([1, 100, 16384, 20000, 65535, 70000])
        return rng.choice([1, 1, 2, 3, 5, 8, 10, 20, 40])

    for _ in range(length):
        if len(opened) < n and (not opened or rng.random() < 0.25):
            opened.append(sids[len(opened)])
            ops.append(["req", opened[-1]])
            continue
        sid = rng.choice(opened)
        r = rng.random()
        if r < 0.22:
            ops.append(["w", sid, rng.randrange(251), size()])
            nwrites += 1
        elif r < 0.34:
            ops.append(["pw", sid, rng.randrange(251), size()])
            nwrites += 1
        elif r < 0.41:
            ops.append(["reg", sid])
        elif r < 0.44:
            ops.append(["unreg", sid])
        elif r < 0.48:
            ops.append(["fin", sid])
        elif r < 0.62:
            ops.append(["wu", rng.choice([0, sid, sid]), win()])
        elif r < 0.70:
            ops.append(["iws", rng.choice([0, 1, 3, 10, 30, 100]) if regime != "big" else rng.choice([0, 100, 16384, 65535, 100000])])
        elif r < 0.73:
            ops.append(["mfs", rng.choice([16384, 16385, 20000, 32768, 16777215])])
        elif r < 0.90:
            ops.append(["tick", rng.randrange(4)])
        else:
            ops.append(["run", rng.randint(1, 6)])
    for s in sids:
        if s not in opened:
            ops.append(["req", s])
    nw = sum(1 + op[3] // DEFAULT_MFS for op in ops if op[0] in ("w", "pw"))
    # half of the cases: the settle runs are longer than Σ(bytes + chunks) of everything ever written, so the
    # oracle's termination clause (stream_body_complete_in_order on the real code) applies to them
    drain = 0
    if rng.random() < 0.5:
        drain = sum(op[3] + 1 for op in ops if op[0] in ("w", "pw")) + len(sids) + 1
    ops += _settle(rng, sids, nw, drain=drain)
    return {"ops": ops, "settle": True}


def generate(rng, tier):
    n = 700 if tier == "quick" else 17000
    for _ in range(n):
        yield _case(rng)


def search(rng, tier, disagreeing):
    for _ in range(3000 if tier == "quick" else 20000):
        yield _case(rng, "small")


def shrink(c):
    ops = c["ops"]
    for i in range(len(ops)):
        yield {"ops": ops[:i] + ops[i + 1:]}
    for i, op in enumerate(ops):
        if op[0] in ("w", "pw") and op[3] > 1:
            for m in (1, op[3] // 2, op[3] - 1):
                yield {"ops": ops[:i] + [op[:3] + [m]] + ops[i + 1:]}
        if op[0] in ("wu",) and op[2] > 1:
            for m in (1, op[2] // 2):
                yield {"ops": ops[:i] + [op[:2] + [m]] + ops[i + 1:]}
        if op[0] == "run" and op[1] > 1:
            yield {"ops": ops[:i] + [["run", op[1] // 2]] + ops[i + 1:]}


def compare(c, impl_out, model_out):
    return impl_out.split("|client:")[0] == model_out


def tag(c, out):
    kinds = "".join(sorted({{"req": "q", "w": "w", "pw": "p", "reg": "g", "unreg": "u", "fin": "f", "wu": "W", "iws": "I",
                             "mfs": "M", "tick": "t", "run": "r"}[op[0]] for op in c["ops"]}))
    nstreams = len({op[1] for op in c["ops"] if op[0] == "req"})
    feats = []
    if "w-" in out:
        feats.append("neg")
    if ".P" in out or "|P" in out or out.startswith("P"):
        feats.append("pause")
    if "R" in out:
        feats.append("resume")
    if ":16384:" in out or ":16385:" in out or ":20000:" in out or ":32768:" in out:
        feats.append("split")
    if ";p" in out:
        feats.append("park")
    if "X" in out:
        feats.append("died")
    if "~" in out:
        feats.append("skip")
    return "%s:n%d:%s" % (kinds, nstreams, "+".join(feats))
