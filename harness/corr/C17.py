"""C17 — TLS memory-BIO layer: real twisted.protocols.tls (over the FakeEngine stand-in for pyOpenSSL)
vs the Lean model, plus the property oracle on the real code.

A case is a client and a server TLSMemoryBIOProtocol/BufferingTLSTransport wired back to back through two
iosim.FakeTransport objects and a scheduler that is entirely under the case's control:

  ["W", side, start, n]   the application on `side` writes n bytes (start+i mod 256)
  ["L", side]             the application calls transport.loseConnection()
  ["D", side, n]          the network delivers up to n bytes (one segment) to `side`
  ["T", side]             side's clock runs its due calls (reactor iteration: aggregator flush)
  ["F", side]             side's underlying transport finishes closing (connectionLost) if it was told to close
  ["E", side]             side sees EOF from the peer (peer's transport was told to close, everything read)
  ["S", side, start, [n1, n2, ...], mode]
                          the application calls transport.writeSequence(<iterable of the chunks pat(start,n1), pat(start+n1,n2), ...>);
                          mode = "list" | "tuple" | "gen" (one-shot generator) | "iter" (one-shot iterator).  The chunks are contiguous
                          pieces of one pattern, so the model line is that of ["W", side, start, n1+n2+...] (writeSequence(seq) ==
                          write(b"".join(seq)) is the transcription of both writeSequence methods)
  ["R", side, streaming, start, n, chunks]
                          registerProducer of a producer that writes a fixed chunk per resume (oracle-only cases); a NON-streaming
                          producer is really pulled: _PullToPush's cooperator is driven by this side's "T" steps (one pull per tick)
  ["U", side]             unregisterProducer (oracle-only cases)
  ["Z", side] / ["P", side]   back-pressure of the lower transport: it pauses / resumes the producer registered with it (oracle-only)

cfg[side] may also carry (all oracle-only, the Lean model has no re-entrant applications):
  "hsL": true             the application calls loseConnection() from handshakeCompleted (after its "hs" write, if any)
  "react": {"at": m, "w": [start, n] | null, "L": bool, "every": bool}
                          from dataReceived, once (or on every call if "every") as soon as it has received >= m bytes, the application
                          writes pat(start, n) and/or calls loseConnection()  (request/response servers, echo; "every" = the first 40 calls)
  "clw": n                from connectionLost the application writes n bytes and calls loseConnection() (both must be void)

Writes larger than the model's cost cap (incl. > 64000 = _AggregateSmallWrites.MAX_BUFFER_SIZE in one call) are oracle-only.

followed (if "drain") by k+10 rounds of deliver-everything / tick / F / E for both sides.
"""
import os
import sys
import warnings

_SHIMS = os.path.join(os.path.dirname(os.path.dirname(os.path.abspath(__file__))), "shims")
if _SHIMS not in sys.path:
    sys.path.insert(0, _SHIMS)
warnings.filterwarnings("ignore", message=".*service_identity.*")

from zope.interface import implementer  # noqa: E402

from OpenSSL import SSL  # noqa: E402  (the stand-in)

from twisted.internet.interfaces import (  # noqa: E402
    IHandshakeListener,
    IOpenSSLClientConnectionCreator,
    IOpenSSLServerConnectionCreator,
    IPushProducer,
)
from twisted.internet import _producer_helpers  # noqa: E402
from twisted.internet.protocol import Factory, Protocol  # noqa: E402
from twisted.internet.task import Clock, Cooperator  # noqa: E402
from twisted.protocols.tls import (  # noqa: E402
    BufferingTLSTransport,
    TLSMemoryBIOFactory,
    TLSMemoryBIOProtocol,
)
from twisted.test.iosim import FakeTransport  # noqa: E402

HEADLINE = ("TwistedProps.C17.app_bytes_intact (+ writeSequence_step, engine_pair_contract, all_decoded_at_close_notify, app_bytes_exact_when_drained, "
            "app_bytes_exact_at_clean_close, app_bytes_exact_after_clean_close, both_transports_closed_at_quiescence_partial, "
            "sender_accounting, receiver_accounting, connectionLost_exactly_once, no_data_after_connectionLost)")
RULE = ("random schedules of W/S/L/D/T/F/E steps (see module docstring) for k=2..6 handshake flights, engine record limit "
        "1..255, buffering or plain protocol on either side, optional write from handshakeCompleted; writes of 0..70000 "
        "bytes around the 2**14 / 64000 / record limits; 40% of the cases make half of their writes through writeSequence (contiguous "
        "chunks incl. empty ones, as list / tuple / one-shot generator / iterator; model-compared as one write); segment sizes 1..all; "
        "always followed by a fair drain; plus oracle-only classes: re-entrant applications (write and/or loseConnection from "
        "handshakeCompleted, from dataReceived once or on every call with replies of 1..100000 bytes, void write+loseConnection from "
        "connectionLost; half of them request/response shaped), single writes of 64000..130000 bytes behind small ones, producers "
        "(streaming and really-pulled non-streaming ones, registered before/after the handshake, loseConnection while registered incl. "
        "during the handshake, back-pressure pause/resume from the lower transport); a watchdog ends a case in which the engine is "
        "handed more plaintext than the application wrote; "
        "distinct = (k, protocol kinds, who closed in which handshake phase, abort?, sizes class, writeSequence modes, re-entrant "
        "reactions, producer kinds, final state)")
ASSUMES = [
    "pyOpenSSL/OpenSSL are replaced by the FakeEngine (harness/shims/OpenSSL): k>=1 strictly alternating handshake flights, "
    "length-framed records of <=255 payload bytes (record limit 1..255), close_notify; no renegotiation, no alerts other than "
    "close_notify. The engine-pair contract recvPlain(Y) <+: sentPlain(X) is no longer assumed: it is PROVED for this engine "
    "pair and the fake wire (engine_pair_contract)",
    "the underlying transports deliver bytes in order without loss or duplication and call connectionLost once (iosim.FakeTransport "
    "+ the scheduler of this module; the Lean World.step is its transcription)",
    "the Lean model has no re-entrant applications except the write from handshakeCompleted: applications that write / call "
    "loseConnection from dataReceived, connectionLost or (loseConnection) handshakeCompleted are run on the real code and judged by "
    "the oracle only (model_line -> None); applications do not call abortConnection and do not raise from their callbacks",
    "writeSequence(seq) is tied to the model as write(b''.join(seq)) (the case's chunks are contiguous pieces of one pattern, the "
    "model line is the single write); single writes above _modelCap(recMax) (~71000 bytes at 255) are oracle-only (model cost)",
    "progress (after loseConnection every fair run tells some transport to close and, if the receiver does not close or abort first, "
    "reaches the clean-close point) is NOT proved; it is checked on the real code by the oracle (lost-bytes, not-closed, not-quiescent)",
    "producers (registerProducer/unregisterProducer, pause/resume by the lower transport) are exercised on the real code by the oracle "
    "only; they are not in the Lean model. Non-streaming producers are pulled by a per-side Cooperator driven by the T steps "
    "(twisted.internet._producer_helpers.cooperate is replaced for the run: one resumeProducing per tick). What a producer (or the "
    "application while its producer is registered) writes after loseConnection counts as written before it (Twisted keeps the "
    "connection open until unregisterProducer), except after a loseConnection that aborts (handshake unfinished, nothing written)",
]
TRUSTED = ["harness/shims/OpenSSL (FakeEngine stand-in for pyOpenSSL; the Lean `Eng` is its transcription)",
           "twisted.test.iosim.FakeTransport as the underlying transport"]
MANIFEST = {
    "text": "Lean model of TLSMemoryBIOProtocol/BufferingTLSTransport/_AggregateSmallWrites over a fake TLS engine pair and a fake "
            "wire (TwistedModel/Transport/Tls.lean); theorems for every schedule of writes / segmentations / deliveries / ticks / "
            "loseConnection by either side, with no hypothesis on the run: what an application has received is always a prefix of "
            "what the peer wrote before its loseConnection (in order, intact) — the engine-pair contract is now proved (in-flight bytes "
            "= encoding of well-formed records, cut only at the tail); it is EXACTLY that in every drained state, at the clean-close "
            "point (peer closed cleanly, its close_notify read) and in every later state incl. every quiescent final state; "
            "connectionLost is delivered exactly when the underlying transport has gone and at most once, nothing is delivered after "
            "it; in every quiescent world where some transport was told to close both transports are closed with one connectionLost "
            "each; model run against the real twisted.protocols.tls on every run; progress towards the clean-close point / towards a "
            "transport being told to close is checked by the oracle on the real code (partial: not proved). writeSequence calls are "
            "model-compared as the write of the joined chunks; re-entrant applications (write/loseConnection from dataReceived, "
            "handshakeCompleted, connectionLost), producers (push, really-pulled pull, lower-transport back-pressure) and single writes "
            "of 64000..130000 bytes are run on the real code against the oracle only.",
    "note": "PARTIAL: pyOpenSSL is replaced by a stand-in engine; progress of the handshake/close_notify dance (a loseConnection "
            "eventually closes a transport; the clean-close point is reached) is oracle-checked, not proved; producers, re-entrant "
            "applications and writes above the model's cost cap are oracle-only",
    "technique": "Lean 4 proof (sender/receiver accounting + channel invariant over records in flight, by induction over schedules; "
                 "monotonicity; quiescence as step fixpoint) + differential tie + oracle",
    "design_ref": "DESIGN.md §7.3 C17",
}

SIDES = ("c", "s")
M = 1000003


def pat(start, n):
    return bytes((start + i) % 256 for i in range(n))


def cks(b):
    a = 0
    for i, x in enumerate(b):
        a = (a + (i + 1) * (x + 1)) % M
    return f"{len(b)}:{a}"


# ------------------------------------------------------------------------------------------------
# the real code under a controlled scheduler

class Runaway(Exception):
    """watchdog: the TLS layer handed the engine more plaintext than its application ever wrote (not an OpenSSL.SSL.Error:
    nothing in twisted catches it, it ends the case as `!raised Runaway`)"""


class _Conn(SSL.Connection):
    def __init__(self, context, app):
        SSL.Connection.__init__(self, context, None)
        self._app = app
        self._sentN = 0

    def send(self, data):
        n = SSL.Connection.send(self, data)
        self._sentN += n
        if self._sentN > self._app.offered:
            raise Runaway(f"{self._sentN} plaintext bytes sent, the application wrote {self._app.offered}")
        return n


@implementer(IOpenSSLClientConnectionCreator, IOpenSSLServerConnectionCreator)
class _Creator:
    def __init__(self, k, recMax):
        self.k, self.recMax = k, recMax

    def clientConnectionForTLS(self, proto):
        return _Conn(SSL.Context(flights=self.k, recMax=self.recMax), proto.wrappedProtocol)

    serverConnectionForTLS = clientConnectionForTLS


class _App(Protocol):
    def __init__(self, world, side):
        self.world, self.side = world, side
        self.rcvd = bytearray()
        self.lostN = 0
        self.late = 0
        self.hsN = 0
        self.closed = False        # the application called loseConnection
        self.accepted = bytearray()  # what it wrote before that
        self.events = []

    react = None                   # cfg "react"
    reacted = 0                    # number of reactions so far ("every": the first 40 calls; bounds the amplification)
    hsL = False                    # cfg "hsL"
    clw = 0                        # cfg "clw"
    offered = 0                    # every byte ever passed to transport.write/writeSequence (watchdog bound)

    def dataReceived(self, data):
        if self.lostN:
            self.late = 1
        self.rcvd += data
        r = self.react
        if r and (not self.reacted or (r.get("every") and self.reacted < 40)) and len(self.rcvd) >= r["at"]:
            self.reacted += 1
            if r.get("w"):
                self.appWrite(pat(*r["w"]))
            if r.get("L"):
                self.appLose()

    def connectionLost(self, reason):
        self.lostN += 1
        if self.clw and self.lostN == 1:
            # the connection is gone: neither call may have any effect (nor raise); the bytes are NOT accepted
            self.offered += self.clw
            self.transport.write(pat(9, self.clw))
            self.transport.loseConnection()

    producing = False              # a producer of this application is registered (writes stay legitimate after loseConnection)

    def appWrite(self, data):
        self.offered += len(data)
        if not self.closed or self.producing:
            self.accepted += data
        self.transport.write(data)

    def appWriteSeq(self, chunks, mode):
        data = b"".join(chunks)
        self.offered += len(data)
        if not self.closed or self.producing:
            self.accepted += data
        seq = {"list": list, "tuple": tuple, "iter": iter, "gen": lambda c: (x for x in c)}[mode](chunks)
        self.transport.writeSequence(seq)

    def appLose(self):
        self.closed = True
        self.transport.loseConnection()


@implementer(IHandshakeListener)
class _HsApp(_App):
    hook = None

    def handshakeCompleted(self):
        self.hsN += 1
        if self.hook is not None:
            self.appWrite(pat(*self.hook))
        if self.hsL:
            self.appLose()


@implementer(IPushProducer)
class _Producer:
    """writes `chunk` bytes per resume while it has `left` chunks; streaming or pull"""

    def __init__(self, app, start, n, chunks):
        self.app, self.start, self.n, self.left = app, start, n, chunks
        self.paused = False
        self.stopped = False

    def resumeProducing(self):
        self.paused = False
        if self.left > 0 and not self.stopped:
            self.left -= 1
            self.app.appWrite(pat(self.start, self.n))

    def pauseProducing(self):
        self.paused = True

    def stopProducing(self):
        self.stopped = True


class _CoopCall:
    """what the per-side cooperator scheduler returns (Cooperator only ever cancels it)"""

    def __init__(self, q, f):
        self.q, self.f = q, f
        q.append(self)

    def cancel(self):
        if self in self.q:
            self.q.remove(self)


# _PullToPush.startStreaming() uses the GLOBAL cooperator (global reactor); here the pull loop of a non-streaming producer is
# driven by the "T" steps of the side that registered it: one resumeProducing per tick (deterministic)
_coopOf = [None]


def _cooperate(iterator):
    return _coopOf[0].cooperate(iterator)


_producer_helpers.cooperate = _cooperate


class World:
    def __init__(self, case):
        self.k = case["k"]
        self.app, self.tls, self.tr, self.clock = {}, {}, {}, {}
        self.coopQ = {s: [] for s in SIDES}
        self.coop = {s: Cooperator(terminationPredicateFactory=lambda: (lambda: True),
                                   scheduler=lambda f, s=s: _CoopCall(self.coopQ[s], f)) for s in SIDES}
        for side in SIDES:
            cfg = case["cfg"][side]
            isClient = side == "c"
            app = (_HsApp if True else _App)(self, side)
            app.hook = cfg.get("hs")
            app.hsL = bool(cfg.get("hsL"))
            app.react = cfg.get("react")
            app.clw = cfg.get("clw") or 0
            wf = Factory.forProtocol(lambda app=app: app)
            clock = Clock()
            f = TLSMemoryBIOFactory(_Creator(self.k, cfg["recMax"]), isClient, wf, clock)
            f.protocol = BufferingTLSTransport if cfg["buf"] else TLSMemoryBIOProtocol
            tls = f.buildProtocol(None)
            tr = FakeTransport(tls, isServer=not isClient)
            self.app[side], self.tls[side], self.tr[side], self.clock[side] = app, tls, tr, clock
        # connect: client first, then server (each starts its handshake in makeConnection)
        for side in SIDES:
            self.tls[side].makeConnection(self.tr[side])

    @staticmethod
    def other(side):
        return "s" if side == "c" else "c"

    def pending(self, side):
        """bytes written by `side`'s TLS layer to its transport and not yet delivered to the peer"""
        t = self.tr[side]
        if len(t.stream) > 1:
            t.stream = [b"".join(t.stream)]
        return t.stream[0] if t.stream else b""

    def step(self, op):
        kind, side = op[0], op[1]
        app, tls, tr = self.app[side], self.tls[side], self.tr[side]
        if kind == "W":
            app.appWrite(pat(op[2], op[3]))
        elif kind == "S":
            chunks, st = [], op[2]
            for n in op[3]:
                chunks.append(pat(st, n))
                st += n
            app.appWriteSeq(chunks, op[4])
        elif kind == "L":
            if app.producing and not app.hsN and not app.accepted:
                # discipline of the producer cases: loseConnection before the handshake has finished with nothing written so far
                # ABORTS the connection (documented), what the producer writes afterwards is legitimately lost.  With something
                # written (still queued: the handshake is not over) it is an orderly close that waits for the producer.
                return
            app.appLose()
        elif kind == "D":
            peer = self.other(side)
            data = self.pending(peer)
            n = op[2]
            if tr.disconnected or n <= 0 or not data:
                return
            chunk, rest = data[:n], data[n:]
            self.tr[peer].stream = [rest] if rest else []
            tr.bufferReceived(chunk)
        elif kind == "T":
            self.clock[side].advance(0)
            for call in list(self.coopQ[side]):      # one work unit of the pull-producer loop, if any
                if call in self.coopQ[side]:
                    self.coopQ[side].remove(call)
                    call.f()
        elif kind == "F":
            if tr.disconnecting and not tr.disconnected:
                tr.disconnected = True
                tr.reportDisconnect()
        elif kind == "E":
            peer = self.other(side)
            if self.tr[peer].disconnecting and not self.pending(peer) and not tr.disconnected:
                tr.disconnecting = True
                tr.disconnected = True
                tr.reportDisconnect()
        elif kind == "R":
            # a well-behaved application: one producer at a time, none after it was told the connection is gone
            if app.producing or app.lostN or app.closed:
                return
            p = _Producer(app, op[3], op[4], op[5])
            app.producing = True
            _coopOf[0] = self.coop[side]
            app.transport.registerProducer(p, bool(op[2]))
            if tls._producer is None:      # refused (stopProducing was called): not registered
                app.producing = False
        elif kind == "U":
            if not app.producing or app.lostN:
                return
            app.producing = False
            app.transport.unregisterProducer()
        elif kind == "P":       # the reactor asks a pull producer / resumes a push producer of the lower transport
            if tr.producer is not None:
                tr.producer.resumeProducing()
        elif kind == "Z":       # the lower transport's send buffer is full: it pauses the producer registered with it
            if tr.producer is not None:
                tr.producer.pauseProducing()
        else:
            raise ValueError(kind)

    def drain(self):
        for _ in range(self.k + 10):
            for side in SIDES:
                self.step(["D", side, 1 << 30])
            for kind in ("T", "F", "E"):
                for side in SIDES:
                    self.step([kind, side])

    def quiescent(self):
        for side in SIDES:
            tr = self.tr[side]
            if self.pending(side) and not self.tr[self.other(side)].disconnected:
                return False
            if tr.disconnecting and not tr.disconnected:
                return False
            if self.clock[side].getDelayedCalls() or self.coopQ[side]:
                return False
        return True


def _run(case):
    w = World(case)
    for op in case["ops"]:
        w.step(op)
    if case.get("drain", True):
        w.drain()
    res = {}
    for side in SIDES:
        a, tr = w.app[side], w.tr[side]
        res[side] = {"rcvd": bytes(a.rcvd), "lostN": a.lostN, "late": a.late, "hsN": a.hsN, "tDisc": int(bool(tr.disconnecting)),
                     "tGone": int(bool(tr.disconnected)), "wire": w.pending(side), "accepted": bytes(a.accepted),
                     "closed": a.closed, "producing": a.producing}
    res["quiescent"] = w.quiescent()
    return res


_last = [None, None]


def _result(case):
    key = repr(case)
    if _last[0] != key:
        _last[0], _last[1] = key, _run(case)
    return _last[1]


def run_impl(case):
    _last[0] = None
    r = _result(case)
    return " ".join(
        f"{s}:r={cks(r[s]['rcvd'])},a={cks(r[s]['accepted'])},l={r[s]['lostN']},late={r[s]['late']},hs={r[s]['hsN']},"
        f"td={r[s]['tDisc']},tg={r[s]['tGone']},w={cks(r[s]['wire'])}" for s in SIDES)


# ------------------------------------------------------------------------------------------------
# model line

def _has_producer(case):
    return any(op[0] in "RUPZ" for op in case["ops"])


def _reentrant(case):
    return any(case["cfg"][s].get(key) for s in SIDES for key in ("hsL", "react", "clw"))


def _cap(recMax):
    """keep the executable model fast: a write of n bytes through an engine with record limit r costs ~n*n/r list steps"""
    return int((1.5e7 * recMax) ** 0.5)


def _opsize(op):
    return op[3] if op[0] == "W" else sum(op[3]) if op[0] == "S" else 0


def _modelCap(recMax):
    return int((2e7 * recMax) ** 0.5)        # 255 -> 71414: writes of 64000 / 64001 / 70000 at the full record size stay model-compared


def _huge(case):
    if case.get("nomodel"):          # (set by the generator on most huge-write cases: ~1 s of model time each)
        return True
    cap = {s: _modelCap(case["cfg"][s]["recMax"]) for s in SIDES}
    return (any(_opsize(op) > cap[op[1]] for op in case["ops"])
            or any((case["cfg"][s].get("hs") or [0, 0])[1] > cap[s] for s in SIDES))


def model_line(case):
    if _has_producer(case) or _reentrant(case) or _huge(case):
        return None
    cfg = []
    for s in SIDES:
        c = case["cfg"][s]
        hs = c.get("hs")
        cfg.append(f"{1 if c['buf'] else 0},{c['recMax']}," + (f"{hs[0]},{hs[1]}" if hs else "-"))
    ops = []
    for op in case["ops"]:
        if op[0] == "S":        # writeSequence of contiguous pattern chunks == one write of the whole pattern
            op = ["W", op[1], op[2] % 256, sum(op[3])]
        ops.append(",".join(str(x) for x in op))
    return f"run {case['k']} {cfg[0]} {cfg[1]} {1 if case.get('drain', True) else 0} " + (";".join(ops) if ops else "-")


# ------------------------------------------------------------------------------------------------
# the property, on the real code

def oracle(case, out):
    if out.startswith("!"):
        return {"key": "raised", "detail": out}
    r = _result(case)
    drained = case.get("drain", True)
    anyClosed = any(r[s]["closed"] for s in SIDES)
    prod = _has_producer(case)
    for s in SIDES:
        o = "s" if s == "c" else "c"
        me, peer = r[s], r[o]
        if me["late"]:
            return {"key": "data-after-connectionLost", "detail": f"{s} got dataReceived after connectionLost"}
        if me["lostN"] > 1:
            return {"key": "connectionLost-twice", "detail": f"{s} got {me['lostN']} connectionLost calls"}
        if me["lostN"] != me["tGone"]:
            return {"key": "connectionLost-mismatch", "detail": f"{s}: transport gone={me['tGone']} but connectionLost x{me['lostN']}"}
        if not peer["accepted"].startswith(me["rcvd"]):
            i = next((i for i, (x, y) in enumerate(zip(me["rcvd"], peer["accepted"])) if x != y), min(len(me["rcvd"]), len(peer["accepted"])))
            key = "reordered" if sorted(me["rcvd"]) == sorted(peer["accepted"][:len(me["rcvd"])]) else "not-a-prefix"
            return {"key": key, "detail": f"{s} received {len(me['rcvd'])} bytes differing from what {o} wrote before its loseConnection "
                                          f"({len(peer['accepted'])} bytes) at offset {i}: got {me['rcvd'][i:i+8].hex()} expected {peer['accepted'][i:i+8].hex()}"}
    if not drained:
        return None
    if any(r[s]["producing"] for s in SIDES):
        return None       # a producer that is still registered legitimately keeps the connection open
    if not r["quiescent"]:
        return {"key": "not-quiescent", "detail": "still work pending after k+10 drain rounds"}
    for s in SIDES:
        o = "s" if s == "c" else "c"
        me, peer = r[s], r[o]
        if anyClosed and not (me["tGone"] and me["lostN"] == 1):
            return {"key": "not-closed", "detail": f"after loseConnection and a full drain {s}: transport gone={me['tGone']} told-to-close={me['tDisc']} connectionLost x{me['lostN']}"}
        if not anyClosed and (me["tDisc"] or me["lostN"]):
            return {"key": "spurious-close", "detail": f"nobody called loseConnection but {s}: told-to-close={me['tDisc']} connectionLost x{me['lostN']}"}
        if not me["closed"] and me["rcvd"] != peer["accepted"]:
            return {"key": "lost-bytes", "detail": f"{s} never called loseConnection and everything was delivered, yet it received {cks(me['rcvd'])} of the "
                                                   f"{cks(peer['accepted'])} bytes {o} wrote before its loseConnection"}
    return None


# ------------------------------------------------------------------------------------------------
# cases

def _cfg(buf=True, recMax=255, hs=None):
    return {"buf": buf, "recMax": recMax, "hs": hs}


def corpus():
    c = []
    # write during the handshake, then a write from handshakeCompleted (plain protocol): order must be kept
    c.append({"k": 4, "cfg": {"c": _cfg(False, 255, [100, 5]), "s": _cfg(False)}, "ops": [["W", "c", 0, 10]], "drain": True})
    # same through the aggregator with a >64000 byte write from handshakeCompleted
    c.append({"k": 4, "cfg": {"c": _cfg(True, 255, [7, 64001]), "s": _cfg(True)}, "ops": [["W", "c", 0, 10], ["T", "c"]], "drain": True})
    # clean close after the handshake, data in flight both ways
    c.append({"k": 4, "cfg": {"c": _cfg(), "s": _cfg()},
              "ops": [["D", "s", 99], ["D", "c", 99], ["D", "s", 99], ["D", "c", 99], ["W", "c", 1, 300], ["W", "s", 9, 20], ["L", "c"]], "drain": True})
    # close during the handshake with nothing written (abort) / with a buffered write
    c.append({"k": 4, "cfg": {"c": _cfg(), "s": _cfg()}, "ops": [["D", "s", 2], ["L", "c"]], "drain": True})
    c.append({"k": 5, "cfg": {"c": _cfg(), "s": _cfg(False)}, "ops": [["W", "s", 3, 17000], ["L", "s"], ["D", "s", 1]], "drain": True})
    # server closes before anything arrived (shutdown() succeeds immediately)
    c.append({"k": 2, "cfg": {"c": _cfg(False, 1), "s": _cfg(False, 3)}, "ops": [["L", "s"], ["W", "c", 0, 4]], "drain": True})
    # both close; byte-by-byte delivery; no drain (intermediate state)
    c.append({"k": 3, "cfg": {"c": _cfg(True, 16), "s": _cfg(True, 200)},
              "ops": [["W", "c", 0, 40], ["T", "c"]] + [["D", "s", 1], ["D", "c", 1]] * 30 + [["L", "c"], ["L", "s"], ["D", "s", 5], ["F", "c"], ["E", "s"]],
              "drain": False})
    # producers (oracle-only)
    c.append({"k": 4, "cfg": {"c": _cfg(), "s": _cfg()}, "ops": [["R", "c", 1, 0, 50, 3], ["P", "c"], ["L", "c"], ["P", "c"], ["U", "c"]], "drain": True})
    # loseConnection while a producer is registered, the producer's last write sits in the aggregator at unregisterProducer
    c.append({"k": 2, "cfg": {"c": _cfg(), "s": _cfg()},
              "ops": [["D", "s", 99], ["D", "c", 99], ["R", "s", 1, 0, 50, 0], ["L", "s"], ["W", "s", 7, 5], ["U", "s"]], "drain": True})
    big = 1 << 20
    hsk = [["D", "s", big], ["D", "c", big]] * 3            # enough for k <= 5
    # --- classes added by the white-box mutation audit (harness/mutants/C17) ---
    # writeSequence behind a small write that still sits in the aggregator (order), list and one-shot iterables, leading empty chunk
    c.append({"k": 2, "cfg": {"c": _cfg(), "s": _cfg()}, "ops": hsk + [["W", "c", 0, 10], ["S", "c", 10, [10, 10], "list"]], "drain": True})
    c.append({"k": 2, "cfg": {"c": _cfg(False), "s": _cfg()}, "ops": hsk + [["S", "c", 0, [0, 10, 20], "gen"]], "drain": True})
    c.append({"k": 4, "cfg": {"c": _cfg(), "s": _cfg(False)}, "ops": [["S", "s", 5, [0, 0, 7], "iter"], ["S", "c", 0, [], "gen"], ["S", "c", 9, [3], "tuple"]], "drain": True})
    # one write larger than the aggregator's MAX_BUFFER_SIZE behind a small one (model-compared: 64001 <= _modelCap(255))
    c.append({"k": 2, "cfg": {"c": _cfg(), "s": _cfg()}, "ops": hsk + [["W", "c", 220, 1], ["W", "c", 162, 64001]], "drain": True})
    c.append({"k": 2, "cfg": {"c": _cfg(True, 100), "s": _cfg()}, "ops": hsk + [["W", "c", 1, 10], ["W", "c", 11, 130000]], "drain": True})
    # orderly loseConnection during the handshake (something is queued) while a producer is registered; the producer goes on afterwards
    c.append({"k": 4, "cfg": {"c": _cfg(), "s": _cfg()},
              "ops": [["R", "c", 1, 50, 100, 2], ["W", "c", 0, 10], ["T", "c"], ["L", "c"]] + hsk + [["W", "c", 7, 5], ["U", "c"]], "drain": True})
    c.append({"k": 4, "cfg": {"c": _cfg(False), "s": _cfg()},
              "ops": [["R", "c", 0, 50, 100, 3], ["W", "c", 0, 10], ["L", "c"]] + hsk + [["T", "c"], ["T", "c"], ["U", "c"]], "drain": True})
    # a streaming producer paused by a write queued during the handshake is resumed when the queue has been replayed (order)
    c.append({"k": 4, "cfg": {"c": _cfg(False), "s": _cfg()}, "ops": [["R", "c", 1, 50, 100, 2], ["W", "c", 0, 10]] + hsk + [["U", "c"]], "drain": True})
    # a pull producer, really pulled (one chunk per tick), paused / resumed by the lower transport
    c.append({"k": 2, "cfg": {"c": _cfg(), "s": _cfg()},
              "ops": hsk + [["R", "s", 0, 3, 300, 3], ["T", "s"], ["Z", "s"], ["T", "s"], ["P", "s"], ["T", "s"], ["T", "s"], ["L", "s"], ["T", "s"], ["U", "s"]], "drain": True})
    # handshakeCompleted writes and closes while writes queued during the handshake are still waiting
    c.append({"k": 4, "cfg": {"c": dict(_cfg(False, 255, [100, 5]), hsL=True), "s": _cfg(False)}, "ops": [["W", "c", 0, 10]], "drain": True})
    c.append({"k": 3, "cfg": {"c": _cfg(), "s": dict(_cfg(True, 16, [100, 300]), hsL=True)}, "ops": [["W", "s", 0, 10], ["T", "s"], ["W", "s", 10, 7]], "drain": True})
    # request / response: the reply is written (and the connection closed) from dataReceived; replies larger than 1, 2, 3 reads of the send BIO
    for buf, n, L in ((False, 33000, False), (False, 100000, True), (True, 70000, False), (True, 300, True)):
        c.append({"k": 2, "cfg": {"c": _cfg(), "s": dict(_cfg(buf), react={"at": 1, "w": [0, n], "L": L, "every": False})},
                  "ops": hsk + [["W", "c", 3, 5], ["T", "c"], ["D", "s", big]], "drain": True})
    # echo of every segment, byte-wise delivery; write + loseConnection from connectionLost are void
    c.append({"k": 2, "cfg": {"c": dict(_cfg(), clw=300), "s": dict(_cfg(False), react={"at": 1, "w": [7, 5], "L": False, "every": True}, clw=1)},
              "ops": hsk + [["W", "c", 3, 600], ["T", "c"]] + [["D", "s", 100]] * 8 + [["L", "c"]], "drain": True})
    return c


def _size(rng):
    r = rng.random()
    if r < 0.5:
        return rng.choice([0, 1, 2, 3, 5, 17, 100, 254, 255, 256, 257, 511])
    if r < 0.8:
        return rng.randint(0, 1200)
    if r < 0.93:
        return rng.choice([16383, 16384, 16385, 32767, 32768, 32769, 20000])
    return rng.choice([63999, 64000, 64001, 70000])


def _seqop(rng, s, start, n):
    """a writeSequence of contiguous chunks of pat(start, n): empty chunks, one chunk, many chunks; list / tuple / one-shot iterables"""
    r = rng.random()
    if n == 0 or r < 0.15:
        parts = [n]
    else:
        cuts = sorted(rng.randint(0, n) for _ in range(rng.choice([1, 1, 2, 3, 6])))
        parts = [b - a for a, b in zip([0] + cuts, cuts + [n])]
    if rng.random() < 0.4:
        parts.insert(rng.randint(0, len(parts)), 0)
    if rng.random() < 0.25:
        parts.insert(0, 0)          # leading empty chunk
    if rng.random() < 0.05:
        parts = [x for x in parts if x] if rng.random() < 0.5 else []
        n = sum(parts)
    return ["S", s, start, parts, rng.choice(["list", "list", "tuple", "gen", "gen", "iter"])]


def _react(rng, hugeOK):
    # (a reply larger than one / two / three 2**15-byte reads of the send BIO, written while _flushReceiveBIO is delivering)
    sizes = [1, 5, 300, 300, 17000, 33000, 40000, 70000, 100000]
    w = [rng.randrange(256), rng.choice(sizes)] if rng.random() < 0.8 else None
    L = rng.random() < (0.5 if w else 1.0)
    every = rng.random() < 0.25
    if every and w and w[1] > 300:
        w[1] = rng.choice([1, 5, 300])
    return {"at": rng.choice([1, 1, 1, 2, 10, 300]), "w": w, "L": L, "every": every}


def _case(rng, tier, producers=False, seq=False, reentrant=False, huge=False):
    k = rng.choice([2, 2, 3, 4, 4, 5, 6])
    cfg = {}
    for s in SIDES:
        cfg[s] = _cfg(rng.random() < 0.6, rng.choice([1, 2, 16, 100, 254, 255, 255, 255, rng.randint(1, 255)]),
                      [rng.randrange(256), _size(rng) if rng.random() < 0.15 else rng.choice([1, 5, 300])] if rng.random() < 0.3 else None)
    ops = []
    big = 0
    n = rng.choice([0, 1, 2, 3, 5, 8, 12, 20, 30])
    closers = rng.choice([[], ["c"], ["s"], ["c", "s"], [rng.choice(SIDES)]])
    closeAt = {s: rng.randint(0, n) for s in closers}
    segmode = rng.choice(["all", "small", "mixed"])
    for i in range(n + 1):
        for s in closers:
            if closeAt[s] == i:
                ops.append(["L", s])
        if i == n:
            break
        r = rng.random()
        s = rng.choice(SIDES)
        if r < 0.3:
            sz = _size(rng)
            if sz > 2000:
                big += 1
                if big > 2:
                    sz = sz % 300
            if huge and sz > 2000 and rng.random() < 0.7:
                sz = rng.choice([64000, 64001, 64001, 70000, 100000, 130000])
            if seq and rng.random() < 0.5:
                ops.append(_seqop(rng, s, rng.randrange(256), sz))
            else:
                ops.append(["W", s, rng.randrange(256), sz])
        elif r < 0.7:
            seg = {"all": 1 << 20, "small": rng.randint(1, 4), "mixed": rng.choice([1, 2, 3, 7, 100, 1 << 20])}[segmode]
            ops.append(["D", s, seg])
            if rng.random() < 0.5:
                ops.append(["D", "s" if s == "c" else "c", seg])
        elif r < 0.82:
            ops.append(["T", s])
        elif r < 0.9:
            ops.append(["F", s])
        elif r < 0.96:
            ops.append(["E", s])
        else:
            ops.append(["L", s])
        if producers and rng.random() < 0.25:
            ops.append(rng.choice([["R", s, rng.choice([0, 1]), rng.randrange(256), rng.choice([1, 50, 300, 17000]), rng.randint(0, 4)],
                                   ["U", s], ["P", s], ["P", s], ["Z", s], ["Z", s], ["T", s]]))
    if huge:
        for s in SIDES:             # (wall time of the real code: a huge write costs len/recMax engine calls)
            cfg[s]["recMax"] = max(cfg[s]["recMax"], 16)
            if cfg[s]["hs"] and rng.random() < 0.3:
                cfg[s]["hs"][1] = rng.choice([64000, 64001, 70000])
        if not any(_opsize(op) >= 64000 for op in ops):
            s = rng.choice(SIDES)
            i = rng.randint(0, len(ops))
            ops[i:i] = [["W", s, rng.randrange(256), rng.choice([1, 10, 300])], ["W", s, rng.randrange(256), rng.choice([64000, 64001, 70000, 130000])]]
    else:
        # keep the executable model fast: a write of n bytes through an engine with record limit r costs ~n*n/r list steps
        cap = {s: _cap(cfg[s]["recMax"]) for s in SIDES}
        for op in ops:
            if op[0] == "W" and op[3] > cap[op[1]]:
                op[3] %= 1200
            if op[0] == "S" and sum(op[3]) > cap[op[1]]:
                op[3] = [x % 1200 for x in op[3]]
            if op[0] == "R" and op[4] > cap[op[1]]:
                op[4] %= 1200
        for s in SIDES:
            if cfg[s]["hs"] and cfg[s]["hs"][1] > cap[s]:
                cfg[s]["hs"][1] %= 1200
    if producers and rng.random() < 0.6:
        # a producer registered early (mostly before the handshake is over) that has something to say, and a write behind it
        s = rng.choice(SIDES)
        ops[0:0] = [["R", s, rng.choice([0, 1]), rng.randrange(256), rng.choice([1, 50, 300, 17000]), rng.randint(1, 4)]]
        ops.insert(rng.randint(1, min(len(ops), 4)), ["W", s, rng.randrange(256), rng.choice([1, 5, 300])])
        if rng.random() < 0.5:
            ops.insert(rng.randint(1, len(ops)), ["T", s])
        if rng.random() < 0.4:      # orderly close requested while the handshake is still running and the producer registered
            ops.insert(rng.randint(2, min(len(ops), 5)), ["L", s])
        if rng.random() < 0.6:      # ... and the producer goes on after the handshake (pull producers: one chunk per tick)
            ops += [["D", "s", 1 << 20], ["D", "c", 1 << 20]] * ((k + 1) // 2 + 1) + [["T", s]] * rng.randint(1, 3)
            if rng.random() < 0.5:
                ops.append(["W", s, rng.randrange(256), rng.choice([1, 5, 300])])
    rr = None
    if reentrant:
        if rng.random() < 0.5:      # request/response shape: handshake, a request, and the other side answers from dataReceived
            rr = rng.choice(SIDES)
            o = "s" if rr == "c" else "c"
            if rng.random() < 0.4:  # ... and nothing else happens (whatever the reply left behind stays where it is)
                del ops[:]
            ops[0:0] = ([["D", "s", 1 << 20], ["D", "c", 1 << 20]] * ((k + 1) // 2 + 1)
                        + [["W", o, rng.randrange(256), rng.choice([1, 5, 300, 1200])], ["T", o], ["D", rr, 1 << 20]])
        some = False
        for s in SIDES:
            if rng.random() < (0.45 if rr is None else 0.08):
                cfg[s]["hsL"] = True
                if cfg[s]["hs"] is None and rng.random() < 0.6:
                    cfg[s]["hs"] = [rng.randrange(256), rng.choice([1, 5, 300])]
                some = True
            if rng.random() < 0.6 or s == rr:
                cfg[s]["react"] = _react(rng, False)
                if s == rr and rng.random() < 0.5:
                    cfg[s]["react"].update(w=[rng.randrange(256), rng.choice([33000, 40000, 70000, 100000])], every=False)
                some = True
            if rng.random() < 0.2:
                cfg[s]["clw"] = rng.choice([1, 300])
                some = True
        if not some:
            cfg[rng.choice(SIDES)]["react"] = _react(rng, False)
        for s in SIDES:             # (wall time of the real code: a large reply costs len/recMax engine calls)
            if cfg[s].get("react") and cfg[s]["react"]["w"] and cfg[s]["react"]["w"][1] > 20000:
                cfg[s]["recMax"] = max(cfg[s]["recMax"], 16)
        # somebody has to say something for a dataReceived reaction to run
        if not any(op[0] in "WS" for op in ops) and not any(cfg[s]["hs"] for s in SIDES):
            ops.insert(rng.randint(0, len(ops)), ["W", rng.choice(SIDES), rng.randrange(256), rng.choice([1, 5, 300, 1200])])
    return {"k": k, "cfg": cfg, "ops": ops, "drain": rng.random() < 0.85}


def generate(rng, tier):
    n = 900 if tier == "quick" else 16000
    for i in range(n):
        yield _case(rng, tier, seq=(i % 5 < 2))         # 40%: half of the writes are writeSequence calls (model-compared)
    for i in range(n // 3):
        yield _case(rng, tier, reentrant=True, seq=(i % 4 == 0))
    for i in range(n // (12 if tier == "quick" else 40)):     # (wall time: ~50 ms of real code, ~1 s of model time each)
        c = _case(rng, tier, huge=True, seq=(i % 3 == 0))
        if i % 8:
            c["nomodel"] = True
        yield c
    for i in range(n // 4):
        c = _case(rng, tier, producers=True, seq=(i % 4 == 0))
        # a producer may be registered only once at a time: keep the schedule legal
        seen = {s: False for s in SIDES}
        ops = []
        for op in c["ops"]:
            if op[0] == "R":
                if seen[op[1]]:
                    continue
                seen[op[1]] = True
            elif op[0] == "U":
                seen[op[1]] = False
            ops.append(op)
        for s in SIDES:                 # a producer that is never unregistered legitimately keeps the connection open
            if seen[s]:
                ops.append(["U", s])
        c["ops"] = ops
        yield c


def search(rng, tier, disagreeing):
    for i in range(3000):
        yield _case(rng, "quick", seq=(i % 2 == 0))


def shrink(case):
    ops = case["ops"]
    for i in range(len(ops)):
        if ops[i][0] != "U":
            yield dict(case, ops=ops[:i] + ops[i + 1:])
    for i, op in enumerate(ops):
        if op[0] == "W" and op[3] > 1:
            for m in (op[3] // 2, op[3] - 1):
                yield dict(case, ops=ops[:i] + [[op[0], op[1], op[2], m]] + ops[i + 1:])
        if op[0] == "S":
            if len(op[3]) > 1:
                for j in range(len(op[3])):
                    yield dict(case, ops=ops[:i] + [[op[0], op[1], op[2], op[3][:j] + op[3][j + 1:], op[4]]] + ops[i + 1:])
            for j, m in enumerate(op[3]):
                if m > 1:
                    yield dict(case, ops=ops[:i] + [[op[0], op[1], op[2], op[3][:j] + [m // 2] + op[3][j + 1:], op[4]]] + ops[i + 1:])
    for s in SIDES:
        c = case["cfg"][s]
        if c.get("hs") and c["hs"][1] > 1:
            yield dict(case, cfg=dict(case["cfg"], **{s: dict(c, hs=[c["hs"][0], c["hs"][1] // 2])}))
        if c.get("hs"):
            yield dict(case, cfg=dict(case["cfg"], **{s: dict(c, hs=None)}))
        for key in ("hsL", "react", "clw"):
            if c.get(key):
                yield dict(case, cfg=dict(case["cfg"], **{s: dict(c, **{key: None})}))
        r = c.get("react")
        if r and r.get("w") and r["w"][1] > 1:
            yield dict(case, cfg=dict(case["cfg"], **{s: dict(c, react=dict(r, w=[r["w"][0], r["w"][1] // 2]))}))
    if case["k"] > 2:
        yield dict(case, k=case["k"] - 1)


def tag(case, out):
    ops = case["ops"]
    closers = "".join(sorted({op[1] for op in ops if op[0] == "L"}))
    sizes = {("0" if n == 0 else "s" if n <= 255 else "m" if n <= 16384 else "l" if n <= 64000 else "x")
             for n in (_opsize(op) for op in ops if op[0] in "WS")}
    extra = ("S" + "".join(sorted({op[4][0] for op in ops if op[0] == "S"})) if any(op[0] == "S" for op in ops) else "") + \
        "".join(("H" if case["cfg"][s].get("hsL") else "") + ("C" if case["cfg"][s].get("clw") else "") +
                ("r" + ("w" if case["cfg"][s]["react"].get("w") else "") + ("L" if case["cfg"][s]["react"].get("L") else "") +
                 ("e" if case["cfg"][s]["react"].get("every") else "") if case["cfg"][s].get("react") else "") for s in SIDES) + \
        ("Z" if any(op[0] == "Z" for op in ops) else "") + ("q" if any(op[0] == "R" and not op[2] for op in ops) else "")
    fin = ",".join(p.split(",l=")[1][:1] + p.split("tg=")[1][:1] for p in out.split(" ")) if not out.startswith("!") else out
    kinds = "".join("B" if case["cfg"][s]["buf"] else "P" for s in SIDES) + "".join("h" if case["cfg"][s].get("hs") else "-" for s in SIDES)
    return f"k{case['k']}:{kinds}:L{closers}:{''.join(sorted(sizes))}:{'d' if case.get('drain', True) else 'n'}:{'p' if _has_producer(case) else ''}{extra}:{fin}"
