"""C17 — TLS memory-BIO layer: real twisted.protocols.tls (over the FakeEngine stand-in for pyOpenSSL)
vs the Lean model, plus the property oracle on the real code.

A case is a client and a server TLSMemoryBIOProtocol/BufferingTLSTransport wired back to back through two
iosim.FakeTransport objects and a scheduler that is entirely under the case's control:

  ["W", side, start, n]   the application on `side` writes n bytes (start+i mod 256)
  ["L", side]             the application calls transport.loseConnection()
  ["D", side, n]          the network delivers up to n bytes (one segment) to `side`
  ["T", side]             side's clock runs its due calls (reactor iteration: aggregator flush)
  ["F", side]             side's underlying transport finishes closing (connectionLost) if it was told to close
  ["E", side]             side sees EOF from the peer (peer's transport was told to close, everything read)
  ["R", side, streaming]  registerProducer of a producer that writes a fixed chunk per resume (oracle-only cases)
  ["U", side]             unregisterProducer (oracle-only cases)

followed (if "drain") by k+10 rounds of deliver-everything / tick / F / E for both sides.
"""
import os
import sys
import warnings

_SHIMS = os.path.join(os.path.dirname(os.path.dirname(os.path.abspath(__file__))), "shims")
if _SHIMS not in sys.path:
    sys.path.insert(0, _SHIMS)
warnings.filterwarnings("ignore", message=".*service_identity.*")

from zope.interface import implementer  # noqa: E402

from OpenSSL import SSL  # noqa: E402  (the stand-in)

from twisted.internet.interfaces import (  # noqa: E402
    IHandshakeListener,
    IOpenSSLClientConnectionCreator,
    IOpenSSLServerConnectionCreator,
    IPushProducer,
)
from twisted.internet.protocol import Factory, Protocol  # noqa: E402
from twisted.internet.task import Clock  # noqa: E402
from twisted.protocols.tls import (  # noqa: E402
    BufferingTLSTransport,
    TLSMemoryBIOFactory,
    TLSMemoryBIOProtocol,
)
from twisted.test.iosim import FakeTransport  # noqa: E402

HEADLINE = ("TwistedProps.C17.app_bytes_intact (+ engine_pair_contract, all_decoded_at_close_notify, app_bytes_exact_when_drained, "
            "app_bytes_exact_at_clean_close, app_bytes_exact_after_clean_close, both_transports_closed_at_quiescence_partial, "
            "sender_accounting, receiver_accounting, connectionLost_exactly_once, no_data_after_connectionLost)")
RULE = ("random schedules of W/L/D/T/F/E steps (see module docstring) for k=2..6 handshake flights, engine record limit "
        "1..255, buffering or plain protocol on either side, optional write from handshakeCompleted; writes of 0..70000 "
        "bytes around the 2**14 / 64000 / record limits; segment sizes 1..all; always followed by a fair drain; "
        "distinct = (k, protocol kinds, who closed in which handshake phase, abort?, sizes class, final state)")
ASSUMES = [
    "pyOpenSSL/OpenSSL are replaced by the FakeEngine (harness/shims/OpenSSL): k>=1 strictly alternating handshake flights, "
    "length-framed records of <=255 payload bytes (record limit 1..255), close_notify; no renegotiation, no alerts other than "
    "close_notify. The engine-pair contract recvPlain(Y) <+: sentPlain(X) is no longer assumed: it is PROVED for this engine "
    "pair and the fake wire (engine_pair_contract)",
    "the underlying transports deliver bytes in order without loss or duplication and call connectionLost once (iosim.FakeTransport "
    "+ the scheduler of this module; the Lean World.step is its transcription)",
    "applications do not call transport methods re-entrantly from dataReceived/connectionLost (only from handshakeCompleted)",
    "progress (after loseConnection every fair run tells some transport to close and, if the receiver does not close or abort first, "
    "reaches the clean-close point) is NOT proved; it is checked on the real code by the oracle (lost-bytes, not-closed, not-quiescent)",
    "producers (registerProducer/unregisterProducer) are exercised on the real code by the oracle only; they are not in the Lean model",
]
TRUSTED = ["harness/shims/OpenSSL (FakeEngine stand-in for pyOpenSSL; the Lean `Eng` is its transcription)",
           "twisted.test.iosim.FakeTransport as the underlying transport"]
MANIFEST = {
    "text": "Lean model of TLSMemoryBIOProtocol/BufferingTLSTransport/_AggregateSmallWrites over a fake TLS engine pair and a fake "
            "wire (TwistedModel/Transport/Tls.lean); theorems for every schedule of writes / segmentations / deliveries / ticks / "
            "loseConnection by either side, with no hypothesis on the run: what an application has received is always a prefix of "
            "what the peer wrote before its loseConnection (in order, intact) — the engine-pair contract is now proved (in-flight bytes "
            "= encoding of well-formed records, cut only at the tail); it is EXACTLY that in every drained state, at the clean-close "
            "point (peer closed cleanly, its close_notify read) and in every later state incl. every quiescent final state; "
            "connectionLost is delivered exactly when the underlying transport has gone and at most once, nothing is delivered after "
            "it; in every quiescent world where some transport was told to close both transports are closed with one connectionLost "
            "each; model run against the real twisted.protocols.tls on every run; progress towards the clean-close point / towards a "
            "transport being told to close is checked by the oracle on the real code (partial: not proved).",
    "note": "PARTIAL: pyOpenSSL is replaced by a stand-in engine; progress of the handshake/close_notify dance (a loseConnection "
            "eventually closes a transport; the clean-close point is reached) is oracle-checked, not proved; producers are oracle-only",
    "technique": "Lean 4 proof (sender/receiver accounting + channel invariant over records in flight, by induction over schedules; "
                 "monotonicity; quiescence as step fixpoint) + differential tie + oracle",
    "design_ref": "DESIGN.md §7.3 C17",
}

SIDES = ("c", "s")
M = 1000003


def pat(start, n):
    return bytes((start + i) % 256 for i in range(n))


def cks(b):
    a = 0
    for i, x in enumerate(b):
        a = (a + (i + 1) * (x + 1)) % M
    return f"{len(b)}:{a}"


# ------------------------------------------------------------------------------------------------
# the real code under a controlled scheduler

@implementer(IOpenSSLClientConnectionCreator, IOpenSSLServerConnectionCreator)
class _Creator:
    def __init__(self, k, recMax):
        self.k, self.recMax = k, recMax

    def clientConnectionForTLS(self, proto):
        return SSL.Connection(SSL.Context(flights=self.k, recMax=self.recMax), None)

    serverConnectionForTLS = clientConnectionForTLS


class _App(Protocol):
    def __init__(self, world, side):
        self.world, self.side = world, side
        self.rcvd = bytearray()
        self.lostN = 0
        self.late = 0
        self.hsN = 0
        self.closed = False        # the application called loseConnection
        self.accepted = bytearray()  # what it wrote before that
        self.events = []

    def dataReceived(self, data):
        if self.lostN:
            self.late = 1
        self.rcvd += data

    def connectionLost(self, reason):
        self.lostN += 1

    producing = False              # a producer of this application is registered (writes stay legitimate after loseConnection)

    def appWrite(self, data):
        if not self.closed or self.producing:
            self.accepted += data
        self.transport.write(data)


@implementer(IHandshakeListener)
class _HsApp(_App):
    hook = None

    def handshakeCompleted(self):
        self.hsN += 1
        if self.hook is not None:
            self.appWrite(pat(*self.hook))


@implementer(IPushProducer)
class _Producer:
    """writes `chunk` bytes per resume while it has `left` chunks; streaming or pull"""

    def __init__(self, app, start, n, chunks):
        self.app, self.start, self.n, self.left = app, start, n, chunks
        self.paused = False
        self.stopped = False

    def resumeProducing(self):
        self.paused = False
        if self.left > 0 and not self.stopped:
            self.left -= 1
            self.app.appWrite(pat(self.start, self.n))

    def pauseProducing(self):
        self.paused = True

    def stopProducing(self):
        self.stopped = True


class World:
    def __init__(self, case):
        self.k = case["k"]
        self.app, self.tls, self.tr, self.clock = {}, {}, {}, {}
        for side in SIDES:
            cfg = case["cfg"][side]
            isClient = side == "c"
            app = (_HsApp if True else _App)(self, side)
            app.hook = cfg.get("hs")
            wf = Factory.forProtocol(lambda app=app: app)
            clock = Clock()
            f = TLSMemoryBIOFactory(_Creator(self.k, cfg["recMax"]), isClient, wf, clock)
            f.protocol = BufferingTLSTransport if cfg["buf"] else TLSMemoryBIOProtocol
            tls = f.buildProtocol(None)
            tr = FakeTransport(tls, isServer=not isClient)
            self.app[side], self.tls[side], self.tr[side], self.clock[side] = app, tls, tr, clock
        # connect: client first, then server (each starts its handshake in makeConnection)
        for side in SIDES:
            self.tls[side].makeConnection(self.tr[side])

    @staticmethod
    def other(side):
        return "s" if side == "c" else "c"

    def pending(self, side):
        """bytes written by `side`'s TLS layer to its transport and not yet delivered to the peer"""
        t = self.tr[side]
        if len(t.stream) > 1:
            t.stream = [b"".join(t.stream)]
        return t.stream[0] if t.stream else b""

    def step(self, op):
        kind, side = op[0], op[1]
        app, tls, tr = self.app[side], self.tls[side], self.tr[side]
        if kind == "W":
            app.appWrite(pat(op[2], op[3]))
        elif kind == "L":
            if app.producing and not app.hsN:
                return      # (discipline of the producer cases: no loseConnection before the handshake while a producer is registered)
            app.closed = True
            app.transport.loseConnection()
        elif kind == "D":
            peer = self.other(side)
            data = self.pending(peer)
            n = op[2]
            if tr.disconnected or n <= 0 or not data:
                return
            chunk, rest = data[:n], data[n:]
            self.tr[peer].stream = [rest] if rest else []
            tr.bufferReceived(chunk)
        elif kind == "T":
            self.clock[side].advance(0)
        elif kind == "F":
            if tr.disconnecting and not tr.disconnected:
                tr.disconnected = True
                tr.reportDisconnect()
        elif kind == "E":
            peer = self.other(side)
            if self.tr[peer].disconnecting and not self.pending(peer) and not tr.disconnected:
                tr.disconnecting = True
                tr.disconnected = True
                tr.reportDisconnect()
        elif kind == "R":
            # a well-behaved application: one producer at a time, none after it was told the connection is gone
            if app.producing or app.lostN or app.closed:
                return
            p = _Producer(app, op[3], op[4], op[5])
            app.producing = True
            app.transport.registerProducer(p, bool(op[2]))
            if tls._producer is None:      # refused (stopProducing was called): not registered
                app.producing = False
        elif kind == "U":
            if not app.producing or app.lostN:
                return
            app.producing = False
            app.transport.unregisterProducer()
        elif kind == "P":       # the reactor asks a pull producer / resumes a push producer of the lower transport
            if tr.producer is not None:
                tr.producer.resumeProducing()
        else:
            raise ValueError(kind)

    def drain(self):
        for _ in range(self.k + 10):
            for side in SIDES:
                self.step(["D", side, 1 << 30])
            for kind in ("T", "F", "E"):
                for side in SIDES:
                    self.step([kind, side])

    def quiescent(self):
        for side in SIDES:
            tr = self.tr[side]
            if self.pending(side) and not self.tr[self.other(side)].disconnected:
                return False
            if tr.disconnecting and not tr.disconnected:
                return False
            if self.clock[side].getDelayedCalls():
                return False
        return True


def _run(case):
    w = World(case)
    for op in case["ops"]:
        w.step(op)
    if case.get("drain", True):
        w.drain()
    res = {}
    for side in SIDES:
        a, tr = w.app[side], w.tr[side]
        res[side] = {"rcvd": bytes(a.rcvd), "lostN": a.lostN, "late": a.late, "hsN": a.hsN, "tDisc": int(bool(tr.disconnecting)),
                     "tGone": int(bool(tr.disconnected)), "wire": w.pending(side), "accepted": bytes(a.accepted),
                     "closed": a.closed, "producing": a.producing}
    res["quiescent"] = w.quiescent()
    return res


_last = [None, None]


def _result(case):
    key = repr(case)
    if _last[0] != key:
        _last[0], _last[1] = key, _run(case)
    return _last[1]


def run_impl(case):
    _last[0] = None
    r = _result(case)
    return " ".join(
        f"{s}:r={cks(r[s]['rcvd'])},a={cks(r[s]['accepted'])},l={r[s]['lostN']},late={r[s]['late']},hs={r[s]['hsN']},"
        f"td={r[s]['tDisc']},tg={r[s]['tGone']},w={cks(r[s]['wire'])}" for s in SIDES)


# ------------------------------------------------------------------------------------------------
# model line

def _has_producer(case):
    return any(op[0] in "RUP" for op in case["ops"])


def model_line(case):
    if _has_producer(case):
        return None
    cfg = []
    for s in SIDES:
        c = case["cfg"][s]
        hs = c.get("hs")
        cfg.append(f"{1 if c['buf'] else 0},{c['recMax']}," + (f"{hs[0]},{hs[1]}" if hs else "-"))
    ops = []
    for op in case["ops"]:
        ops.append(",".join(str(x) for x in op))
    return f"run {case['k']} {cfg[0]} {cfg[1]} {1 if case.get('drain', True) else 0} " + (";".join(ops) if ops else "-")


# ------------------------------------------------------------------------------------------------
# the property, on the real code

def oracle(case, out):
    if out.startswith("!"):
        return {"key": "raised", "detail": out}
    r = _result(case)
    drained = case.get("drain", True)
    anyClosed = any(r[s]["closed"] for s in SIDES)
    prod = _has_producer(case)
    for s in SIDES:
        o = "s" if s == "c" else "c"
        me, peer = r[s], r[o]
        if me["late"]:
            return {"key": "data-after-connectionLost", "detail": f"{s} got dataReceived after connectionLost"}
        if me["lostN"] > 1:
            return {"key": "connectionLost-twice", "detail": f"{s} got {me['lostN']} connectionLost calls"}
        if me["lostN"] != me["tGone"]:
            return {"key": "connectionLost-mismatch", "detail": f"{s}: transport gone={me['tGone']} but connectionLost x{me['lostN']}"}
        if not peer["accepted"].startswith(me["rcvd"]):
            i = next((i for i, (x, y) in enumerate(zip(me["rcvd"], peer["accepted"])) if x != y), min(len(me["rcvd"]), len(peer["accepted"])))
            key = "reordered" if sorted(me["rcvd"]) == sorted(peer["accepted"][:len(me["rcvd"])]) else "not-a-prefix"
            return {"key": key, "detail": f"{s} received {len(me['rcvd'])} bytes differing from what {o} wrote before its loseConnection "
                                          f"({len(peer['accepted'])} bytes) at offset {i}: got {me['rcvd'][i:i+8].hex()} expected {peer['accepted'][i:i+8].hex()}"}
    if not drained:
        return None
    if any(r[s]["producing"] for s in SIDES):
        return None       # a producer that is still registered legitimately keeps the connection open
    if not r["quiescent"]:
        return {"key": "not-quiescent", "detail": "still work pending after k+10 drain rounds"}
    for s in SIDES:
        o = "s" if s == "c" else "c"
        me, peer = r[s], r[o]
        if anyClosed and not (me["tGone"] and me["lostN"] == 1):
            return {"key": "not-closed", "detail": f"after loseConnection and a full drain {s}: transport gone={me['tGone']} told-to-close={me['tDisc']} connectionLost x{me['lostN']}"}
        if not anyClosed and (me["tDisc"] or me["lostN"]):
            return {"key": "spurious-close", "detail": f"nobody called loseConnection but {s}: told-to-close={me['tDisc']} connectionLost x{me['lostN']}"}
        if not me["closed"] and me["rcvd"] != peer["accepted"]:
            return {"key": "lost-bytes", "detail": f"{s} never called loseConnection and everything was delivered, yet it received {cks(me['rcvd'])} of the "
                                                   f"{cks(peer['accepted'])} bytes {o} wrote before its loseConnection"}
    return None


# ------------------------------------------------------------------------------------------------
# cases

def _cfg(buf=True, recMax=255, hs=None):
    return {"buf": buf, "recMax": recMax, "hs": hs}


def corpus():
    c = []
    # write during the handshake, then a write from handshakeCompleted (plain protocol): order must be kept
    c.append({"k": 4, "cfg": {"c": _cfg(False, 255, [100, 5]), "s": _cfg(False)}, "ops": [["W", "c", 0, 10]], "drain": True})
    # same through the aggregator with a >64000 byte write from handshakeCompleted
    c.append({"k": 4, "cfg": {"c": _cfg(True, 255, [7, 64001]), "s": _cfg(True)}, "ops": [["W", "c", 0, 10], ["T", "c"]], "drain": True})
    # clean close after the handshake, data in flight both ways
    c.append({"k": 4, "cfg": {"c": _cfg(), "s": _cfg()},
              "ops": [["D", "s", 99], ["D", "c", 99], ["D", "s", 99], ["D", "c", 99], ["W", "c", 1, 300], ["W", "s", 9, 20], ["L", "c"]], "drain": True})
    # close during the handshake with nothing written (abort) / with a buffered write
    c.append({"k": 4, "cfg": {"c": _cfg(), "s": _cfg()}, "ops": [["D", "s", 2], ["L", "c"]], "drain": True})
    c.append({"k": 5, "cfg": {"c": _cfg(), "s": _cfg(False)}, "ops": [["W", "s", 3, 17000], ["L", "s"], ["D", "s", 1]], "drain": True})
    # server closes before anything arrived (shutdown() succeeds immediately)
    c.append({"k": 2, "cfg": {"c": _cfg(False, 1), "s": _cfg(False, 3)}, "ops": [["L", "s"], ["W", "c", 0, 4]], "drain": True})
    # both close; byte-by-byte delivery; no drain (intermediate state)
    c.append({"k": 3, "cfg": {"c": _cfg(True, 16), "s": _cfg(True, 200)},
              "ops": [["W", "c", 0, 40], ["T", "c"]] + [["D", "s", 1], ["D", "c", 1]] * 30 + [["L", "c"], ["L", "s"], ["D", "s", 5], ["F", "c"], ["E", "s"]],
              "drain": False})
    # producers (oracle-only)
    c.append({"k": 4, "cfg": {"c": _cfg(), "s": _cfg()}, "ops": [["R", "c", 1, 0, 50, 3], ["P", "c"], ["L", "c"], ["P", "c"], ["U", "c"]], "drain": True})
    # loseConnection while a producer is registered, the producer's last write sits in the aggregator at unregisterProducer
    c.append({"k": 2, "cfg": {"c": _cfg(), "s": _cfg()},
              "ops": [["D", "s", 99], ["D", "c", 99], ["R", "s", 1, 0, 50, 0], ["L", "s"], ["W", "s", 7, 5], ["U", "s"]], "drain": True})
    return c


def _size(rng):
    r = rng.random()
    if r < 0.5:
        return rng.choice([0, 1, 2, 3, 5, 17, 100, 254, 255, 256, 257, 511])
    if r < 0.8:
        return rng.randint(0, 1200)
    if r < 0.93:
        return rng.choice([16383, 16384, 16385, 32767, 32768, 32769, 20000])
    return rng.choice([63999, 64000, 64001, 70000])


def _case(rng, tier, producers=False):
    k = rng.choice([2, 2, 3, 4, 4, 5, 6])
    cfg = {}
    for s in SIDES:
        cfg[s] = _cfg(rng.random() < 0.6, rng.choice([1, 2, 16, 100, 254, 255, 255, 255, rng.randint(1, 255)]),
                      [rng.randrange(256), _size(rng) if rng.random() < 0.15 else rng.choice([1, 5, 300])] if rng.random() < 0.3 else None)
    ops = []
    big = 0
    n = rng.choice([0, 1, 2, 3, 5, 8, 12, 20, 30])
    closers = rng.choice([[], ["c"], ["s"], ["c", "s"], [rng.choice(SIDES)]])
    closeAt = {s: rng.randint(0, n) for s in closers}
    segmode = rng.choice(["all", "small", "mixed"])
    for i in range(n + 1):
        for s in closers:
            if closeAt[s] == i:
                ops.append(["L", s])
        if i == n:
            break
        r = rng.random()
        s = rng.choice(SIDES)
        if r < 0.3:
            sz = _size(rng)
            if sz > 2000:
                big += 1
                if big > 2:
                    sz = sz % 300
            ops.append(["W", s, rng.randrange(256), sz])
        elif r < 0.7:
            seg = {"all": 1 << 20, "small": rng.randint(1, 4), "mixed": rng.choice([1, 2, 3, 7, 100, 1 << 20])}[segmode]
            ops.append(["D", s, seg])
            if rng.random() < 0.5:
                ops.append(["D", "s" if s == "c" else "c", seg])
        elif r < 0.82:
            ops.append(["T", s])
        elif r < 0.9:
            ops.append(["F", s])
        elif r < 0.96:
            ops.append(["E", s])
        else:
            ops.append(["L", s])
        if producers and rng.random() < 0.25:
            ops.append(rng.choice([["R", s, rng.choice([0, 1]), rng.randrange(256), rng.choice([1, 50, 300, 17000]), rng.randint(0, 4)],
                                   ["U", s], ["P", s], ["P", s]]))
    # keep the executable model fast: a write of n bytes through an engine with record limit r costs ~n*n/r list steps
    cap = {s: int((1.5e7 * cfg[s]["recMax"]) ** 0.5) for s in SIDES}
    for op in ops:
        if op[0] == "W" and op[3] > cap[op[1]]:
            op[3] %= 1200
        if op[0] == "R" and op[4] > cap[op[1]]:
            op[4] %= 1200
    for s in SIDES:
        if cfg[s]["hs"] and cfg[s]["hs"][1] > cap[s]:
            cfg[s]["hs"][1] %= 1200
    return {"k": k, "cfg": cfg, "ops": ops, "drain": rng.random() < 0.85}


def generate(rng, tier):
    n = 900 if tier == "quick" else 16000
    for i in range(n):
        yield _case(rng, tier)
    for i in range(n // 6):
        c = _case(rng, tier, producers=True)
        # a producer may be registered only once at a time: keep the schedule legal
        seen = {s: False for s in SIDES}
        ops = []
        for op in c["ops"]:
            if op[0] == "R":
                if seen[op[1]]:
                    continue
                seen[op[1]] = True
            elif op[0] == "U":
                seen[op[1]] = False
            ops.append(op)
        for s in SIDES:                 # a producer that is never unregistered legitimately keeps the connection open
            if seen[s]:
                ops.append(["U", s])
        c["ops"] = ops
        yield c


def search(rng, tier, disagreeing):
    for i in range(3000):
        yield _case(rng, "quick")


def shrink(case):
    ops = case["ops"]
    for i in range(len(ops)):
        if ops[i][0] != "U":
            yield dict(case, ops=ops[:i] + ops[i + 1:])
    for i, op in enumerate(ops):
        if op[0] == "W" and op[3] > 1:
            for m in (op[3] // 2, op[3] - 1):
                yield dict(case, ops=ops[:i] + [[op[0], op[1], op[2], m]] + ops[i + 1:])
    for s in SIDES:
        c = case["cfg"][s]
        if c.get("hs") and c["hs"][1] > 1:
            yield dict(case, cfg=dict(case["cfg"], **{s: dict(c, hs=[c["hs"][0], c["hs"][1] // 2])}))
        if c.get("hs"):
            yield dict(case, cfg=dict(case["cfg"], **{s: dict(c, hs=None)}))
    if case["k"] > 2:
        yield dict(case, k=case["k"] - 1)


def tag(case, out):
    ops = case["ops"]
    closers = "".join(sorted({op[1] for op in ops if op[0] == "L"}))
    sizes = {("0" if op[3] == 0 else "s" if op[3] <= 255 else "m" if op[3] <= 16384 else "l" if op[3] <= 64000 else "x") for op in ops if op[0] == "W"}
    fin = ",".join(p.split(",l=")[1][:1] + p.split("tg=")[1][:1] for p in out.split(" ")) if not out.startswith("!") else out
    kinds = "".join("B" if case["cfg"][s]["buf"] else "P" for s in SIDES) + "".join("h" if case["cfg"][s].get("hs") else "-" for s in SIDES)
    return f"k{case['k']}:{kinds}:L{closers}:{''.join(sorted(sizes))}:{'d' if case.get('drain', True) else 'n'}:{'p' if _has_producer(case) else ''}:{fin}"
