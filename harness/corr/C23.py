"""C23 — HTTP/1.1 client: every request Deferred fires exactly once, the body consumer sees exactly the body
received and exactly one connectionLost with the right reason.

Real `HTTP11ClientProtocol` (+ `HTTPClientParser`, `Response`, the `http.py` transfer decoders) driven on a
`StringTransport` by an event script, against the Lean model (`TwistedModel/Http/Client.lean`), plus a property
oracle that knows, from the generator, where every body byte sits on the wire."""
from zope.interface import implementer

from twisted.internet.defer import Deferred
from twisted.internet.error import ConnectionDone, ConnectionLost
from twisted.internet.protocol import Protocol
from twisted.internet.testing import StringTransport
from twisted.python.failure import Failure
from twisted.web import _newclient as nc
from twisted.web.http_headers import Headers
from twisted.web.iweb import UNKNOWN_LENGTH, IBodyProducer

HEADLINE = "TwistedProps.C23.request_deferred_fires_once"
RULE = ("event scripts for one request on HTTP11ClientProtocol: response streams generated from a grammar (0..3 interim "
        "1xx responses with ANY 1xx code incl. 101/102; status lines with/without phrase, HTTP/1.0/1.1/odd versions; CRLF or "
        "bare-LF line ends; obs-fold continuation lines; header names in mixed case; header values containing ':' (Date, "
        "Location, ETag); framing by Content-Length (single, repeated, comma list, "
        "leading zeros, OWS), chunked (extensions, trailers), connection close, 204/304/HEAD, Content-Length: 0; "
        "Connection: close) cut at EVERY truncation point for short responses and at random ones for long ones, delivered "
        "whole / byte-at-a-time / random k-way incl. empty deliveries, with extra bytes after the response; hand-built "
        "malformed streams (bad status line/version/code, header without colon, leading continuation line, non-token "
        "names, conflicting/invalid Content-Length, unknown Transfer-Encoding, malformed chunk sizes, lines of "
        "16383..16387 bytes, 4300/4301-digit numbers); crossed with GET/HEAD, persistent or not, deliverBody in the "
        "callback / after a later event / after the loss / never, request body still being written (written / failed at "
        "event k, or INSIDE startProducing(): Deferred already fired / failed, or raising inside or outside `Exception`), "
        "abort() and cancel() at event k, ConnectionDone or ConnectionLost; CHAINS of requests on one persistent connection: "
        "the request of the case is issued after a generated earlier exchange (any bodiless / Content-Length / chunked "
        "response, any segmentation) or RE-ENTRANTLY from the earlier request's callback or from the earlier body consumer's "
        "connectionLost (readBody().addCallback(next request)); a quiescent callback that raises (inside or outside "
        "`Exception`); a holding transport that reads nothing while paused and hands the queued bytes over from inside "
        "resumeProducing() with deliverBody() anywhere after the head; the body consumer's callbacks are checked for ORDER "
        "(makeConnection, dataReceived*, connectionLost, nothing after). distinct = (generator class, framing, where the cut "
        "falls, delivery shape, request mode incl. earlier exchange / producer mode / callback / transport mode, deliver "
        "timing, extra events, fire outcome, body end)")
ASSUMES = [
    "one request at a time per connection (the protocol refuses a second with RequestNotSent); a persistent connection "
    "that returned to QUIESCENT is in the same state as a fresh one, also when the next request is issued re-entrantly "
    "from the earlier request's callback (bodiless response) or from the earlier body consumer's connectionLost "
    "(checked in the tie by the `warm` cases: the model runs the request of the case on a fresh connection, the real "
    "code runs it after / from inside a generated earlier exchange, whose own outcome the oracle checks too)",
    "the body consumer and the application callbacks return normally and do not re-enter the protocol, except that "
    "deliverBody may be called from inside the request Deferred's callback and the next request may be issued from "
    "the two places above; the quiescent callback may raise anything",
    "the transport's pauseProducing/resumeProducing/loseConnection never raise (StringTransport(lenient=True), as in "
    "test_newclient); data may still be delivered after loseConnection (TLS does this), the script decides; "
    "resumeProducing() may deliver queued bytes re-entrantly (holding transport: the model delivers them right after "
    "the call that resumed, the tie checks that this is the same; bytes still unread when the connection is lost are "
    "gone and do not count as received)",
    "the request body producer, when there is one, writes nothing and finishes or fails when the script says so, "
    "possibly inside startProducing() (fired Deferred, or a raise inside or outside `Exception`: modelled as "
    "written/failed before the first event)",
    "connectionLost is delivered once, after the last dataReceived (reactor contract)",
    "documented limit: status/header lines of at most 16384 bytes (LineReceiver.MAX_LENGTH). A longer line makes the "
    "parser drop its buffer and call loseConnection (pinned by test_receiveResponseHeadersTooLong: the request fails "
    "with ResponseFailed([ConnectionDone]) once the connection is lost); bytes a transport still delivers after that are "
    "parsed as if the long line had not been there. Model and tie cover this (classes long-*); the oracle checks only "
    "exactly-once for such streams, not body exactness; the which-value and whole-stream body theorems exclude them "
    "by hypothesis (scan ... != tooLong)",
    "which-value and whole-stream body theorems (request_fires_response_iff_head_complete, body_whole_stream*): the "
    "request has been written before the first response byte and neither abort() nor cancel() is called; chunked "
    "bodies meet the C22 preconditions (size line <= 1023 bytes, trailers <= 65536 bytes)",
]
TRUSTED = ["the generator's wire map (offset of every body byte, head length, total length) used by the oracle",
           "CPython int() on ASCII digit strings incl. the 4300-digit limit"]
MANIFEST = {
    "text": "Lean theorems (TwistedProps/C23.lean) over a transcription of HTTPParser/HTTPClientParser (LineReceiver loop, "
            "status line, headers, 1xx reset, HEAD/204/304, _contentLength, TE lookup), Response's body state machine and "
            "HTTP11ClientProtocol's states. PROVED for unbounded inputs: (a) request_deferred_fires_once - the request "
            "Deferred fires exactly once for EVERY event script containing the loss of the connection: deliveries of "
            "arbitrary bytes (any response, any segmentation, any truncation point) interleaved with abort, cancel, request "
            "written/failed, deliverBody (invariant over a control projection of the state, preserved by every event incl. "
            "the whole dataReceived path); at most once without the loss; (b) request_fires_response_iff_head_complete - "
            "WHICH value: on a written request, for every script of deliveries (any bytes, any segmentation) and deliverBody "
            "calls followed by the loss, the firing is the response iff the bytes received contain a complete well-formed "
            "head (a pure, segmentation-independent scan by the parser's own rules: scan_append, lrLoop_scan), else "
            "ResponseFailed([the parser's exception]) / ResponseNeverReceived([r]) / ResponseFailed([r]); (c) the wire -> "
            "decoder -> body protocol link, whole stream: body_whole_stream (the body protocol gets exactly what the C22 "
            "decoder emits on the bytes after the head, one makeConnection, one connectionLost, nothing if deliverBody is "
            "never called) and per framing body_whole_stream_no_body / _content_length (first n bytes; ResponseDone iff n "
            "arrived else ResponseFailed([r,_DataLoss])) / _until_close (PotentialDataLoss) / _chunked (via C22 decode_encode: "
            "the chunk data, ResponseDone) / _chunked_truncated (via C22 data_loss_on_truncation: ResponseFailed([r,_DataLoss])); "
            "(d) the Response body state machine lemmas; "
            "(e) request_deferred_fires_once_quiescent_raises / _at_most_once_quiescent_raises: (a) over the enlarged space of "
            "initial states initQ (the application's quiescent callback raises: logged, loseConnection, parser disconnected). "
            "Chains of requests, producers failing inside startProducing() and the holding transport are event scripts of "
            "the same model (fresh connection / leading written|failed event / the schedule computed by the driver's "
            "runHold), so (a) covers them; that these reductions are right is checked by the tie. PARTIAL: (b),(c) assume the request already written and no "
            "abort/cancel/written/failed among the deliveries (there: exactly-once only) and no head line over 16384 bytes; "
            "the bytes of a TRUNCATED chunked body are characterised as the C22 decoder's output on the received prefix; "
            "those remaining cases rest on the differential tie and the wire-map oracle.",
    "note": "trusts Lean kernel, the hand-written model (differentially tied), CPython bytes.split/strip/lower/int",
    "technique": "Lean 4 proof (state-machine invariants over event scripts, pure head scan, C22 decoder theorems) + "
                 "differential tie + wire-map oracle",
    "design_ref": "DESIGN.md §7 C23",
}


def hx(b):
    return bytes(b).hex() if b else "-"


def unhx(s):
    return b"" if s == "-" else bytes.fromhex(s)


# ------------------------------------------------------------------------------------------------
# running the real code

class _Boom(Exception):
    """what the request body producer fails with"""


class _BaseBoom(BaseException):
    """the same, outside the `Exception` hierarchy (printed under the same name: the wrapped reason is what counts)"""


_BaseBoom.__name__ = "_Boom"


class _QuiescentBoom(Exception):
    """what a misbehaving quiescent callback raises"""


@implementer(IBodyProducer)
class _Producer:
    length = UNKNOWN_LENGTH

    def __init__(self, mode=None):
        self.d = None
        self.stopped = 0
        self.mode = mode            # None: asynchronous; "raise"/"raise-base": startProducing raises;
        #                             "failed"/"done": startProducing returns a Deferred that has fired already

    def startProducing(self, consumer):
        if self.mode == "raise":
            raise _Boom()
        if self.mode == "raise-base":
            raise _BaseBoom()
        self.d = Deferred()
        if self.mode == "done":
            self.d.callback(None)
        elif self.mode == "failed":
            self.d.errback(Failure(_Boom()))
        return self.d

    def stopProducing(self):
        self.stopped += 1

    def pauseProducing(self):
        pass

    def resumeProducing(self):
        pass


class _Body(Protocol):
    """logs what the body consumer is told, and whether it was told in a legal order:
    makeConnection, then dataReceived*, then connectionLost, nothing afterwards"""

    def __init__(self, log, on_lost=None):
        self.log = log
        self.on_lost = on_lost

    def _seq(self, what):
        st = self.log.setdefault("st", "new")
        ok = {"made": st == "new", "data": st == "open", "lost": st == "open"}[what]
        if not ok:
            self.log.setdefault("order", []).append("%s-when-%s" % (what, st))
        if what == "made":
            self.log["st"] = "open"
        elif what == "lost":
            self.log["st"] = "closed"

    def makeConnection(self, transport):
        self._seq("made")
        self.log["made"] += 1

    def dataReceived(self, data):
        self._seq("data")
        self.log["data"] += data

    def connectionLost(self, reason):
        self._seq("lost")
        self.log["lost"].append(_reason(reason))
        if self.on_lost is not None:
            self.on_lost()


class _HoldingTransport(StringTransport):
    """A transport that, like a real one, reads nothing while it is paused, and hands over what had arrived in the
    meantime from inside resumeProducing() (as a TLS or otherwise buffering transport does)."""

    def __init__(self):
        StringTransport.__init__(self, lenient=True)
        self.pending = []
        self.fed = 0
        self.proto = None

    def feed(self, data):
        if self.producerState == "paused":
            self.pending.append(data)
        else:
            self.fed += len(data)
            self.proto.dataReceived(data)

    def resumeProducing(self):
        StringTransport.resumeProducing(self)
        while self.pending and self.producerState == "producing":
            data = self.pending.pop(0)
            self.fed += len(data)
            self.proto.dataReceived(data)


def _reason(f):
    """canonical name of a Failure: class name, wrapped reasons in []"""
    if not isinstance(f, Failure):
        return "?" + type(f).__name__
    v = f.value
    name = type(v).__name__
    if isinstance(v, nc._WrapperException):
        inner = []
        for r in v.reasons:
            inner.append(_reason(r) if isinstance(r, Failure) else "x" + type(r).__name__)
        return name + "[" + ",".join(inner) + "]"
    return name


def _new_body():
    return {"made": 0, "data": b"", "lost": []}


def _drive(c):
    """Run the script; returns dict of observables."""
    hold = c.get("resume") == "sync"
    transport = _HoldingTransport() if hold else StringTransport(lenient=True)
    quiet = []
    qraise = c.get("qraise")

    def quiescent(p):
        quiet.append(1)
        if qraise == "exc":
            raise _QuiescentBoom()
        if qraise == "base":
            raise _BaseBoom()

    proto = nc.HTTP11ClientProtocol(quiescent)
    proto.makeConnection(transport)
    if hold:
        transport.proto = proto
    mode = c.get("sync")
    producer = _Producer(mode) if (c["async"] or mode) else None
    body = _new_body()
    fires = []
    holder = {}
    excs = []
    warm_bad = []

    def deliver():
        if "resp" in holder and not holder.get("delivered"):
            holder["delivered"] = True
            holder["resp"].deliverBody(_Body(body))

    def fired(r):
        if isinstance(r, Failure):
            fires.append(_reason(r))
        else:
            fires.append("response")
            holder["resp"] = r
            if c["deliver"] == "now":
                deliver()
        return None

    def issue():
        """issue THE request of the case (once)"""
        if "d" in holder:
            return
        quiet.clear()
        req = nc.Request(b"HEAD" if c["head"] else b"GET", b"/", Headers({b"host": [b"h"]}), producer,
                         persistent=c["persistent"])
        holder["d"] = None
        holder["d"] = proto.request(req)
        holder["d"].addBoth(fired)

    warm = c.get("warm")
    if warm is True:
        # the fixed warm-up of the first version of this check
        warm = {"head": False, "at": "after", "segs": [hx(b"HTTP/1.1 200 OK\r\nContent-Length: 2\r\n\r\nok")],
                "body": hx(b"ok"), "deliver": False}
    if warm:
        # an earlier request/response on the same (persistent) connection; the request of the case is issued after it,
        # or re-entrantly from the first request's callback / from the first body consumer's connectionLost
        body1 = _new_body()
        fires1 = []
        at = warm["at"]

        def fired1(r):
            fires1.append("F" if isinstance(r, Failure) else "response")
            if not isinstance(r, Failure):
                if warm.get("deliver", True):
                    r.deliverBody(_Body(body1, on_lost=issue if at == "body-lost" else None))
                if at == "callback":
                    issue()
            return None

        d1 = proto.request(nc.Request(b"HEAD" if warm["head"] else b"GET", b"/", Headers({b"host": [b"h"]}), None,
                                      persistent=True))
        d1.addBoth(fired1)
        for seg in warm["segs"]:
            try:
                proto.dataReceived(unhx(seg))
            except Exception as e:
                warm_bad.append("raised-" + type(e).__name__)
        if fires1 != ["response"]:
            warm_bad.append("fires1=%s" % ",".join(fires1))
        if warm.get("deliver", True) and (body1["made"] != 1 or body1["data"] != unhx(warm["body"])
                                          or body1["lost"] != ["ResponseDone"] or body1.get("order")):
            warm_bad.append("body1=%d:%s:%s:%s" % (body1["made"], hx(body1["data"]), ";".join(body1["lost"]),
                                                  ",".join(body1.get("order", []))))
        if at != "after" and "d" not in holder:
            warm_bad.append("second-request-never-triggered")
        if at == "after" and (proto._state != "QUIESCENT" or len(quiet) != 1):
            warm_bad.append("not-quiescent=%s/%d" % (proto._state, len(quiet)))
    issue()
    d = holder["d"]
    for i, ev in enumerate(c["events"]):
        try:
            k = ev[0]
            if k == "data":
                if hold:
                    transport.feed(unhx(ev[1]))
                else:
                    proto.dataReceived(unhx(ev[1]))
            elif k == "lost":
                if hold:
                    del transport.pending[:]
                proto.connectionLost(Failure(ConnectionDone() if ev[1] == "done" else ConnectionLost()))
            elif k == "deliver":
                deliver()
            elif k == "written":
                if producer is not None and producer.d is not None and not producer.d.called:
                    producer.d.callback(None)
            elif k == "writeFailed":
                if producer is not None and producer.d is not None and not producer.d.called:
                    producer.d.errback(Failure(_Boom()))
            elif k == "abort":
                proto.abort()
            elif k == "cancel":
                d.cancel()
            else:
                raise AssertionError(ev)
        except Exception as e:  # an exception escaping a protocol entry point is an observable
            excs.append(type(e).__name__)
    return {"state": proto._state, "fires": fires, "body": body, "excs": excs, "quiet": len(quiet),
            "disc": transport.disconnecting, "abrt": transport.disconnected, "prod": transport.producerState,
            "stopped": producer.stopped if producer else 0, "has_resp": "resp" in holder,
            "delivered": bool(holder.get("delivered")), "warm_bad": warm_bad,
            "fed": transport.fed if hold else None}


def _show(o):
    b = o["body"]
    return ("state=%s fires=%s body=%d:%s:%s exc=%s q=%d disc=%d abrt=%d prod=%s stopw=%d" % (
        o["state"], ";".join(o["fires"]) or "-", b["made"], hx(b["data"]), ";".join(b["lost"]) or "-",
        ";".join(o["excs"]) or "-", o["quiet"], int(o["disc"]), int(o["abrt"]), o["prod"], o["stopped"])
        # the following fields appear only when something is wrong / in oracle-only modes (the model line has none)
        + (" order=BAD(%s)" % ",".join(b["order"]) if b.get("order") else "")
        + (" warm=BAD(%s)" % ",".join(o["warm_bad"]) if o["warm_bad"] else "")
        + (" fed=%d" % o["fed"] if o["fed"] is not None else ""))


_quiet = []


def run_impl(c):
    if not _quiet:
        # _newclient logs swallowed failures; without an observer the log beginner prints them to stderr
        from twisted.logger import globalLogBeginner
        try:
            globalLogBeginner.beginLoggingTo([lambda e: None], redirectStandardIO=False, discardBuffer=True)
        except Exception:
            pass
        _quiet.append(1)
    return _show(_drive(c))


# ------------------------------------------------------------------------------------------------
# the line for the Lean driver

_EV = {"deliver": "v", "written": "w", "writeFailed": "f", "abort": "a", "cancel": "c"}


_SYNC = {"raise": "f", "raise-base": "f", "failed": "f", "done": "w"}


def model_line(c):
    evs = []
    if c.get("sync"):
        # the request body producer finished/failed inside startProducing(): as if the first event were written/failed
        evs.append(_SYNC[c["sync"]])
    for ev in c["events"]:
        if ev[0] == "data":
            evs.append("d:" + ev[1])
        elif ev[0] == "lost":
            evs.append("l:" + ev[1])
        else:
            evs.append(_EV[ev[0]])
    if c.get("resume"):
        # through the holding transport (delivers from inside resumeProducing()); not combined with the other modes
        return "runh %d %d %d %s %s" % (c["head"], c["persistent"], bool(c["async"]), c["deliver"], ",".join(evs) or "none")
    if c.get("qraise"):
        # the quiescent callback raises (inside or outside `Exception`: `failuresHandled` treats both alike)
        return "runq %d %d %d %s 1 %s" % (c["head"], c["persistent"], bool(c["async"] or c.get("sync")), c["deliver"],
                                          ",".join(evs) or "none")
    return "run %d %d %d %s %s" % (c["head"], c["persistent"], bool(c["async"] or c.get("sync")), c["deliver"],
                                   ",".join(evs) or "none")


# ------------------------------------------------------------------------------------------------
# generators: a response with its wire map

CRLF = b"\r\n"
BODY_ALPHA = [b"a", b"b", b"\r", b"\n", b"\r\n", b"0", b"HTTP/1.1 200 OK\r\n\r\n", b"\x00", b"\xff", b"5\r\n", b";"]
NAMES = [b"X-A", b"Server", b"content-type", b"ETag", b"x-b.c_d", b"Keep-Alive", b"TE", b"Upgrade", b"Date", b"Location"]
VALUES = [b"v", b"", b"text/html; charset=utf-8", b"a, b", b"  padded \t", b"close", b"chunked", b"\xe9t\xe9", b"7",
          b"Mon, 01 Jan 2024 10:00:00 GMT", b"http://h:8080/p?q=1:2", b":", b"a:b::", b"W/\"x:y\""]
INTERIM = [b"HTTP/1.1 100 Continue", b"HTTP/1.1 103 Early Hints", b"HTTP/1.0 199", b"HTTP/1.1 100 ",
           b"HTTP/1.1 101 Switching Protocols", b"HTTP/1.1 102 Processing", b"HTTP/1.1 101", b"HTTP/1.1 150 x:y"]


def _mixcase(rng, b):
    return bytes(rng.choice([c, ord(chr(c).upper()), ord(chr(c).lower())]) if c < 128 else c for c in b)


def _chunk_encode(rng, body, fancy):
    """→ (wire, offsets of the body bytes within wire)"""
    out, offs, pos = b"", [], 0
    while pos < len(body):
        n = rng.choice([1, 1, 2, 3, 5, 16, 40])
        piece = body[pos:pos + n]
        size = b"%x" % len(piece)
        if fancy and rng.random() < 0.4:
            size = b"0" * rng.randint(1, 2) + (size.upper() if rng.random() < 0.5 else size)
        if fancy and rng.random() < 0.3:
            size += rng.choice([b";x", b";x=y", b';q="a b"', b";"])
        out += size + CRLF
        offs.extend(range(len(out), len(out) + len(piece)))
        out += piece + CRLF
        pos += n
    last = b"0"
    if fancy and rng.random() < 0.3:
        last = rng.choice([b"00", b"0;last", b"000"])
    out += last + CRLF
    if fancy and rng.random() < 0.3:
        for _ in range(rng.randint(1, 2)):
            out += rng.choice([b"T: v", b"X-Trailer: 1", b"\rA\r"]) + CRLF
    out += CRLF
    return out, offs


def gen_response(rng, head, big=False):
    eol = rng.choice([CRLF, CRLF, CRLF, b"\n"])
    wire = b""
    cls = []
    for _ in range(rng.choice([0, 0, 0, 1, 2, 3])):
        wire += (rng.choice(INTERIM) if rng.random() < 0.8 else b"HTTP/1.1 1%02d I" % rng.randint(0, 99)) + eol
        if rng.random() < 0.4:
            wire += rng.choice([b"Link: </x>", b"Content-Length: 5", b"Transfer-Encoding: chunked", b"X:\ty",
                                b"Upgrade: h2c", b"Date: Mon, 01 Jan 2024 10:00:00 GMT", b"Connection: Upgrade"]) + eol
        wire += eol
        cls.append("1xx")
    version = rng.choice([b"HTTP/1.1"] * 4 + [b"HTTP/1.0", b"HTTP/2.7", b"ICY/1.1", b"HTTP/01.1_0"])
    framing = rng.choice(["cl", "cl", "cl-dup", "cl-list", "cl-zeros", "chunked", "chunked", "chunked-fancy", "close", "close",
                          "cl0", "204", "304"])
    code = {"204": b"204", "304": b"304"}.get(framing) or rng.choice([b"200", b"200", b"404", b"500", b"201", b"299", b"600", b"+200", b"2_0_0"])
    status = version + b" " + code
    r = rng.random()
    if r < 0.6:
        status += b" " + rng.choice([b"OK", b"Not Found", b"", b"Fine  by me"])
    wire += status + eol
    body = b"".join(rng.choice(BODY_ALPHA) for _ in range(rng.choice([0, 1, 1, 2, 3, 5, 9] + ([60, 300] if big else []))))
    if framing in ("cl0",):
        body = b""
    hdrs = []
    for _ in range(rng.choice([0, 0, 1, 2, 3])):
        name, val = _mixcase(rng, rng.choice(NAMES)), rng.choice(VALUES)
        if name.lower() in (b"te",) and False:
            continue
        line = name + b":" + rng.choice([b" ", b"", b"\t", b"  "]) + val
        if rng.random() < 0.2:
            line += eol + rng.choice([b" ", b"\t"]) + rng.choice([b"folded", b"more stuff", b""])
            cls.append("fold")
        hdrs.append(line)
    n = len(body)
    if framing == "cl" or framing == "cl0":
        hdrs.append(_mixcase(rng, b"Content-Length") + b": " + b"%d" % n)
    elif framing == "cl-dup":
        hdrs.append(b"Content-Length: %d" % n)
        hdrs.append(b"content-length:%d" % n if rng.random() < 0.5 else b"Content-Length: 0%d" % n)
    elif framing == "cl-list":
        hdrs.append(b"Content-Length: %d, %d" % (n, n) if rng.random() < 0.5 else b"Content-Length: %d ,\t00%d,%d" % (n, n, n))
    elif framing == "cl-zeros":
        hdrs.append(b"Content-Length: " + b"0" * rng.randint(1, 3) + b"%d" % n + rng.choice([b"", b" ", b"\t"]))
    elif framing.startswith("chunked"):
        hdrs.append(_mixcase(rng, b"Transfer-Encoding") + b": " + _mixcase(rng, b"chunked"))
        if rng.random() < 0.3:
            hdrs.append(b"Content-Length: 3")          # ignored when Transfer-Encoding is present
            cls.append("te+cl")
    elif framing in ("204", "304"):
        if rng.random() < 0.4:
            hdrs.append(b"Content-Length: 7")          # no body all the same
    if (head or framing in ("204", "304")) and rng.random() < 0.4:
        # a bodiless response (HEAD / 204 / 304) stays bodiless whatever framing headers it carries: RFC 9112 §6.3 rule 1
        # comes before the Transfer-Encoding rule (seeded change C23-3 evaluated Transfer-Encoding first)
        hdrs.append(_mixcase(rng, b"Transfer-Encoding") + b": " + _mixcase(rng, b"chunked"))
        cls.append("nobody+te")
    if rng.random() < 0.25:
        hdrs.append(rng.choice([b"Connection: close", b"connection: close", b"Connection: Close", b"Connection: keep-alive"]))
        cls.append("conn")
    rng.shuffle(hdrs)
    for h in hdrs:
        wire += h + eol
    wire += eol
    headlen = len(wire)
    nobody = head or framing in ("204", "304") or (framing in ("cl", "cl0", "cl-dup", "cl-list", "cl-zeros") and n == 0)
    if head or framing in ("204", "304"):
        body, offs, total = b"", [], headlen
        framing_eff = "none"
    elif framing.startswith("chunked"):
        enc, o = _chunk_encode(rng, body, framing == "chunked-fancy")
        offs = [headlen + x for x in o]
        wire += enc
        total = len(wire)
        framing_eff = "chunked"
    elif framing == "close":
        offs = list(range(headlen, headlen + n))
        wire += body
        total = None
        framing_eff = "close"
    else:
        offs = list(range(headlen, headlen + n))
        wire += body
        total = len(wire)
        framing_eff = "none" if n == 0 else "cl"
    if total is not None and rng.random() < 0.3:
        wire += rng.choice([b"x", b"\r\n", b"HTTP/1.1 200 OK\r\nContent-Length: 1\r\n\r\nZ", b"0\r\n\r\n"])
        cls.append("extra")
    if eol == b"\n":
        cls.append("lf")
    return {"wire": wire, "headlen": headlen, "offs": offs, "total": total, "framing": framing_eff, "body": body,
            "nobody": bool(nobody), "cls": framing + ("+" + "+".join(sorted(set(cls))) if cls else "")}


MALFORMED = [
    b"garbage\r\n\r\n", b"HTTP/1.1\r\n\r\n", b"HTTP/1.1 abc OK\r\n\r\n", b"HTTP/1.1 200\r\n\r\n", b"HTTP 200 OK\r\n\r\n",
    b"HTTP/1 200 OK\r\n\r\n", b"HTTP/1.-1 200 OK\r\n\r\n", b"HTTP/-1.1 200 OK\r\n\r\n", b"HTTP/1.1.1 200 OK\r\n\r\n",
    b"H/T/1.1 200 OK\r\n\r\n", b"HTTP/ 1 . 1 200 OK\r\n\r\nxyz", b"HTTP/1.1  200 OK\r\n\r\n", b"HTTP/1.1 \t200 OK\r\n\r\nabc",
    b"HTTP/1.1 -5 OK\r\n\r\nabc", b"HTTP/1.1 1_0_0 C\r\n\r\nHTTP/1.1 204 N\r\n\r\n", b"HTTP/1.1 2__0 OK\r\n\r\n",
    b"HTTP/1.1 200_ OK\r\n\r\n", b"HTTP/1.1 \xd9\xa1 OK\r\n\r\n", b"HTTP/1.1 2\x000 OK\r\n\r\n", b"\r\n\r\n",
    b"HTTP/1.1 200 OK\r\n foo: bar\r\n\r\n", b"HTTP/1.1 200 OK\r\nno colon here\r\n\r\n", b"HTTP/1.1 200 OK\r\n: empty\r\n\r\n",
    b"HTTP/1.1 200 OK\r\nBad Name: x\r\n\r\n", b"HTTP/1.1 200 OK\r\nContent-Length : 3\r\n\r\nabc",
    b"HTTP/1.1 200 OK\r\nX-\xe9: x\r\n\r\n", b"HTTP/1.1 200 OK\r\nContent-Length: 3\r\nContent-Length: 4\r\n\r\nabcd",
    b"HTTP/1.1 200 OK\r\nContent-Length: 3, 4\r\n\r\nabcd", b"HTTP/1.1 200 OK\r\nContent-Length: 3,\r\n\r\nabcd",
    b"HTTP/1.1 200 OK\r\nContent-Length: +3\r\n\r\nabc", b"HTTP/1.1 200 OK\r\nContent-Length: -3\r\n\r\nabc",
    b"HTTP/1.1 200 OK\r\nContent-Length: 3_0\r\n\r\nabc", b"HTTP/1.1 200 OK\r\nContent-Length:\r\n\r\nabc",
    b"HTTP/1.1 200 OK\r\nContent-Length: 0x3\r\n\r\nabc", b"HTTP/1.1 200 OK\r\nContent-Length: 3\r3\r\n\r\nabc",
    b"HTTP/1.1 200 OK\r\nContent-Length: \x0b3\r\n\r\nabc", b"HTTP/1.1 200 OK\r\nContent-Length: 3\r\n\t\r\n\r\nabc",
    b"HTTP/1.1 200 OK\r\nContent-Length: 1\r\n 2\r\n\r\n" + b"z" * 14, b"HTTP/1.1 200 OK\r\nContent-Length: 1\r\n\t2\r\n\r\n" + b"z" * 14,
    b"HTTP/1.1 200 OK\r\nTransfer-Encoding: gzip\r\n\r\nabc", b"HTTP/1.1 200 OK\r\nTransfer-Encoding: gzip, chunked\r\n\r\n0\r\n\r\n",
    b"HTTP/1.1 200 OK\r\nTransfer-Encoding:\r\n\r\nabc", b"HTTP/1.1 200 OK\r\nTransfer-Encoding: chunked\r\nTransfer-Encoding: gzip\r\n\r\n1\r\na\r\n0\r\n\r\n",
    b"HTTP/1.1 200 OK\r\nTransfer-Encoding: chunked\r\n\r\nzz\r\nabc", b"HTTP/1.1 200 OK\r\nTransfer-Encoding: chunked\r\n\r\n3\r\nabcXX0\r\n\r\n",
    b"HTTP/1.1 200 OK\r\nTransfer-Encoding: chunked\r\n\r\n3\r\nab", b"HTTP/1.1 200 OK\r\nTransfer-Encoding: chunked\r\n\r\n-1\r\n",
    b"HTTP/1.1 200 OK\r\nTransfer-Encoding: chunked\r\n\r\n3;a\\b\r\nabc\r\n0\r\n\r\n",
    b"HTTP/1.1 200 OK\r\nTransfer-Encoding: chunked\r\n\r\n1\nabc", b"HTTP/1.1 200 OK\r\r\nContent-Length: 2\r\r\n\r\nab",
    b"HTTP/1.1 200 OK\r\n\rContent-Length: 2\r\n\r\nab", b"HTTP/1.1 200 OK\nContent-Length: 2\n\r\nab",
    b"HTTP/1.1 100 C\r\n\r\n", b"HTTP/1.1 100 C\r\n\r\nHTTP/1.1 100 C\r\nX: y\r\n\r\nbogus\r\n",
    b"HTTP/1.1 100 C\r\nTransfer-Encoding: bogus\r\n\r\nHTTP/1.1 200 OK\r\nContent-Length: 1\r\n\r\nq",
    b"HTTP/1.1 200 OK\r\nConnection: close\r\nConnection: x\r\nContent-Length: 1\r\n\r\nq",
    b"HTTP/1.1 200 OK\r\nConnection: x, close\r\nContent-Length: 1\r\n\r\nq",
]


def _long_cases():
    M = 16384
    out = []
    for n in (M - 1, M, M + 1, M + 2):
        # the whole line incl. "X: " and the CR is n bytes long before the LF
        filler = b"a" * (n - len(b"X: ") - 1)
        out.append((b"HTTP/1.1 200 OK\r\nX: " + filler + b"\r\nContent-Length: 2\r\n\r\nab", "long-header-%d" % (n - M)))
        out.append((b"HTTP/1.1 200 " + b"p" * (n - 14) + b"\r\nContent-Length: 2\r\n\r\nab", "long-status-%d" % (n - M)))
    for d in (4299, 4300, 4301):
        out.append((b"HTTP/1.1 200 OK\r\nContent-Length: " + b"0" * (d - 1) + b"2\r\n\r\nab", "cl-digits-%d" % d))
        out.append((b"HTTP/1.1 " + b"0" * (d - 3) + b"200 OK\r\nContent-Length: 2\r\n\r\nab", "code-digits-%d" % d))
        out.append((b"HTTP/1." + b"0" * (d - 1) + b"1 200 OK\r\nContent-Length: 2\r\n\r\nab", "minor-digits-%d" % d))
    out.append((b"HTTP/1.1 200 OK\r\nTransfer-Encoding: chunked" + b" " * 16400 + b"\r\n\r\n2\r\nab\r\n0\r\n\r\n", "long-te"))
    return out


def _segment(rng, data, how):
    if how == "whole":
        return [data] if data else []
    if how == "bytes":
        return [data[i:i + 1] for i in range(len(data))]
    k = rng.randint(1, 5)
    pts = sorted(rng.randint(0, len(data)) for _ in range(k))
    segs = [data[a:b] for a, b in zip([0] + pts, pts + [len(data)])]
    if rng.random() < 0.7:
        segs = [x for x in segs if x]
    return segs


def _case(rng, wire, cut, how, *, head=False, persistent=False, asy=False, deliver="now", warm=False, extras=(),
          reason=None, spec=None, cls="", late=None, sync=None, qraise=None, resume=None):
    """events: the first `cut` bytes of wire in segments, then the loss; `extras` = (event name, position) inserted."""
    evs = [["data", hx(x)] for x in _segment(rng, wire[:cut], how)]
    evs.append(["lost", reason or rng.choice(["done", "lost"])])
    for name, pos in extras:
        pos = min(max(pos, 0), len(evs))
        evs.insert(pos, [name])
    if late:
        evs.extend([x] for x in late)
    c = {"head": head, "persistent": persistent, "async": asy, "deliver": deliver, "warm": warm, "events": evs,
         "cls": cls, "how": how}
    if sync:
        c["sync"] = sync
    if qraise:
        c["qraise"] = qraise
    if resume:
        c["resume"] = resume
    if spec is not None:
        c["spec"] = {"headlen": spec["headlen"], "offs": spec["offs"], "total": spec["total"], "framing": spec["framing"],
                     "body": hx(spec["body"]), "nobody": spec["nobody"], "cut": cut}
    return c


def H(b):
    return ["data", hx(b)]


def gen_warm(rng, at=None):
    """an earlier, complete exchange on the same persistent connection, and where the request of the case is issued:
    "after" it, from the first request's "callback" (bodiless first response: the connection is QUIESCENT by then), or
    from the first body consumer's connectionLost ("body-lost": what readBody(...).addCallback(next request) does)"""
    while True:
        head1 = rng.random() < 0.2
        sp = gen_response(rng, head1)
        parts = sp["cls"].split("+")
        if sp["total"] is None or "conn" in parts or "extra" in parts:
            continue
        break
    wire = sp["wire"][:sp["total"]]
    if at is None:
        at = rng.choice(["after", "body-lost", "body-lost", "callback" if sp["nobody"] else "body-lost"])
    if at == "callback" and not sp["nobody"]:
        at = "body-lost"
    segs = [x for x in _segment(rng, wire, rng.choice(["whole", "whole", "bytes", "random"])) if x]
    return {"head": head1, "at": at, "segs": [hx(x) for x in segs], "body": hx(sp["body"]),
            "deliver": True if at == "body-lost" else rng.random() < 0.6, "cls": sp["cls"].split("+")[0]}


def corpus():
    L = ["lost", "done"]

    def c(events, head=False, persistent=False, asy=False, deliver="now", cls="corpus"):
        return {"head": head, "persistent": persistent, "async": asy, "deliver": deliver, "warm": False,
                "events": events, "cls": cls, "how": "corpus"}
    return [
        # witnesses of the defects of the unchanged tree (see known-findings.txt)
        c([H(b"HTTP/1.1 200 OK\r\n\r\nabc"), ["abort"], L], cls="w-abort-close-delimited"),
        # bodiless status with framing headers (seeded change C23-3): no body, quiescent at once on a persistent connection
        c([H(b"HTTP/1.1 304 Not Modified\r\nETag: \"x\"\r\nTransfer-Encoding: chunked\r\n\r\n"), L], persistent=True, cls="nobody-te"),
        c([H(b"HTTP/1.1 204 No Content\r\nTransfer-Encoding: chunked\r\nContent-Length: 5\r\n\r\n"), L], cls="nobody-te-cl"),
        c([H(b"HTTP/1.1 204 No"), ["abort"], H(b"\r\n\r\n"), L], cls="w-abort-then-nobody"),
        c([["abort"], H(b"HTTP/1.1 200 OK\r\nContent-Length: 0\r\n\r\n"), L], cls="w-abort-then-cl0"),
        c([H(b"garbage\r\n"), L], asy=True, cls="w-transmitting-parse-error"),
        c([H(b"garbage\r\n"), ["written"], L], asy=True, cls="w-transmitting-parse-error-written"),
        c([H(b"HTTP/1.1 200 OK\r\nTransfer-Encoding: chunked\r\n\r\nzz\r\n"), L], asy=True, cls="w-transmitting-bad-chunk"),
        c([["abort"], L], asy=True, cls="w-transmitting-abort"),
        c([H(b"HTTP/1.1 200 OK\r\nContent-Length: 3\r\n\r\na"), ["abort"], ["written"], L], asy=True, cls="w-transmitting-abort-written"),
        # boundaries
        c([L], cls="no-data"),
        c([H(b""), L], cls="empty-delivery"),
        c([H(b"HTTP/1.1 200 OK\r\nContent-Length: 3\r\n\r\nabc"), L], persistent=True),
        c([H(b"HTTP/1.1 200 OK\r\nContent-Length: 3\r\n\r\nabc"), H(b"zz"), L], persistent=True),
        c([H(b"HTTP/1.1 200 OK\r\nContent-Length: 3\r\nConnection: close\r\n\r\nabc"), L], persistent=True),
        c([H(b"HTTP/1.1 200 OK\r\nContent-Length: 3\r\n\r\nab"), L, ["deliver"]], deliver="event"),
        c([H(b"HTTP/1.1 200 OK\r\n\r\nab"), L, ["deliver"]], deliver="event"),
        c([H(b"HTTP/1.1 200 OK\r\nContent-Length: 3\r\n\r\nabc"), ["written"], L], asy=True),
        c([H(b"HTTP/1.1 200 OK\r\nContent-Length: 3\r\n\r\na"), L], asy=True),
        c([["writeFailed"], H(b"HTTP/1.1 200 OK\r\nContent-Length: 0\r\n\r\n"), L], asy=True),
        c([H(b"HTTP/1.1 200 OK\r\nContent-"), ["cancel"], L]),
        c([H(b"HTTP/1.1 200 OK\r\nContent-"), ["cancel"], L], asy=True),
        c([H(b"HTTP/1.1 200 OK\r\nContent-Length: 3\r\n\r\na"), ["abort"], H(b"bc"), L]),
        c([H(b"HTTP/1.1 200 OK\r\nContent-Length: 3\r\n\r\nabc"), L], head=True),
        # classes added by the mutation audit (harness/mutants/C23)
        c([H(b"HTTP/1.1 200 OK\r\nDate: Mon, 01 Jan 2024 10:00:00 GMT\r\nContent-Length: 2\r\n\r\nok"), L], cls="colon-in-value"),
        c([H(b"HTTP/1.1 101 Switching Protocols\r\nUpgrade: x\r\n\r\nHTTP/1.1 200 OK\r\nContent-Length: 2\r\n\r\nok"), L], cls="interim-101"),
        dict(c([H(b"HTTP/1.1 200 OK\r\nContent-Length: 0\r\n\r\n"), L], asy=True, cls="producer-raises-base"), sync="raise-base"),
        dict(c([H(b"HTTP/1.1 200 OK\r\nContent-Length: 0\r\n\r\n"), L], asy=True, cls="producer-raises"), sync="raise"),
        dict(c([H(b"HTTP/1.1 200 OK\r\nContent-Length: 2\r\n\r\nok"), L], asy=True, cls="producer-done-at-once"), sync="done"),
        dict(c([H(b"HTTP/1.1 204 No Content\r\n\r\n"), L], persistent=True, cls="chain-body-lost"),
             warm={"head": False, "at": "body-lost", "segs": [hx(b"HTTP/1.1 200 OK\r\nContent-Length: 2\r\n\r\nok")],
                   "body": hx(b"ok"), "deliver": True, "cls": "cl"}),
        dict(c([H(b"HTTP/1.1 200 OK\r\nTransfer-Encoding: chunked\r\n\r\n2\r\nok\r\n0\r\n\r\n"), L], persistent=True, cls="chain-callback"),
             warm={"head": True, "at": "callback", "segs": [hx(b"HTTP/1.1 200 OK\r\nContent-Length: 2\r\n\r\n")],
                   "body": "-", "deliver": True, "cls": "cl"}),
        dict(c([H(b"HTTP/1.1 204 No Content\r\n\r\n"), L], persistent=True, cls="quiescent-callback-raises"), qraise="exc"),
        dict(c([H(b"HTTP/1.1 200 OK\r\nContent-Length: 2\r\n\r\nok"), L], persistent=True, cls="quiescent-callback-raises"), qraise="base"),
        dict(c([H(b"HTTP/1.1 200 OK\r\nContent-Length: 4\r\n\r\nab"), H(b"cd"), ["deliver"], L], deliver="event", cls="resume-delivers"),
             resume="sync"),
        dict(c([H(b"HTTP/1.1 200 OK\r\nContent-Length: 4\r\n\r\nab"), H(b"c"), ["deliver"], H(b"d"), L], deliver="event",
               persistent=True, cls="resume-delivers"), resume="sync"),
    ]


def generate(rng, tier):
    quick = tier == "quick"
    # 1. every truncation point of generated responses, three delivery shapes, plain GET/HEAD
    for i in range(14 if quick else 160):
        head = rng.random() < 0.15
        sp = gen_response(rng, head)
        w = sp["wire"]
        for cut in range(len(w) + 1):
            how = ("whole", "bytes", "random")[(cut + i) % 3] if quick else rng.choice(["whole", "bytes", "random"])
            yield _case(rng, w, cut, how, head=head, persistent=rng.random() < 0.5,
                        deliver=rng.choice(["now", "now", "event", "never"]) if (cut + i) % 4 else "now",
                        extras=[("deliver", rng.randint(0, 8))], spec=sp, cls=sp["cls"], late=["deliver"] if rng.random() < 0.3 else None)
    # 2. random cuts, all request modes and extra events
    for i in range(700 if quick else 30000):
        head = rng.random() < 0.15
        sp = gen_response(rng, head, big=rng.random() < 0.1)
        w = sp["wire"]
        cut = rng.choice([len(w), len(w), rng.randint(0, len(w)), sp["headlen"], max(sp["headlen"] - 1, 0), min(sp["headlen"] + 1, len(w))])
        asy = rng.random() < 0.35
        extras = [("deliver", rng.randint(0, 8))]
        late = []
        if asy and rng.random() < 0.8:
            extras.append((rng.choice(["written", "written", "writeFailed"]), rng.randint(0, 6)))
        if rng.random() < 0.3:
            extras.append(("abort", rng.randint(0, 6)))
        if rng.random() < 0.15:
            extras.append(("cancel", rng.randint(0, 6)))
        if rng.random() < 0.3:
            late = [rng.choice(["deliver", "written", "writeFailed", "abort", "cancel"])]
        yield _case(rng, w, cut, rng.choice(["whole", "bytes", "random", "random"]), head=head, persistent=rng.random() < 0.5,
                    asy=asy, deliver=rng.choice(["now", "event", "never"]), warm=rng.random() < 0.1, extras=extras,
                    spec=sp, cls=sp["cls"], late=late, sync="done" if asy and rng.random() < 0.05 else None)
    # 2b. the request body producer finishes / fails / raises INSIDE startProducing() (incl. outside `Exception`)
    for i in range(120 if quick else 3000):
        head = rng.random() < 0.15
        sp = gen_response(rng, head)
        w = sp["wire"]
        cut = rng.choice([len(w), len(w), rng.randint(0, len(w)), sp["headlen"]])
        extras = [("deliver", rng.randint(0, 8))]
        if rng.random() < 0.3:
            extras.append((rng.choice(["written", "writeFailed", "abort", "cancel"]), rng.randint(0, 6)))
        yield _case(rng, w, cut, rng.choice(["whole", "bytes", "random"]), head=head, persistent=rng.random() < 0.5, asy=True,
                    deliver=rng.choice(["now", "event", "never"]), extras=extras, spec=sp, cls=sp["cls"],
                    sync=("raise", "raise-base", "failed", "done", "done")[i % 5])
    # 2c. a chain of requests on one persistent connection: the request of the case is issued after an earlier exchange,
    #     or RE-ENTRANTLY from the earlier request's callback / the earlier body consumer's connectionLost
    for i in range(260 if quick else 8000):
        head = rng.random() < 0.15
        sp = gen_response(rng, head, big=rng.random() < 0.05)
        w = sp["wire"]
        cut = rng.choice([len(w), len(w), len(w), rng.randint(0, len(w)), sp["headlen"]])
        asy = rng.random() < 0.25
        extras = [("deliver", rng.randint(0, 8))]
        if asy and rng.random() < 0.8:
            extras.append((rng.choice(["written", "written", "writeFailed"]), rng.randint(0, 6)))
        if rng.random() < 0.15:
            extras.append((rng.choice(["abort", "cancel"]), rng.randint(0, 6)))
        yield _case(rng, w, cut, rng.choice(["whole", "bytes", "random", "random"]), head=head, persistent=rng.random() < 0.7,
                    asy=asy, deliver=rng.choice(["now", "now", "event", "never"]), warm=gen_warm(rng), extras=extras,
                    spec=sp, cls=sp["cls"], late=["deliver"] if rng.random() < 0.2 else None)
    # 2d. the quiescent callback raises (inside or outside `Exception`)
    for i in range(100 if quick else 2500):
        head = rng.random() < 0.2
        sp = gen_response(rng, head)
        w = sp["wire"]
        cut = rng.choice([len(w), len(w), len(w), rng.randint(0, len(w))])
        asy = rng.random() < 0.2
        extras = [("deliver", rng.randint(0, 8))]
        if asy:
            extras.append((rng.choice(["written", "written", "writeFailed"]), rng.randint(0, 6)))
        if rng.random() < 0.15:
            extras.append((rng.choice(["abort", "cancel"]), rng.randint(0, 6)))
        yield _case(rng, w, cut, rng.choice(["whole", "bytes", "random"]), head=head, persistent=rng.random() < 0.9,
                    asy=asy, deliver=rng.choice(["now", "now", "event", "never"]), extras=extras,
                    spec=sp, cls=sp["cls"], late=["deliver"] if rng.random() < 0.3 else None, qraise=("exc", "base")[i % 2])
    # 2e. a transport that reads nothing while paused and hands over what arrived meanwhile from inside
    #     resumeProducing(): deliverBody() placed anywhere after the head, also in the callback
    for i in range(220 if quick else 6000):
        head = rng.random() < 0.1
        sp = gen_response(rng, head, big=rng.random() < 0.05)
        w = sp["wire"]
        cut = rng.choice([len(w), len(w), len(w), rng.randint(0, len(w))])
        how = rng.choice(["bytes", "random", "random"])
        asy = rng.random() < 0.15
        c = _case(rng, w, cut, how, head=head, persistent=rng.random() < 0.5, asy=asy,
                  deliver=rng.choice(["event", "event", "event", "now", "never"]), spec=sp, cls=sp["cls"],
                  extras=[(rng.choice(["written", "written", "writeFailed"]), rng.randint(0, 6))] if asy else [],
                  late=["deliver"] if rng.random() < 0.3 else None, resume="sync")
        if c["deliver"] == "event":
            # somewhere after the event that completes the head
            n, k = 0, len(c["events"])
            for j, e in enumerate(c["events"]):
                if e[0] == "data":
                    n += len(unhx(e[1]))
                    if n >= sp["headlen"]:
                        k = j + 1
                        break
            c["events"].insert(rng.randint(k, len(c["events"])) if rng.random() < 0.9 else rng.randint(0, k), ["deliver"])
        if rng.random() < 0.15:
            c["events"].insert(rng.randint(0, len(c["events"])), ["abort"])
        yield c
    # 3. malformed streams: every truncation point (quick: a rotating third of them), whole and byte-wise
    for j, m in enumerate(MALFORMED):
        for cut in range(len(m) + 1):
            if quick and (cut + j) % 3 and cut != len(m):
                continue
            asy = (cut + j) % 5 == 0
            yield _case(rng, m, cut, ("whole", "bytes", "random")[(cut + j) % 3], head=(cut + j) % 7 == 0, asy=asy,
                        persistent=(cut % 2 == 0), deliver="now", extras=[("written", 1)] if asy and cut % 2 else [],
                        cls="malformed-%d" % j)
    # 4. byte mutations of generated responses
    for i in range(250 if quick else 6000):
        sp = gen_response(rng, False)
        w = bytearray(sp["wire"])
        for _ in range(rng.randint(1, 2)):
            if not w:
                break
            k = rng.randrange(len(w))
            r = rng.random()
            if r < 0.4:
                w[k] = rng.choice(b"\r\n :;,0a\t\x00\xff-+_/.")
            elif r < 0.7:
                del w[k]
            else:
                w.insert(k, rng.choice(b"\r\n :;,0a\t"))
        w = bytes(w)
        yield _case(rng, w, rng.choice([len(w), rng.randint(0, len(w))]), rng.choice(["whole", "bytes", "random"]),
                    persistent=rng.random() < 0.5, asy=rng.random() < 0.2, deliver=rng.choice(["now", "event"]),
                    extras=[("deliver", rng.randint(0, 6))] + ([("written", rng.randint(0, 4))] if rng.random() < 0.5 else []),
                    cls="mutated")
    # 5. the limits (MAX_LENGTH, 4300 digits): whole, and cut inside the long line
    for w, name in _long_cases():
        yield _case(rng, w, len(w), "whole", cls=name)
        if not quick or name.startswith("long"):
            k = rng.randint(16380, 16390) if name.startswith("long") else rng.randint(20, 4000)
            c = _case(rng, w, len(w), "whole", cls=name + "-split")
            c["events"] = [H(w[:k]), H(w[k:]), ["lost", "done"]]
            yield c


# ------------------------------------------------------------------------------------------------
# the property, evaluated on what the real code did (no model involved)

def _parse(out):
    d = dict(f.split("=", 1) for f in out.split(" "))
    made, data, lost = d["body"].split(":", 2)
    return {"state": d["state"], "fires": [] if d["fires"] == "-" else d["fires"].split(";"), "made": int(made),
            "data": unhx(data), "lost": [] if lost == "-" else lost.split(";"), "exc": [] if d["exc"] == "-" else d["exc"].split(";"),
            "order": d.get("order"), "warm": d.get("warm"), "fed": int(d["fed"]) if "fed" in d else None}


def oracle(c, out):
    if out.startswith("!raised"):
        return {"key": "harness-raised", "detail": out}
    o = _parse(out)
    kinds = [e[0] for e in c["events"]]
    lost_at = kinds.index("lost") if "lost" in kinds else None
    recv = b"".join(unhx(e[1]) for e in (c["events"] if lost_at is None else c["events"][:lost_at]) if e[0] == "data")
    if c.get("resume") == "sync":
        # the holding transport hands the protocol a prefix of what the script sent (the rest was still unread when
        # the connection went away): the harness says how long the prefix is
        recv = recv[:o["fed"]]
    # the request counts as written before the first response byte when there is no body producer or it finished at once
    asy = (c["async"] or bool(c.get("sync"))) and c.get("sync") != "done"
    plain = not asy and "abort" not in kinds and "cancel" not in kinds
    tag_ = "" if plain else ("-transmitting" if asy else "") + ("-abort" if "abort" in kinds else "") + ("-cancel" if "cancel" in kinds else "")
    if o["warm"]:
        return {"key": "earlier-exchange-disturbed", "detail": f"the earlier request on this connection went wrong: {o['warm']}"}
    if len(o["fires"]) > 1:
        return {"key": "fires-twice" + tag_, "detail": f"request Deferred fired {o['fires']}"}
    if lost_at is not None and len(o["fires"]) == 0:
        return {"key": "never-fires" + tag_, "detail": "connection lost but the request Deferred never fired"}
    if o["exc"]:
        return {"key": "exception-escapes" + tag_, "detail": f"{o['exc']} escaped a protocol entry point"}
    if o["made"] > 1 or len(o["lost"]) > 1:
        return {"key": "body-protocol-twice", "detail": f"makeConnection x{o['made']}, connectionLost {o['lost']}"}
    if o["made"] == 0 and (o["data"] or o["lost"]):
        return {"key": "body-before-connect", "detail": out}
    if o["order"]:
        return {"key": "body-callback-order", "detail": "the body consumer must see makeConnection, dataReceived*, connectionLost "
                f"in this order and nothing after connectionLost; saw {o['order']}"}
    if o["made"] == 1 and o["fires"] != ["response"]:
        return {"key": "body-without-response", "detail": out}
    if o["made"] == 1 and lost_at is not None and len(o["lost"]) != 1:
        return {"key": "body-never-finished" + tag_, "detail": "deliverBody was called, the connection is gone, but the body "
                "protocol's connectionLost was never called"}
    sp = c.get("spec")
    if sp is None or lost_at is None:
        return None
    headok = len(recv) >= sp["headlen"]
    if plain:
        if headok and o["fires"] != ["response"]:
            return {"key": "complete-head-no-response", "detail": f"{len(recv)} bytes >= head {sp['headlen']} but fired {o['fires']}"}
        if not headok and not (o["fires"][0].startswith("ResponseFailed[") or o["fires"][0].startswith("ResponseNeverReceived[")):
            return {"key": "incomplete-head-not-failure", "detail": f"{len(recv)} bytes < head {sp['headlen']} but fired {o['fires']}"}
    if o["fires"] == ["response"] and not headok:
        return {"key": "response-before-head", "detail": out}
    if o["made"] == 1:
        body = unhx(sp["body"])
        exp = bytes(body[i] for i, off in enumerate(sp["offs"]) if off < len(recv))
        if o["data"] != exp:
            return {"key": "body-mismatch" + tag_, "detail": f"delivered {o['data']!r} expected {exp!r}"}
        end = o["lost"][0]
        complete = sp["total"] is not None and len(recv) >= sp["total"]
        if sp["framing"] == "close":
            want = "PotentialDataLoss"
            good = end == want
        elif complete:
            want = "ResponseDone"
            good = end == want
        else:
            want = "a failure (ResponseFailed[..])"
            good = end.startswith("ResponseFailed[")
        if not good:
            return {"key": "body-end-reason" + tag_, "detail": f"connectionLost({end}) expected {want}"}
    return None


def tag(c, out):
    try:
        o = _parse(out)
    except Exception:
        return "unparsed"
    kinds = [e[0] for e in c["events"]]
    sp = c.get("spec")
    where = "-"
    if sp:
        cut = sp["cut"]
        where = ("empty" if cut == 0 else "head" if cut < sp["headlen"] else "headend" if cut == sp["headlen"] else
                 "body" if sp["total"] is None or cut < sp["total"] else "full")
    nseg = sum(1 for k in kinds if k == "data")
    fire = o["fires"][0].split("[")[0] + ("[" + o["fires"][0].split("[")[1] if "[" in o["fires"][0] else "") if o["fires"] else "-"
    return "|".join([c.get("cls", "?"), where, c.get("how", "?"), "n%d" % min(nseg, 3),
                     ("H" if c["head"] else "G") + ("p" if c["persistent"] else "") + ("a" if c["async"] else "") +
                     ("w" if c.get("warm") is True else "w:%s:%s:%d" % (c["warm"]["at"], c["warm"].get("cls", "?"), min(len(c["warm"]["segs"]), 3))
                      if c.get("warm") else "") + (":s-" + c["sync"] if c.get("sync") else "") +
                     (":q-" + c["qraise"] if c.get("qraise") else "") + (":r-" + c["resume"] if c.get("resume") else ""),
                     c["deliver"], ",".join(k for k in kinds if k != "data"), fire, o["lost"][0] if o["lost"] else "-", o["state"]])


def shrink(c):
    evs = c["events"]
    for i in range(len(evs)):
        if evs[i][0] != "lost" or sum(1 for e in evs if e[0] == "lost") > 1:
            d = dict(c, events=evs[:i] + evs[i + 1:])
            d.pop("spec", None)
            yield d
    for i, e in enumerate(evs):
        if e[0] == "data" and e[1] != "-":
            b = unhx(e[1])
            for nb in (b[:len(b) // 2], b[len(b) // 2:], b[:-1], b[1:]):
                if nb != b:
                    d = dict(c, events=evs[:i] + [["data", hx(nb)]] + evs[i + 1:])
                    d.pop("spec", None)
                    yield d
    for k in ("warm", "persistent", "head"):
        if c.get(k):
            d = dict(c)
            d[k] = False
            d.pop("spec", None)
            yield d


def search(rng, tier, bad):
    """every position of abort()/written/cancel() and every 2-way split around each disagreeing script"""
    for c in bad[:5]:
        evs = [e for e in c["events"] if e[0] in ("data", "lost")]
        for name in ("abort", "written", "cancel", "deliver"):
            for pos in range(len(evs) + 1):
                d = dict(c, events=evs[:pos] + [[name]] + evs[pos:])
                d.pop("spec", None)
                yield d
        data = b"".join(unhx(e[1]) for e in evs if e[0] == "data")
        for k in range(len(data) + 1):
            d = dict(c, events=[H(data[:k]), H(data[k:]), ["lost", "done"]])
            d.pop("spec", None)
            yield d
