"""C02 — Deferred chaining depth never exhausts the stack.

Real `Deferred`s / `inlineCallbacks` generators / coroutines are driven through the same program as the Lean model
(lean/TwistedModel/Defer/Depth.lean).  Probe callbacks walk `sys._getframe()` back to the frame that performs
the top-level operation, so the observable is the exact number of Python frames between the operation and the
probe; the model predicts that number (a = 1, b = 0).  The oracle is independent of the model: the same family
is run on the real code at n = 10 … 24, and neither the deepest probe nor the true maximum depth (sys.setprofile
call counter, includes leaf frames the model ignores) at the case's n may exceed what is seen there; every probe
must have run and the final results must be the family's, with the default recursion limit.

Every family is also run under the modes / input classes the statement does not exclude and the model does not know
(the prediction must not change): `dbg` Deferred debugging on, `cls` instances of a Deferred subclass, `mk` already-fired
Deferreds made by succeed() / fail(), `api` callbacks installed with addCallbacks(f, f) instead of addBoth(f), `nil` the
results are None; failures outside the `Exception` hierarchy (`B`), the same Deferred awaited again and again (`gensame`),
generators that also yield things that are not Deferreds (`genplain`, item `v`).  White-box mutants: harness/mutants/C02.
"""
import random
import re
import sys
import warnings

from twisted.internet import defer as _defer
from twisted.internet.defer import AlreadyCalledError, Deferred, inlineCallbacks
from twisted.python.failure import Failure

HEADLINE = "TwistedProps.C02.callbacks_returning_deferreds_depth_le_4"
RULE = ("(a) the five scenarios of the theorems (`shape`: outer-first / inner-first chains with success and failure, explicit "
        "chainDeferred chain, generator / coroutine over pre-fired Deferreds with failure patterns) at n in {0..12, 100, 1000, "
        "10000 (quick), 100000 (thorough)}; (b) parametrised families expanded to programs (`family`: returns-next chains fired "
        "in outer / inner / random / interleaved order, paused links, late-added callbacks, one Deferred with n callbacks returning "
        "fired Deferreds, generators over unfired / mixed Deferreds, coroutines) at the same sizes; (c) random small programs "
        "over <= 6 Deferreds, <= 2 generators, <= 14 operations including chainDeferred, pause/unpause, double fire, self-return; "
        "(d) every shape / family again at n in {11, 37, 300, 1000 (+3000, one flag at 20000 thorough)} under each of the flags dbg (Deferred "
        "debugging on; n <= 300 quick, <= 1000 thorough), cls (Deferred subclass), nil (results are None), mk (succeed()/fail()), api (addCallbacks(f, f)) and "
        "a random combination; k = 2 of the chain families fires the last Deferred with a failure outside `Exception`; families gensame "
        "(one Deferred awaited n times, fired before / after the first await), genplain (non-Deferred yields alone / interleaved with "
        "already-fired, also failed, Deferreds), genbase (the last awaited Deferred failed outside `Exception`, not caught by the body: "
        "oracle-only); random programs get dbg / cls with p = 0.15, `v` items, value None, `B` failures; "
        "distinct = (kind, family/order/outcome, flags, size bucket, set of probe depths, raised?)")
ASSUMES = [
    "user code is the callback grammar of the model: probe / return Deferred j / return value / raise / chainDeferred, all added with addBoth "
    "(or addCallbacks(f, f)); generator bodies are `for d in ds: try: r = yield d (await d, yield <not a Deferred>) except Exception: ...; probe()`; "
    "generators that yield coroutine / generator objects, and ensureDeferred() as the entry point, are not generated",
    "CPython frames are abstracted: the model counts one unit per Python-level function activation on the path to the probe; "
    "leaf helpers and C-level calls are not counted (the oracle measures the true maximum with sys.setprofile for n <= 20000)",
    "recursion limit is the default (1000); Deferred debugging is off or on (flag dbg; the true-depth baseline is taken in the same mode, "
    "after linecache has been warmed so that traceback.format_stack has the same depth in every run)",
    "unpause() is only called to match an earlier pause() (unpausing a Deferred that waits on another one makes the real code loop forever; the model runs out of fuel there)",
]
TRUSTED = ["sys._getframe / sys.setprofile report the interpreter's frame stack faithfully"]
MANIFEST = {
    "text": "PARTIAL by nature (CPython frames are abstracted to a depth counter). Lean theorems (TwistedProps/C02.lean), all for every n "
            "and every fuel: for ANY heap of Deferreds whose callbacks only return values / Deferreds / raise / probe (no callback fires "
            "another Deferred) and ANY sequence of callback/errback/pause/unpause/addBoth operations, no frame is ever entered deeper "
            "than 4 (the `chain` list of _runCallbacks makes it iterative); the outer-first and inner-first chains of every length n complete "
            "(all n+1 probes run at depth exactly 4, d_0 receives the last result, success or failure); a generator or coroutine over n "
            "pre-fired Deferreds with any failure pattern completes with every probe at depth <= 6 (the `waiting` flag of _inlineCallbacks); "
            "a generator yielding n things that are not Deferreds completes with every probe at depth exactly 5 (the loop goes round again, no self-call); "
            "negative control: an explicit chainDeferred chain of length n reaches depth exactly 3n+4. Model tied to defer.py by "
            "differential runs that compare exact Python frame counts (sys._getframe walk) for n up to 10^4 (quick) / 10^5 (thorough), "
            "also with Deferred debugging on, with Deferred subclasses, succeed()/fail(), addCallbacks, None results and BaseException failures "
            "(same prediction required); mixtures of plain yields and Deferreds and a generator meeting an uncaught BaseException failure are "
            "tied / judged by the oracle only (no theorem quantifies over them).",
    "note": "partial: frames of CPython are a hand abstraction (one unit per Python-level activation; C calls and leaf helpers not counted) — "
            "the theorem is about the algorithm's nesting, the measured frame counts tie it; trusts Lean kernel, the hand-written model of "
            "_runCallbacks/_inlineCallbacks/__iter__ (differentially tied on exact frame depth), sys._getframe",
    "technique": "Lean 4 proof (depth invariant over a fuel-indexed mutual recursion; completion by induction on the chain) + differential tie on measured frame depth",
    "design_ref": "DESIGN.md §7.1 C02",
}

N0, N1 = 10, 24
BASELINES = range(N0, N1 + 1)          # baseline sizes of the oracle


class UserError(Exception):
    pass


class UserBaseError(BaseException):
    """a failure outside the `Exception` hierarchy (what KeyboardInterrupt / asyncio.CancelledError / GeneratorExit are)"""


class SubDeferred(Deferred):
    """a Deferred subclass (DeferredList, DeferredQueue's helpers, application subclasses): `type(d) is not Deferred`"""


FLAGS = ("dbg", "cls", "nil", "mk", "api")


# ------------------------------------------------------------------------------------------
# expansion of shapes / families into programs  {"defs": [[cb..]..], "gens": [[out,[item..]]..], "ops": [op..]}

def _pattern(k, i):
    return False if k == 0 else True if k == 1 else (i % k == k - 1)


def expand(c):
    """the program of a case; the flags of the case (`dbg`, `cls`, `nil`, `mk`) are carried over to the program"""
    if c["kind"] == "prog":
        return c
    p = _expand(c)
    for fl in FLAGS:
        if c.get(fl):
            p[fl] = 1
    return p


def _expand(c):
    kind = c["kind"]
    n, k = c["n"], c.get("k", 0)
    name = c["name"]
    V1, V5 = (0, 0) if c.get("nil") else (1, 5)         # value 0 is fired as `None` (the most common result of all)
    last = (f"E{n}:5" if k == 1 else f"B{n}:5" if k == 2 and name in BASE_LAST else f"F{n}:{V5}")
    chain_defs = [[f"r{i+1}", "p"] for i in range(n)] + [["p"]]
    if kind == "shape":
        if name == "outer":
            return {"defs": chain_defs, "gens": [], "ops": [f"F{i}:{V1}" for i in range(n)] + [last]}
        if name == "inner":
            return {"defs": chain_defs, "gens": [], "ops": [last] + [f"F{i}:{V1}" for i in reversed(range(n))]}
        if name == "explicit":
            return {"defs": [["p", f"f{i+1}"] for i in range(n)] + [["p"]], "gens": [], "ops": [f"F0:{V5}"]}
        if name in ("gen", "coro"):
            it = "a" if name == "coro" else "y"
            pre = [(f"E{i}:3" if _pattern(k, i) else f"F{i}:{V1}") for i in range(n)]
            return {"defs": [[] for _ in range(n + 1)], "gens": [[n, [f"{it}{i}" for i in range(n)]]],
                    "ops": pre + ["S0", f"A{n}:p"], "pre": n}
    # families -----------------------------------------------------------------------------
    rng = random.Random(c.get("seed", 0) * 7919 + n)
    if name == "perm":          # returns-next chain fired in a random order
        order = list(range(n)); rng.shuffle(order)
        pos = rng.randrange(n + 1)
        ops = [f"F{i}:{V1}" for i in order]
        ops.insert(pos, last)
        return {"defs": chain_defs, "gens": [], "ops": ops}
    if name == "evenodd":       # even links first (each waits on an unfired one), then odd links downwards, then the last
        ev = [i for i in range(n) if i % 2 == 0]; od = [i for i in range(n) if i % 2 == 1]
        return {"defs": chain_defs, "gens": [], "ops": [f"F{i}:{V1}" for i in ev] + [f"F{i}:{V1}" for i in reversed(od)] + [last]}
    if name == "lastmid":       # outer half, last, then the inner half upwards
        h = n // 2
        return {"defs": chain_defs, "gens": [], "ops": [f"F{i}:{V1}" for i in range(h)] + [last] + [f"F{i}:{V1}" for i in reversed(range(h, n))]}
    if name == "paused":        # every k-th link (k>=2) / the last one is paused when fired and unpaused at the end, innermost first
        m = max(2, k)
        ps = [i for i in range(n + 1) if i % m == m - 1] or [n]
        ops = [f"P{i}" for i in ps] + [f"F{i}:{V1}" for i in range(n)] + [f"F{n}:{V5}"] + [f"U{i}" for i in reversed(ps)]
        return {"defs": chain_defs, "gens": [], "ops": ops}
    if name == "pausedinner":   # inner-first with paused fired links: returned Deferred has a result but is paused -> chain, not steal
        m = max(2, k)
        ps = [i for i in range(1, n + 1) if i % m == 0] or [n]
        ops = [f"P{i}" for i in ps] + [f"F{n}:{V5}"] + [f"F{i}:{V1}" for i in reversed(range(n))] + [f"U{i}" for i in ps]
        return {"defs": chain_defs, "gens": [], "ops": ops}
    if name == "late":          # all fired first (innermost first / outermost first by k), callbacks added afterwards
        defs = [[] for _ in range(n + 1)]
        fires = [f"F{i}:{V1}" for i in range(n)] + [f"F{n}:{V5}"]
        adds = []
        idx = range(n) if k == 0 else reversed(range(n))
        for i in idx:
            adds += [f"A{i}:r{i+1}", f"A{i}:p"]
        return {"defs": defs, "gens": [], "ops": fires + adds + [f"A{n}:p"], "pre": n + 1}
    if name == "fanin":         # ONE Deferred with n callbacks, each returning an already fired Deferred, probes in between
        defs = [[x for i in range(n) for x in (f"r{i+1}", "p")]] + [[] for _ in range(n)]
        pre = [(f"E{i+1}:3" if _pattern(k, i) else f"F{i+1}:{V1}") for i in range(n)]
        return {"defs": defs, "gens": [], "ops": pre + [f"F0:{V5}"], "pre": n}
    if name == "faninwait":     # ONE Deferred with n callbacks each returning an UNFIRED Deferred, fired afterwards in order
        defs = [[x for i in range(n) for x in (f"r{i+1}", "p")]] + [[] for _ in range(n)]
        return {"defs": defs, "gens": [], "ops": [f"F0:{V5}"] + [(f"E{i+1}:3" if _pattern(k, i) else f"F{i+1}:{V1}") for i in range(n)]}
    if name in ("genlater", "corolater"):   # generator over n unfired Deferreds, fired one by one afterwards
        it = "a" if name == "corolater" else "y"
        return {"defs": [[] for _ in range(n + 1)], "gens": [[n, [f"{it}{i}" for i in range(n)]]],
                "ops": ["S0", f"A{n}:p"] + [(f"E{i}:3" if _pattern(k, i) else f"F{i}:{V1}") for i in range(n)]}
    if name in ("genmixed", "coromixed", "yfmixed"):  # first unfired, the rest randomly pre-fired / unfired
        it = {"genmixed": "y", "coromixed": "a", "yfmixed": None}[name]
        pref = [False] + [rng.random() < 0.7 for _ in range(n - 1)] if n else []
        items = [f"{it or rng.choice('ya')}{i}" for i in range(n)]
        fire = lambda i: (f"E{i}:3" if _pattern(k, i) else f"F{i}:{V1}")
        return {"defs": [[] for _ in range(n + 1)], "gens": [[n, items]],
                "ops": [fire(i) for i in range(n) if pref[i]] + ["S0", f"A{n}:p"] + [fire(i) for i in range(n) if not pref[i]]}
    if name == "genchain":      # the generator's single awaited Deferred is the head of a returns-next chain of length n
        it = "a" if k >= 2 else "y"
        defs = chain_defs + [[]]
        return {"defs": defs, "gens": [[n + 1, [f"{it}0"]]],
                "ops": ["S0", f"A{n+1}:p"] + [f"F{i}:{V1}" for i in range(n)] + [f"E{n}:5" if k % 2 else f"F{n}:{V5}"]}
    if name == "gensame":       # ONE Deferred awaited n times: k=0/2 already fired (yield / await), k=1/3 fired after the first await
        it = "a" if k >= 2 else "y"
        fire = [f"F0:{V1}"]
        return {"defs": [[], []], "gens": [[1, [f"{it}0"] * n]],
                "ops": (fire if k % 2 == 0 else []) + ["S0", "A1:p"] + (fire if k % 2 == 1 else []),
                "pre": 1 if k % 2 == 0 else 0}
    if name == "genplain":      # generator over pre-fired Deferreds that also yields things that are not Deferreds
        if k == 0:              #   n plain yields and nothing else
            return {"defs": [[]], "gens": [[0, ["v1"] * n]], "ops": ["S0", "A0:p"]}
        #   k=1: d, 5, d, 5, …   k=2: d, d, None, …   k=3: as k=1 with every second Deferred failed
        items, m = [], (3 if k == 2 else 2)
        for i in range(n):
            items.append(f"y{i}")
            if i % (m - 1) == m - 2:
                items.append("v0" if k == 2 else "v5")
        pre = [(f"E{i}:3" if (k == 3 and i % 2) else f"F{i}:{V1}") for i in range(n)]
        return {"defs": [[] for _ in range(n + 1)], "gens": [[n, items]], "ops": pre + ["S0", f"A{n}:p"], "pre": n}
    if name == "genbase":       # n pre-fired Deferreds, the LAST failed outside the Exception hierarchy: the body's
        it = "a" if k == 1 else "y"          # `except Exception` does not catch it, the call must end with that failure
        pre = [f"F{i}:{V1}" for i in range(n - 1)] + ([f"B{n-1}:9"] if n else [])
        return {"defs": [[] for _ in range(n + 1)], "gens": [[n, [f"{it}{i}" for i in range(n)]]],
                "ops": pre + ["S0", f"A{n}:p"], "pre": n}
    raise ValueError(name)


BASE_LAST = {"outer", "inner", "perm", "evenodd", "lastmid"}       # k = 2: the last Deferred fails with a BaseException
IN_SCOPE = {"outer", "inner", "gen", "coro", "perm", "evenodd", "lastmid", "paused", "pausedinner", "late", "fanin",
            "faninwait", "genlater", "corolater", "genmixed", "coromixed", "yfmixed", "genchain", "gensame", "genplain", "genbase"}


# ------------------------------------------------------------------------------------------
# running a program on the real code

class _World:
    def __init__(self, prog, profile):
        self.base = None
        self.probes = []
        self.raised = 0
        self.profile = profile
        self.cur = 0
        self.truemax = 0
        self.recursion = False
        defs, gens = prog["defs"], prog["gens"]
        cls = SubDeferred if prog.get("cls") else Deferred
        self.ds = [cls() for _ in defs]
        self.mk = prog.get("pre", 0) if prog.get("mk") else 0      # that many leading fire ops become succeed() / fail()
        self.api = bool(prog.get("api"))                           # addCallbacks(f, f) instead of addBoth(f)
        for i, cbs in enumerate(defs):
            for cb in cbs:
                self.install(i, cb)
        self.gens = gens
        self.outs = {g[0] for g in gens}

    # -- probes ---------------------------------------------------------------------------
    def _depth(self, f):
        n = 0
        base = self.base
        while f is not None and f is not base:
            n += 1
            f = f.f_back
        return n

    def probe_cb(self, r):
        self.probes.append(self._depth(sys._getframe(0)))
        return r

    def probe0(self):
        self.probes.append(self._depth(sys._getframe(0)))

    def fn(self, cb):
        """the callable for a callback token (`f<j>` is installed with chainDeferred instead)"""
        ds = self.ds
        t, a = cb[0], cb[1:]
        if t == "p":
            return self.probe_cb
        if t == "r":
            return lambda r, j=int(a): ds[j]
        if t == "c":
            return lambda r, v=int(a): v
        if t == "x":
            def raiser(r, e=int(a)):
                raise UserError(e)
            return raiser
        raise ValueError(cb)

    def install(self, i, cb):
        if cb[0] == "f":
            self.ds[i].chainDeferred(self.ds[int(cb[1:])])
        elif self.api:
            f = self.fn(cb)
            self.ds[i].addCallbacks(f, f)
        else:
            self.ds[i].addBoth(self.fn(cb))

    def start(self, g):
        out, items = self.gens[g]
        ds, probe0 = self.ds, self.probe0
        items = [(it[0], int(it[1:])) for it in items]
        plain = lambda v: (None if v == 0 else v)
        if items and all(k == "a" for k, _ in items):
            async def co():
                for _, i in items:
                    try:
                        r = await ds[i]
                    except Exception:
                        r = -1
                    probe0()
                return 7
            coro = co()
            self.base = sys._getframe(0)
            ds[out] = Deferred.fromCoroutine(coro)
        else:
            @inlineCallbacks
            def gen():
                for k, i in items:
                    try:
                        if k == "y":
                            r = yield ds[i]
                        elif k == "v":
                            r = yield plain(i)          # not a Deferred: sent straight back
                        else:
                            r = yield from ds[i]
                    except Exception:
                        r = -1
                    probe0()
                return 7
            self.base = sys._getframe(0)
            ds[out] = gen()

    def op(self, o):
        ds = self.ds
        t, a = o[0], o[1:]
        if t == "S":
            return self.start(int(a))
        if t in "FEBA":
            i, x = a.split(":")
            i = int(i)
        else:
            i = int(a)
        d = ds[i]
        f = Failure(UserError(int(x))) if t == "E" else Failure(UserBaseError(int(x))) if t == "B" else None
        if self.mk > 0 and t in "FEB" and not d.called and not d.callbacks:
            self.mk -= 1                 # the usual way to make an already-fired Deferred
            ds[i] = _defer.succeed(None if x == "0" else int(x)) if t == "F" else _defer.fail(f)
            return
        if t == "A":
            target = ds[int(x[1:])] if x[0] == "f" else self.fn(x)
        self.base = sys._getframe(0)
        try:
            if t == "F":
                d.callback(None if x == "0" else int(x))
            elif t in "EB":
                d.errback(f)
            elif t == "P":
                d.pause()
            elif t == "U":
                d.unpause()
            elif t == "A":
                if x[0] == "f":
                    d.chainDeferred(target)
                elif self.api:
                    d.addCallbacks(target, target)
                else:
                    d.addBoth(target)
        except AlreadyCalledError:
            self.raised += 1

    # -- true maximum depth (all Python frames, relative to the frame of run()) -------------
    def _prof(self, frame, event, arg):
        if event == "call":
            self.cur += 1
            if self.cur > self.truemax:
                self.truemax = self.cur
        elif event == "return":
            self.cur -= 1

    def run(self, ops):
        if self.profile:
            sys.setprofile(self._prof)
        try:
            for o in ops:
                self.op(o)
        finally:
            if self.profile:
                sys.setprofile(None)

    # -- observation ------------------------------------------------------------------------
    def res(self, d):
        if not hasattr(d, "result"):
            return "n"
        r = d.result
        if isinstance(r, Deferred):
            for j, x in enumerate(self.ds):
                if x is r:
                    return f"d{j}"
            return "d?"
        if isinstance(r, Failure):
            if isinstance(r.value, UserError):
                return f"f{r.value.args[0]}"
            if isinstance(r.value, UserBaseError):
                return f"fb{r.value.args[0]}" if self.gens else f"f{r.value.args[0]}"
            if isinstance(r.value, AlreadyCalledError):
                return "f-99"
            if isinstance(r.value, RecursionError):
                self.recursion = True
            return "f!" + type(r.value).__name__
        if r is None:
            return "v0"
        return f"v{r}"

    def state(self):
        return [f"c{1 if d.called else 0}p{d.paused}k{len(d.callbacks)}{self.res(d)}" for d in self.ds]


def _hist(keys, xs):
    if not xs:
        return "-"
    cnt = {}
    for x in xs:
        cnt[x] = cnt.get(x, 0) + 1
    return ",".join(f"{k}:{cnt[k]}" for k in keys if k in cnt)


def _firstlast(k, xs):
    return xs if len(xs) <= 2 * k else xs[:k] + [".."] + xs[len(xs) - k:]


def _size(prog):
    return len(prog["defs"]) + len(prog["ops"]) + sum(len(g[1]) for g in prog["gens"])


_WARM = []


def _warm_debug():
    """Deferred debugging formats the stack at every creation / firing: load the source lines of every file on
    the stack into linecache once, outside the measured region (the first format_stack is much deeper than the rest)"""
    if _WARM:
        return
    _WARM.append(1)
    _defer.setDebugging(True)
    try:
        d = Deferred()
        d.addBoth(lambda r: _defer.succeed(r))
        d.callback(1)

        @inlineCallbacks
        def g():
            try:
                yield _defer.fail(Failure(UserError(1)))
            except Exception:
                pass
            yield Deferred.fromCoroutine(co())

        async def co():
            await _defer.succeed(1)
        g()
    finally:
        _defer.setDebugging(False)


def run_prog(prog, profile):
    old = sys.getrecursionlimit()
    sys.setrecursionlimit(1000)          # the default, whatever the embedding process chose
    w = None
    olddbg = _defer.getDebugging()
    try:
        with warnings.catch_warnings():
            warnings.simplefilter("ignore")
            if prog.get("dbg"):
                _warm_debug()
                _defer.setDebugging(True)
            w = _World(prog, profile)
            w.run(prog["ops"])
            st = w.state()
    finally:
        _defer.setDebugging(olddbg)
        sys.setrecursionlimit(old)
        if w is not None:
            for d in w.ds:               # nothing is left to be reported as "Unhandled error in Deferred"
                try:
                    if getattr(d, "_debugInfo", None) is not None:
                        d._debugInfo.failResult = None
                except Exception:
                    pass
    ps = [str(p) for p in w.probes]
    line = (f"oof=0 raised={w.raised} max={max(w.probes, default=0)} "
            f"probes={_hist([str(x) for x in sorted(set(w.probes))], ps)} "
            f"seq={','.join(_firstlast(6, ps)) if ps else '-'} "
            f"state={_hist(sorted(set(st)), st)} ends={','.join(_firstlast(5, st))}")
    return line, w


def run_impl(c):
    prog = expand(c)
    line, w = run_prog(prog, profile=_size(prog) <= 50000)
    extra = f" true={w.truemax}" if w.profile else ""
    if w.recursion:
        extra += " RECURSION"
    return line + extra


def compare(c, impl_out, model_out):
    return impl_out.split(" true=")[0].split(" RECURSION")[0] == model_out


def _enc_list(xs, sep=","):
    return sep.join(xs) if xs else "-"


def model_line(c):
    """The flags `dbg` (Deferred debugging on), `cls` (Deferred subclass instances) and `mk` (succeed()/fail() instead of
    Deferred()+callback()) do not exist in the model: the prediction must be the same with and without them.
    `nil` fires value 0 (= `None`); `B` (a failure outside `Exception`) is an ordinary failure to a callback chain;
    only a GENERATOR meeting such a failure is outside the model (its body does not catch it): oracle-only."""
    if c["kind"] == "shape" and not c.get("nil") and not (c.get("k", 0) == 2 and c["name"] in BASE_LAST):
        return f"shape {c['name']} {c['n']} {c.get('k', 0)}"
    p = expand(c)
    if any(o[0] == "B" for o in p["ops"]):
        if p["gens"]:
            return None
        p = dict(p, ops=[("E" + o[1:] if o[0] == "B" else o) for o in p["ops"]])
    defs = ";".join((",".join(d) if d else "_") for d in p["defs"]) if p["defs"] else "-"
    gens = ";".join(f"{g[0]}:{_enc_list(g[1])}" for g in p["gens"]) if p["gens"] else "-"
    return f"prog {20 * _size(p) + 200} {defs} {gens} {_enc_list(p['ops'])}"


# ------------------------------------------------------------------------------------------
# the property on the implementation, independent of the model

_BASE = {}
_STATE = re.compile(r"c(\d)p(-?\d+)k(\d+)([^:]*):\d+$")


def _fields(line):
    out = {}
    for tok in line.split(" "):
        if "=" in tok:
            k, v = tok.split("=", 1)
            out[k] = v
    return out


def _baseline(c, n):
    key = (c["kind"], c["name"], c.get("k", 0), c.get("seed", 0), n) + tuple(c.get(fl, 0) for fl in FLAGS)
    if key not in _BASE:
        cc = dict(c); cc["n"] = n
        try:
            _BASE[key] = run_impl(cc)
        except BaseException as e:       # (UserBaseError escaping a broken _inlineCallbacks is not an `Exception`)
            if type(e).__name__ == "Timeout":
                raise
            _BASE[key] = f"!raised {type(e).__name__}"
    return _BASE[key]


def _expect(c, prog, f, line):
    """completion + final result, from the family's definition (not from the model)"""
    name, n, k = c["name"], c["n"], c.get("k", 0)
    installed = sum(1 for d in prog["defs"] for cb in d if cb == "p") + sum(1 for o in prog["ops"] if o.endswith(":p")) \
        + sum(len(g[1]) for g in prog["gens"])
    if name == "genbase" and n:
        installed -= 1                   # the last await raises out of the body: no probe after it
    nil = c.get("nil")
    ran = sum(int(x.split(":")[1]) for x in f["probes"].split(",")) if f["probes"] != "-" else 0
    if ran != installed:
        return f"{ran} of {installed} probes ran"
    ends = f["ends"].split(",")
    if name in ("outer", "inner", "perm", "evenodd", "lastmid", "paused", "pausedinner", "late"):
        fails = k in (1, 2) and name in BASE_LAST
        want = "c1p0k0" + ("f5" if fails else "v0" if nil else "v1" if (name == "late" and k == 0 and n >= 2) else "v5")
        if ends[0] != want:
            return f"d_0 ended as {ends[0]}, expected {want}"
    if name in ("gen", "coro", "genlater", "corolater", "genmixed", "coromixed", "yfmixed", "genchain", "gensame", "genplain", "genbase"):
        want = "c1p0k0fb9" if (name == "genbase" and n) else "c1p0k0v7"
        if ends[-1] != want:
            return f"the generator's Deferred ended as {ends[-1]}, expected {want}"
    for s in f["state"].split(","):
        m = _STATE.match(s)
        if not m or m.group(4).startswith("d") or m.group(2) != "0" or m.group(3) != "0" or m.group(1) != "1":
            return f"not every Deferred completed: {s}"
    return None


def oracle(c, out):
    if c["kind"] == "prog" or c["name"] not in IN_SCOPE:
        return None
    name = c["name"]
    if out.startswith("!raised"):
        return {"key": f"{name}-raised", "detail": f"{c}: {out}"}
    if "RECURSION" in out or "f!" in out:
        return {"key": f"{name}-recursion", "detail": f"{c}: a callback saw {out[-200:]}"}
    f = _fields(out)
    prog = expand(c)
    bad = _expect(c, prog, f, out)
    if bad:
        return {"key": f"{name}-incomplete", "detail": f"{c}: {bad}; observed {out[:300]}"}
    if c["n"] < N0:
        return None
    # stack usage must not grow with the length: nothing may be deeper than in the same family at n = 10 … 24
    raw = [_baseline(c, n0) for n0 in BASELINES]
    for n0, b in zip(BASELINES, raw):
        if b.startswith("!raised"):
            return {"key": f"{name}-raised", "detail": f"{dict(c, n=n0)}: {b}"}
    bs = [_fields(b) for b in raw]
    bmax = max(int(b["max"]) for b in bs)
    if int(f["max"]) > bmax:
        return {"key": f"{name}-depth-grows", "detail": f"{c}: probe depths {f['probes'][:200]} at n={c['n']}, but never deeper than {bmax} for n in 10..24"}
    if "true" in f:
        tmax = max(int(b["true"]) for b in bs)
        if int(f["true"]) > tmax:
            return {"key": f"{name}-depth-grows", "detail": f"{c}: true max depth {f['true']} at n={c['n']}, but never deeper than {tmax} for n in 10..24"}
    return None


# ------------------------------------------------------------------------------------------
# cases

def _bucket(n):
    return "0-9" if n < 10 else "10-99" if n < 100 else "100-999" if n < 1000 else "1e3" if n < 10000 else "1e4" if n < 100000 else "1e5"


def tag(c, out):
    f = _fields(out) if not out.startswith("!") else {}
    depths = ",".join(x.split(":")[0] for x in f.get("probes", "-").split(","))
    flags = "".join(fl[0] for fl in FLAGS if c.get(fl))
    if c["kind"] == "prog":
        cbs = "".join(sorted({cb[0] for d in c["defs"] for cb in d} | {o[0] for o in c["ops"]} | {it[0] for g in c["gens"] for it in g[1]}))
        return f"prog:{cbs}:g{len(c['gens'])}:{flags}:d[{depths}]:r{f.get('raised', '!')}"
    return f"{c['kind']}:{c['name']}:k{c.get('k', 0)}:{flags}:{_bucket(c['n'])}:d[{depths}]"


def nontrivial(c, out):
    return True


FAMILIES = [("perm", [0, 1, 2]), ("evenodd", [0, 1, 2]), ("lastmid", [0, 1, 2]), ("paused", [2, 3, 7]), ("pausedinner", [2, 5]),
            ("late", [0, 1]), ("fanin", [0, 1, 2]), ("faninwait", [0, 3]), ("genlater", [0, 1, 2]), ("corolater", [0, 2]),
            ("genmixed", [0, 3]), ("coromixed", [0, 2]), ("yfmixed", [0, 2]), ("genchain", [0, 1, 2, 3]),
            ("gensame", [0, 1, 2, 3]), ("genplain", [0, 1, 2, 3]), ("genbase", [0, 1])]
SHAPES = [("outer", [0, 1, 2]), ("inner", [0, 1, 2]), ("gen", [0, 1, 2, 3]), ("coro", [0, 1, 2, 5])]
HAS_PRE = {"gen", "coro", "late", "fanin", "gensame", "genplain", "genbase"}       # families with already-fired Deferreds (`mk`)


def _flagged(rng, name, n, dbgmax):
    """the same family under each global mode / input class the statement does not exclude, one at a time and combined"""
    for fl in FLAGS + ("combo",):
        if fl == "mk" and name not in HAS_PRE:
            continue
        if fl == "dbg" and n > dbgmax:
            continue
        if fl == "combo":
            fs = {x: 1 for x in FLAGS if rng.random() < 0.6 and not (x == "dbg" and n > dbgmax) and not (x == "mk" and name not in HAS_PRE)}
        else:
            fs = {fl: 1}
        yield fs


def corpus():
    cs = []
    for name, ks in SHAPES:
        for k in ks:
            for n in (0, 1, 2, 3, 10, 20, 100):
                cs.append({"kind": "shape", "name": name, "n": n, "k": k})
    for n in (0, 1, 2, 5, 10, 50, 100):
        cs.append({"kind": "shape", "name": "explicit", "n": n, "k": 0})
    # boundary programs
    cs += [
        {"kind": "prog", "defs": [["r0", "p"]], "gens": [], "ops": ["F0:1"]},                  # returns itself
        {"kind": "prog", "defs": [["p", "f1"], ["p", "f0"]], "gens": [], "ops": ["F0:1"]},     # chainDeferred cycle
        {"kind": "prog", "defs": [["r1", "p"], ["p"]], "gens": [], "ops": ["F0:1", "F0:2", "E1:4"]},
        {"kind": "prog", "defs": [["r1", "p"], ["x3", "p"]], "gens": [], "ops": ["P1", "F1:2", "F0:1", "U1"]},
        {"kind": "prog", "defs": [[], [], []], "gens": [[2, ["y0", "a1"]]], "ops": ["S0", "P1", "F1:2", "F0:1", "U1", "A2:p"]},
        # a callback returns a Deferred that is in the middle of its own callbacks (fix aeb58d6, witness 2)
        {"kind": "prog", "defs": [["r1", "r1", "p"], []], "gens": [], "ops": ["F0:1", "A1:c7", "F1:5"]},
        # a plain value yielded between two Deferreds, one awaited twice
        {"kind": "prog", "defs": [[], [], []], "gens": [[2, ["y0", "v5", "y0", "v0", "a1"]]], "ops": ["F0:0", "S0", "A2:p", "E1:2"]},
    ]
    # witnesses of the mutation audit (harness/mutants/C02): result None, Deferred debugging on, Deferred subclasses,
    # succeed()/fail(), non-Deferred yields, the same Deferred awaited again, a failure outside `Exception`
    for name in ("outer", "inner", "gen", "coro"):
        kind = "shape"
        for fl in FLAGS:
            if fl == "mk" and name not in HAS_PRE:
                continue
            for n in (3, 20, 100):
                cs.append({"kind": kind, "name": name, "n": n, "k": 0, fl: 1})
                cs.append({"kind": kind, "name": name, "n": n, "k": 1, fl: 1})
    for name, ks in (("gensame", [0, 1, 2, 3]), ("genplain", [0, 1, 2, 3]), ("genbase", [0, 1]), ("fanin", [0, 2]), ("late", [0, 1])):
        for k in ks:
            for n in (0, 1, 2, 5, 20, 100):
                cs.append({"kind": "family", "name": name, "n": n, "k": k, "seed": 1})
            cs.append({"kind": "family", "name": name, "n": 30, "k": k, "seed": 1, "dbg": 1, "cls": 1, "nil": 1, "mk": 1})
    for name in ("outer", "inner"):
        for n in (0, 1, 20, 100):
            cs.append({"kind": "shape", "name": name, "n": n, "k": 2})
    return cs


def _rand_prog(rng):
    nd = rng.randint(1, 6)
    ng = rng.choice([0, 0, 1, 1, 2])
    outs = list(range(nd, nd + ng))
    def cb():
        r = rng.random()
        if r < 0.3:
            return "p"
        if r < 0.6:
            return f"r{rng.randrange(nd)}"
        if r < 0.7:
            return f"c{rng.randint(1, 9)}"
        if r < 0.8:
            return f"x{rng.randint(1, 9)}"
        return f"f{rng.randrange(nd)}"
    defs = [[cb() for _ in range(rng.choice([0, 1, 1, 2, 2, 3]))] for _ in range(nd)] + [[] for _ in outs]
    gens = [[o, [rng.choice("ya") + str(rng.randrange(nd)) for _ in range(rng.randint(0, 4))]] for o in outs]
    if gens and rng.random() < 0.4:
        for g in gens:
            kind = rng.choice("ya")
            g[1] = [kind + it[1:] for it in g[1]]
    for g in gens:                       # things that are not Deferreds yielded in between (generators only)
        if rng.random() < 0.3 and not (g[1] and all(it[0] == "a" for it in g[1])):
            for _ in range(rng.randint(1, 2)):
                g[1].insert(rng.randint(0, len(g[1])), f"v{rng.choice([0, 5])}")
    ops, started, npause = [], [], {}
    pending = list(range(ng))
    for _ in range(rng.randint(1, 14)):
        r = rng.random()
        live = list(range(nd)) + [outs[g] for g in started]
        i = rng.choice(live)
        if pending and r < 0.2:
            g = pending.pop(0); started.append(g); ops.append(f"S{g}")
        elif r < 0.55:
            ops.append(f"F{rng.randrange(nd)}:{rng.choice([0, 0, 1, 2, 3, 4, 5, 6, 7, 8, 9])}")      # 0 is None
        elif r < 0.65:
            ops.append(f"{'B' if (ng == 0 and rng.random() < 0.3) else 'E'}{rng.randrange(nd)}:{rng.randint(1, 9)}")
        elif r < 0.75:
            npause[i] = npause.get(i, 0) + 1
            ops.append(f"P{i}")
        elif r < 0.87:
            if npause.get(i, 0) > 0:      # unpause() without a matching pause() is API misuse (the real code can loop forever)
                npause[i] -= 1
                ops.append(f"U{i}")
        else:
            ops.append(f"A{i}:{cb()}")
    c = {"kind": "prog", "defs": defs, "gens": gens, "ops": ops}
    for fl in ("dbg", "cls", "api"):
        if rng.random() < 0.15:
            c[fl] = 1
    return c


def generate(rng, tier):
    sizes = [11, 37, 100, 1000, 10000] + ([100000] if tier == "thorough" else [])
    for n in sizes:
        for name, ks in SHAPES:
            for k in ks:
                yield {"kind": "shape", "name": name, "n": n, "k": k}
        for name, ks in FAMILIES:
            for k in (ks if (n < 10000 or tier == "thorough") else [rng.choice(ks)]):
                yield {"kind": "family", "name": name, "n": n, "k": k, "seed": rng.randrange(1000)}
    for n in (7, 33, 64, 100):
        yield {"kind": "shape", "name": "explicit", "n": n, "k": 0}
    # the same families under Deferred debugging / with Deferred subclasses / with None results / with succeed(), fail()
    dbgmax = 300 if tier == "quick" else 1000
    for n in [11, 37, 300, 1000] + ([3000, 20000] if tier == "thorough" else []):
        for name, ks in SHAPES + FAMILIES:
            fss = list(_flagged(rng, name, n, dbgmax))
            for fs in (fss if n < 20000 else [rng.choice(fss)]):
                yield dict({"kind": "shape" if (name, ks) in SHAPES else "family", "name": name, "n": n,
                            "k": rng.choice(ks), "seed": rng.randrange(1000)}, **fs)
    for _ in range(60 if tier == "quick" else 300):
        name, ks = rng.choice(FAMILIES)
        c = {"kind": "family", "name": name, "n": rng.choice([0, 1, 2, 3, 4, 5, 6, 9, 10, 17, 31, 64, 150]),
             "k": rng.choice(ks), "seed": rng.randrange(1000)}
        for fl in FLAGS:
            if rng.random() < 0.3 and not (fl == "mk" and name not in HAS_PRE):
                c[fl] = 1
        yield c
    for _ in range(1500 if tier == "quick" else 12000):
        yield _rand_prog(rng)


def shrink(c):
    if c["kind"] == "prog":
        ops = c["ops"]
        for i in range(len(ops)):
            if not ops[i].startswith("S"):
                yield dict(c, ops=ops[:i] + ops[i + 1:])
        for i, d in enumerate(c["defs"]):
            for j in range(len(d)):
                yield dict(c, defs=c["defs"][:i] + [d[:j] + d[j + 1:]] + c["defs"][i + 1:])
        for gi, g in enumerate(c["gens"]):
            for j in range(len(g[1])):
                yield dict(c, gens=c["gens"][:gi] + [[g[0], g[1][:j] + g[1][j + 1:]]] + c["gens"][gi + 1:])
    else:
        n = c["n"]
        for m in (n // 10, n // 2, n - 1):
            if N1 < m < n:
                yield dict(c, n=m)
        for fl in FLAGS:
            if c.get(fl):
                yield {a: b for a, b in c.items() if a != fl}


def search(rng, tier, disagreeing):
    """a depth that grows with n is the witness: sweep every in-scope family at sizes up to the recursion limit's reach"""
    for name, ks in SHAPES + FAMILIES:
        for k in ks:
            kind = "shape" if (name, ks) in SHAPES else "family"
            for n in (30, 100, 400, 2000):
                yield {"kind": kind, "name": name, "n": n, "k": k, "seed": 1}
            for n in (30, 400):
                for fl in FLAGS:
                    if not (fl == "mk" and name not in HAS_PRE):
                        yield {"kind": kind, "name": name, "n": n, "k": k, "seed": 1, fl: 1}
