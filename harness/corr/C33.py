"""C33 — decoding arbitrary bytes as DNS is total and terminates: real Message.fromStr / protocols vs the Lean model."""
import struct
import time

from twisted.internet.testing import StringTransport
from twisted.names import dns

from corr import _dns as D
from corr import C32 as G          # the structured message generator (valid encodings to mutate)

HEADLINE = "TwistedProps.C33.message_decode_total"
RULE = ("valid encodings of random messages over every Record_* class (the C32 generator), then: cut at every kind of boundary, "
        "1..4 bytes overwritten (0x00/0xC0/0xFF/offset bytes), RDLENGTH / section counts / label lengths made bogus, compression "
        "pointers redirected (self, forward, mutual cycles, chains through every earlier pointer), record TYPE rewritten to each "
        "supported type in turn so that every Record_*.decode sees foreign RDATA; hand-made pointer cycles; short and random byte "
        "strings; each through Message.fromStr (and _EDNSMessage.fromStr), DNSDatagramProtocol.datagramReceived and a framed "
        "DNSProtocol.dataReceived, plus raw TCP segmentations; distinct = (op, mutation kind, outcome class, record types reached)")
ASSUMES = [
    "the byte string is the DNS packet (the UDP payload, or the content of one 2-byte-length-prefixed TCP frame); the TCP stream "
    "framing itself is outside the Lean model and is exercised by oracle-only cases (op 'tcpseg')",
    "a per-input wall time above 2 s counts as non-termination (typical decode time is well under a millisecond)",
]
TRUSTED = ["CPython BytesIO semantics for short and negative reads, transcribed in readPrecisely/readPreciselyInt"]
MANIFEST = {
    "text": "Lean theorems (TwistedProps/C33.lean): Name.decode's loop is a well-founded recursion on (unvisited 14-bit offsets, bytes "
            "left) - no input makes it loop; for every byte string Message.fromStr (and _EDNSMessage.fromStr) of the model returns a "
            "message or raises EOFError/ValueError, the struct.error/TypeError/other branches of the primitives being unreachable. "
            "Model tied to dns.py by differential runs on mutated encodings (pointer cycles, bogus lengths, every record type); the "
            "real protocols' error handling and per-input time checked by the oracle.",
    "note": "totality of the model; that the model's exception classes are Python's rests on the differential tie (partial in that sense)",
    "technique": "Lean 4 proof (well-founded recursion + exhaustive case analysis of failure modes) + differential tie on mutated inputs",
    "design_ref": "DESIGN.md §7 C33",
}

ALLOWED = ("EOFError", "ValueError")


def _valid(rng):
    """a valid encoding (bytes) and the offsets worth attacking"""
    for _ in range(20):
        m = G._message(rng)
        try:
            return D.build_message(m).toStr()
        except Exception:
            continue
    return b"\x00" * 12


def _mutate(rng, b):
    b = bytearray(b)
    kind = rng.choice(["cut", "bytes", "ptr", "rdlen", "count", "type", "label", "append", "cutptr"])
    n = len(b)
    if kind == "cut":
        b = b[:rng.choice([0, 1, 11, 12, 13, rng.randint(0, n), rng.randint(0, n), max(0, n - 1)])]
    elif kind == "bytes":
        for _ in range(rng.randint(1, 4)):
            i = rng.randrange(n)
            b[i] = rng.choice([0, 0xC0, 0xC0, 0xFF, 0x40, 0x80, 12, i & 0xFF, rng.randrange(256)])
    elif kind in ("ptr", "cutptr"):
        # write pointers at random places: to themselves, forward, to each other
        spots = [rng.randrange(12, max(13, n - 1)) for _ in range(rng.randint(1, 3))]
        for i in spots:
            if i + 1 < n:
                tgt = rng.choice([i, i + 2, spots[0], spots[-1], 12, rng.randrange(0, n + 4), 0x3FFF, 0])
                b[i] = 0xC0 | ((tgt >> 8) & 0x3F)
                b[i + 1] = tgt & 0xFF
        if kind == "cutptr":
            b = b[:rng.randint(12, n)]
    elif kind == "rdlen":
        i = rng.randrange(12, max(13, n - 1))
        v = rng.choice([0, 1, 2, 4, 5, 0xFFFF, n, rng.randrange(65536)])
        if i + 1 < n:
            b[i], b[i + 1] = v >> 8, v & 0xFF
    elif kind == "count":
        i = rng.choice([4, 6, 8, 10])
        v = rng.choice([0, 1, 2, 3, 0xFFFF, 200])
        b[i], b[i + 1] = v >> 8, v & 0xFF
    elif kind == "type":
        # find a plausible TYPE field: two bytes followed by class 0x0001 - cheap heuristic, else random spot
        t = rng.choice(G.TYPES + [41, 0, 65535])
        cands = [i for i in range(12, n - 3) if b[i + 2] == 0 and b[i + 3] == 1]
        i = rng.choice(cands) if cands else rng.randrange(12, max(13, n - 1))
        if i + 1 < n:
            b[i], b[i + 1] = t >> 8, t & 0xFF
    elif kind == "label":
        i = rng.randrange(12, max(13, n))
        if i < n:
            b[i] = rng.choice([63, 64, 65, 127, 128, 191, 192, 255, n & 0xFF])
    elif kind == "append":
        b += bytes(rng.randrange(256) for _ in range(rng.randint(1, 8)))
    return kind, bytes(b)


def _hdr(nq=0, nan=0, nns=0, nad=0, flags=0):
    return struct.pack("!H2B4H", 1, flags, 0, nq, nan, nns, nad)


def corpus():
    cyc = lambda body, **k: {"op": "dec", "mut": "corpus", "data": (_hdr(**k) + body).hex()}  # noqa: E731
    a = [
        {"op": "dec", "mut": "corpus", "data": ""}, {"op": "dec", "mut": "corpus", "data": "00"},
        {"op": "dec", "mut": "corpus", "data": "00" * 11}, {"op": "dec", "mut": "corpus", "data": "00" * 12},
        cyc(b"\xc0\x0c\x00\x01\x00\x01", nq=1),                                   # pointer to itself
        cyc(b"\xc0\x0e\xc0\x0c\x00\x01\x00\x01", nq=1),                           # two pointers at each other
        cyc(b"\x01a\xc0\x0c\x00\x01\x00\x01", nq=1),                              # label then back to its own start
        cyc(b"\xc0\x20", nq=1), cyc(b"\xff\xff", nq=1), cyc(b"\x40abc", nq=1), cyc(b"\x80", nq=1),
        cyc(b"\x00\x00\x0b\x00\x01\x00\x00\x00\x00\x00\x02\x01\x02", nan=1),        # WKS with RDLENGTH 2: read(-3)
        cyc(b"\x00\x00\x2c\x00\x01\x00\x00\x00\x00\x00\x01\x07", nan=1),            # SSHFP RDLENGTH 1
        cyc(b"\x00\x00\x26\x00\x01\x00\x00\x00\x00\x00\x01\xff", nan=1),            # A6 prefixLen 255
        cyc(b"\x00\x00\x26\x00\x01\x00\x00\x00\x00\x00\x03\x88\x01\x00", nan=1),    # A6 prefixLen 136: read(-1)
        cyc(b"\x00\x00\x10\x00\x01\x00\x00\x00\x00\xff\xff\x05hello", nan=1),       # TXT with RDLENGTH 65535
        cyc(b"\x00\x00\x29\x10\x00\x00\x00\x80\x00\x00\x03\x00\x01\x00", nad=1),    # OPT with a truncated option
        cyc(b"\x00\x00\xfa\x00\xff\x00\x00\x00\x00\x00\x00", nad=1),                # TSIG with no RDATA
        cyc(b"", nq=65535, nan=65535, nns=65535, nad=65535),
    ]
    a += [dict(c, op="edec") for c in a[4:]] + [dict(c, op="udp") for c in a[:8]] + [dict(c, op="tcp") for c in a[:8]]
    a += [{"op": "tcpseg", "mut": "corpus", "chunks": ["00"]}, {"op": "tcpseg", "mut": "corpus", "chunks": ["00", "0c" + "00" * 12]},
          {"op": "tcpseg", "mut": "corpus", "chunks": ["000c" + "00" * 6, "00" * 6 + "00"]}]
    return a


def generate(rng, tier):
    n = 2500 if tier == "quick" else 80000
    for i in range(n):
        r = rng.random()
        if r < 0.86:
            kind, data = _mutate(rng, _valid(rng))
            if rng.random() < 0.3:                      # a second mutation on top
                k2, data = _mutate(rng, data) if len(data) > 14 else ("", data)
                kind += "+" + k2
        elif r < 0.93:
            kind, data = "random", bytes(rng.randrange(256) for _ in range(rng.choice([0, 1, 5, 12, 13, 20, 40, 100])))
        else:
            kind, data = "valid", _valid(rng)
        op = rng.choice(["dec", "dec", "dec", "dec", "edec", "edec", "udp", "tcp"])
        yield {"op": op, "mut": kind, "data": data.hex()}
    for i in range(n // 50):
        data = _valid(rng)
        frame = struct.pack("!H", len(data)) + data
        cuts = sorted(rng.randrange(len(frame) + 1) for _ in range(rng.randint(0, 3)))
        chunks = [frame[a:b] for a, b in zip([0] + cuts, cuts + [len(frame)])]
        if rng.random() < 0.5:
            chunks = [c for c in chunks if c]
        yield {"op": "tcpseg", "mut": "segments", "chunks": [c.hex() for c in chunks]}


def model_line(c):
    if c["op"] == "tcpseg":
        return None                                   # oracle only: the stream framing is not modelled
    op = "edec" if c["op"] == "edec" else "dec"
    return f"{op} " + (c["data"] or "-")


class _Controller:
    def __init__(self):
        self.got = []

    def messageReceived(self, m, proto, addr=None):
        self.got.append(m)

    def connectionMade(self, p):
        pass

    def connectionLost(self, p):
        pass


def _observe_log(f):
    """run f() collecting what it reports through the legacy log (log.err = 'unexpected')"""
    from twisted.python import log
    seen = []

    def obs(ev):
        if ev.get("isError"):
            fl = ev.get("failure")
            seen.append(fl.type.__name__ if fl is not None else "error")
    log.addObserver(obs)
    try:
        f()
    finally:
        log.removeObserver(obs)
    return seen


_last_t = [0.0]
_hangs = [0]
HANG_S = 3.0


def run_impl(c):
    """the decode runs under a watchdog: a decoder that loops must not take the check down with it"""
    import threading
    if _hangs[0] >= 3:
        return "!hang (skipped: three inputs already hung)"
    box = []

    def work():
        try:
            box.append(_run(c, c["op"]))
        except BaseException as e:      # noqa: BLE001 - the class is the observable
            box.append(f"!raised {type(e).__name__}")
    t0 = time.time()
    th = threading.Thread(target=work, daemon=True)
    th.start()
    th.join(HANG_S)
    _last_t[0] = time.time() - t0
    if th.is_alive():
        _hangs[0] += 1
        return "!hang"
    return box[0]


def _run(c, op):
    if op == "tcpseg":
        ctl = _Controller()
        p = dns.DNSProtocol(ctl)
        p.makeConnection(StringTransport())
        try:
            for ch in c["chunks"]:
                p.dataReceived(bytes.fromhex(ch))
        except BaseException as e:
            return f"!raised {type(e).__name__}"
        return f"delivered {len(ctl.got)}"
    data = bytes.fromhex(c["data"])
    if op == "dec":
        m = dns.Message()
        try:
            m.fromStr(data)
        except BaseException as e:
            return f"!raised {type(e).__name__}"
        return D.show_message(m)
    if op == "edec":
        m = dns._EDNSMessage()
        try:
            m.fromStr(data)
        except BaseException as e:
            return f"!raised {type(e).__name__}"
        return D.show_edns(m)
    ctl = _Controller()
    if op == "udp":
        p = dns.DNSDatagramProtocol(ctl)
        p.startProtocol()
        unexpected = _observe_log(lambda: p.datagramReceived(data, ("192.0.2.1", 53)))
        if unexpected:
            return "!raised " + unexpected[0]          # "Unexpected decoding error": the class that was caught
        if ctl.got:
            return D.show_message(ctl.got[0])
        # dropped: reproduce the class the protocol caught, for the comparison with the model
        m = dns.Message()
        try:
            m.fromStr(data)
        except (EOFError, ValueError) as e:
            return f"!raised {type(e).__name__}"
        return "dropped-without-error"
    if op == "tcp":
        p = dns.DNSProtocol(ctl)
        p.makeConnection(StringTransport())
        try:
            p.dataReceived(struct.pack("!H", len(data)) + data)
        except BaseException as e:
            return f"!raised {type(e).__name__}"
        return D.show_message(ctl.got[0]) if ctl.got else "nothing-delivered"
    return "bad-op"


def oracle(c, out):
    t, _last_t[0] = _last_t[0], 0.0
    if out == "!hang":
        return {"key": "decode-does-not-terminate", "detail": f"{c['op']} still running after {HANG_S}s on {str(c.get('data'))[:200]}"}
    if t > 2.0:
        return {"key": "slow-decode", "detail": f"{c['op']} took {t:.1f}s on {len(c.get('data', ''))//2} bytes"}
    if out.startswith("!raised "):
        cls = out.split()[1]
        if cls not in ALLOWED:
            key = "tcp-short-segment-typeerror" if c["op"] == "tcpseg" and cls == "TypeError" else f"raises-{cls}"
            return {"key": key, "detail": f"{c['op']} raised {cls} on {str(c.get('data', c.get('chunks')))[:200]}"}
    if out in ("dropped-without-error", "nothing-delivered"):
        return {"key": "lost-message", "detail": f"{c['op']}: decodable packet was not delivered"}
    return None


def shrink(c):
    if c["op"] == "tcpseg":
        ch = c["chunks"]
        for i in range(len(ch)):
            yield dict(c, chunks=ch[:i] + ch[i + 1:])
        return
    d = c["data"]
    for i in range(0, len(d), 2):
        yield dict(c, data=d[:i] + d[i + 2:])
    for i in range(0, len(d), 2):
        if d[i:i + 2] != "00":
            yield dict(c, data=d[:i] + "00" + d[i + 2:])


def tag(c, out):
    cls = out.split()[1] if out.startswith("!raised") else ("delivered" if out.startswith("delivered") else "msg")
    types = ""
    if cls == "msg":
        types = "-".join(sorted({it.split(":")[2] for it in out.split()[5:] if it.startswith("r:")})[:3])
    return f"{c['op']}:{c.get('mut', '')}:{cls}:{types}"
