"""C33 — decoding arbitrary bytes as DNS is total and terminates: real Message.fromStr / protocols vs the Lean model."""
import struct
import time

from twisted.internet.testing import StringTransport
from twisted.names import dns

from corr import _dns as D
from corr import C32 as G          # the structured message generator (valid encodings to mutate)

MODEL_MAX = 6000          # bytes; longer dec/edec/udp/tcp inputs are judged by the oracle only (the model's lists are slow there)
HEADLINE = "TwistedProps.C33.message_decode_total"   # + tcp_dataReceived_total, tcp_segmentation_invariance, datagram_decode_total
RULE = ("valid encodings of random messages over every Record_* class (the C32 generator), then: cut at every kind of boundary, "
        "1..4 bytes overwritten (0x00/0xC0/0xFF/offset bytes), RDLENGTH / section counts / label lengths made bogus, compression "
        "pointers redirected (self, forward, mutual cycles, chains through every earlier pointer), record TYPE rewritten to each "
        "supported type in turn so that every Record_*.decode sees foreign RDATA; hand-made pointer cycles; short and random byte "
        "strings; each through Message.fromStr (and _EDNSMessage.fromStr), DNSDatagramProtocol.datagramReceived and a framed "
        "DNSProtocol.dataReceived; TCP streams (good frames, frames that do not decode - pointer cycle, cut message, zero length -, "
        "incomplete tails, ids present in liveMessages) in EVERY segmentation when short, byte by byte, at every pair of cut points "
        "and in random segmentations (empty segments included) when long, through a fresh DNSProtocol (op 'tcpseg': events, exception, "
        "final length/buffer/liveMessages); datagrams through DNSDatagramProtocol.datagramReceived with liveMessages/resends set "
        "(op 'udpin'), the peer address being an IPv4 2-tuple, an IPv6 4-tuple or an empty host; "
        "added by the white-box mutation audit (harness/mutants/C33): EVERY prefix of a valid encoding of each record type "
        "('allcuts': the input ends inside every field of every Record_*.decode, OPT options included); for every TYPE each boundary "
        "value of its first RDATA octet (A6 prefix lengths 0..255, string lengths, label lengths / pointer octets) + 0..40 filler "
        "octets under right / off-by-one / tiny / huge RDLENGTHs ('rdgrid'); the real encoder's RDATA of every type under its exact "
        "RDLENGTH, +-1, +-2, 0, 1, 65535 ('rdexact'); names that run through 1..8000 compression pointers (around CPython's "
        "recursion limit of 1000 and up to the 14-bit offset space), ending in the root, a loop, past the end or a cut pointer, "
        "in a question or in RDATA ('chain'); names made as long as the message allows - an area of equal octets read as (l+1)/2 "
        "interleaved chains of l-byte labels joined by pointers, 700 bytes to a 32768-byte TCP frame ('interleaved', oracle-only "
        f"above {MODEL_MAX} bytes); TCP segments holding 40..1600 (thorough 4600) whole frames, split anywhere, a malformed frame last "
        "('manyframes'); distinct = (op, mutation kind, outcome class, record types reached)")
ASSUMES = [
    "a TCP connection is a fresh DNSProtocol fed the segments in order; an exception out of dataReceived ends the connection (the "
    "reactor logs it and calls connectionLost) - tcp_after_error shows that feeding on would hand over nothing more anyway",
    "controller.messageReceived, the callbacks of a pending query's Deferred (whose exceptions the protocols catch and log) and "
    "canceller.cancel() are the consumers of the modelled hand-over events, not part of the model",
    "a per-input decode time above 2 s counts as non-termination (typical decode time is well under a millisecond; a 32768-byte "
    "TCP frame built to make one name as long as possible takes about 0.1 s, a 65535-byte one 0.2 s); the time is the CPU time of the decoding thread - "
    "decoding does no I/O and never waits - so that the verdict does not depend on what else the machine is doing",
    "the peer address handed to datagramReceived (IPv4 2-tuple, IPv6 4-tuple with flowinfo/scope id, empty host) does not "
    "influence what the datagram protocol does with a datagram; the model has no address, the cases vary it",
]
TRUSTED = ["CPython BytesIO semantics for short and negative reads, transcribed in readPrecisely/readPreciselyInt"]
MANIFEST = {
    "text": "Lean theorems (TwistedProps/C33.lean): Name.decode's loop is a well-founded recursion on (unvisited 14-bit offsets, bytes "
            "left) - no input makes it loop; for every byte string Message.fromStr (and _EDNSMessage.fromStr) of the model returns a "
            "message or raises EOFError/ValueError, the struct.error/TypeError/other branches of the primitives being unreachable "
            "(message_decode_total, edns_decode_total). Entry points (model TwistedModel/Dns/Proto.lean): for every state of a "
            "DNSProtocol and every segment dataReceived terminates and raises nothing but the decoder's EOFError/ValueError "
            "(tcp_dataReceived_total, tcp_feed_total; struct.unpack('!H') unreachable failure); for every stream and every segmentation "
            "the hand-overs (controller / pending query), the exception and the final length/buffer are those of cutting the stream at "
            "the length prefixes and decoding frame after frame (tcp_segmentation_invariance, tcp_segmentation_independent; "
            "frames_encode: the cuts of writeMessage's encoding are the packets); after an exception nothing more is handed over "
            "(tcp_after_error); a frame that does not decode - e.g. a pointer cycle - raises in the TCP stream exactly the class for "
            "which datagramReceived drops the datagram (tcp_malformed_frame_like_udp, pointer_cycle_in_tcp_stream); datagramReceived "
            "never reaches its 'Unexpected decoding error' clause (datagram_decode_total, datagram_never_unexpected). "
            "Model tied to dns.py by differential runs on mutated encodings (pointer cycles, bogus lengths, every record type) and on "
            "TCP streams in all segmentations; per-input time and an independent framing reference checked by the oracle. "
            "White-box mutation audit (harness/mutants/C33, 13 mutants): every prefix of an encoding of each record type, boundary "
            "first octets x RDLENGTHs per type, pointer chains beyond the recursion limit, names as long as a message allows, "
            "hundreds of frames per TCP segment and IPv6 peer addresses are generated in the quick tier. The last class exposed a "
            "genuine defect - Name.decode copied the whole name for every label: quadratic, a 65535-byte TCP frame took minutes - "
            "fixed in twisted (Name.decode joins the labels once).",
    "note": "totality of the model; that the model's exception classes are Python's rests on the differential tie (partial in that sense)",
    "technique": "Lean 4 proof (well-founded recursion + exhaustive case analysis of failure modes) + differential tie on mutated inputs",
    "design_ref": "DESIGN.md §7 C33",
}

ALLOWED = ("EOFError", "ValueError")


def _valid(rng):
    """a valid encoding (bytes) and the offsets worth attacking"""
    for _ in range(20):
        m = G._message(rng)
        try:
            return D.build_message(m).toStr()
        except Exception:
            continue
    return b"\x00" * 12


def _mutate(rng, b):
    b = bytearray(b)
    kind = rng.choice(["cut", "bytes", "ptr", "rdlen", "count", "type", "label", "append", "cutptr"])
    n = len(b)
    if kind == "cut":
        b = b[:rng.choice([0, 1, 11, 12, 13, rng.randint(0, n), rng.randint(0, n), max(0, n - 1)])]
    elif kind == "bytes":
        for _ in range(rng.randint(1, 4)):
            i = rng.randrange(n)
            b[i] = rng.choice([0, 0xC0, 0xC0, 0xFF, 0x40, 0x80, 12, i & 0xFF, rng.randrange(256)])
    elif kind in ("ptr", "cutptr"):
        # write pointers at random places: to themselves, forward, to each other
        spots = [rng.randrange(12, max(13, n - 1)) for _ in range(rng.randint(1, 3))]
        for i in spots:
            if i + 1 < n:
                tgt = rng.choice([i, i + 2, spots[0], spots[-1], 12, rng.randrange(0, n + 4), 0x3FFF, 0])
                b[i] = 0xC0 | ((tgt >> 8) & 0x3F)
                b[i + 1] = tgt & 0xFF
        if kind == "cutptr":
            b = b[:rng.randint(12, n)]
    elif kind == "rdlen":
        i = rng.randrange(12, max(13, n - 1))
        v = rng.choice([0, 1, 2, 4, 5, 0xFFFF, n, rng.randrange(65536)])
        if i + 1 < n:
            b[i], b[i + 1] = v >> 8, v & 0xFF
    elif kind == "count":
        i = rng.choice([4, 6, 8, 10])
        v = rng.choice([0, 1, 2, 3, 0xFFFF, 200])
        b[i], b[i + 1] = v >> 8, v & 0xFF
    elif kind == "type":
        # find a plausible TYPE field: two bytes followed by class 0x0001 - cheap heuristic, else random spot
        t = rng.choice(G.TYPES + [41, 0, 65535])
        cands = [i for i in range(12, n - 3) if b[i + 2] == 0 and b[i + 3] == 1]
        i = rng.choice(cands) if cands else rng.randrange(12, max(13, n - 1))
        if i + 1 < n:
            b[i], b[i + 1] = t >> 8, t & 0xFF
    elif kind == "label":
        i = rng.randrange(12, max(13, n))
        if i < n:
            b[i] = rng.choice([63, 64, 65, 127, 128, 191, 192, 255, n & 0xFF])
    elif kind == "append":
        b += bytes(rng.randrange(256) for _ in range(rng.randint(1, 8)))
    return kind, bytes(b)


def _hdr(nq=0, nan=0, nns=0, nad=0, flags=0):
    return struct.pack("!H2B4H", 1, flags, 0, nq, nan, nns, nad)


def corpus():
    cyc = lambda body, **k: {"op": "dec", "mut": "corpus", "data": (_hdr(**k) + body).hex()}  # noqa: E731
    a = [
        {"op": "dec", "mut": "corpus", "data": ""}, {"op": "dec", "mut": "corpus", "data": "00"},
        {"op": "dec", "mut": "corpus", "data": "00" * 11}, {"op": "dec", "mut": "corpus", "data": "00" * 12},
        cyc(b"\xc0\x0c\x00\x01\x00\x01", nq=1),                                   # pointer to itself
        cyc(b"\xc0\x0e\xc0\x0c\x00\x01\x00\x01", nq=1),                           # two pointers at each other
        cyc(b"\x01a\xc0\x0c\x00\x01\x00\x01", nq=1),                              # label then back to its own start
        cyc(b"\xc0\x20", nq=1), cyc(b"\xff\xff", nq=1), cyc(b"\x40abc", nq=1), cyc(b"\x80", nq=1),
        cyc(b"\x00\x00\x0b\x00\x01\x00\x00\x00\x00\x00\x02\x01\x02", nan=1),        # WKS with RDLENGTH 2: read(-3)
        cyc(b"\x00\x00\x2c\x00\x01\x00\x00\x00\x00\x00\x01\x07", nan=1),            # SSHFP RDLENGTH 1
        cyc(b"\x00\x00\x26\x00\x01\x00\x00\x00\x00\x00\x01\xff", nan=1),            # A6 prefixLen 255
        cyc(b"\x00\x00\x26\x00\x01\x00\x00\x00\x00\x00\x03\x88\x01\x00", nan=1),    # A6 prefixLen 136: read(-1)
        cyc(b"\x00\x00\x10\x00\x01\x00\x00\x00\x00\xff\xff\x05hello", nan=1),       # TXT with RDLENGTH 65535
        cyc(b"\x00\x00\x29\x10\x00\x00\x00\x80\x00\x00\x03\x00\x01\x00", nad=1),    # OPT with a truncated option
        cyc(b"\x00\x00\xfa\x00\xff\x00\x00\x00\x00\x00\x00", nad=1),                # TSIG with no RDATA
        cyc(b"", nq=65535, nan=65535, nns=65535, nad=65535),
    ]
    a += [dict(c, op="edec") for c in a[4:]] + [dict(c, op="udp") for c in a[:8]] + [dict(c, op="tcp") for c in a[:8]]
    a += [{"op": "tcpseg", "mut": "corpus", "chunks": ["00"]}, {"op": "tcpseg", "mut": "corpus", "chunks": ["00", "0c" + "00" * 12]},
          {"op": "tcpseg", "mut": "corpus", "chunks": ["000c" + "00" * 6, "00" * 6 + "00"]}]
    good, cyc18 = _hdr(), _hdr(nq=1) + b"\xc0\x0c\x00\x01\x00\x01"
    fr = lambda *ps: b"".join(struct.pack("!H", len(p)) + p for p in ps)    # noqa: E731
    a += [_seg([fr(good, cyc18, good)], "corpus"), _seg([bytes([x]) for x in fr(good, cyc18, good)], "corpus"),
          _seg([fr(good)[:1], fr(good)[1:] + fr(good)[:3], b"", fr(good)[3:]], "corpus", live=[1]),
          _seg([b"\x00\x00"], "corpus"), _seg([b"\x00", b"\x00"], "corpus"), _seg([b"\x00\x05abc", b"", b"de"], "corpus"),
          _seg([], "corpus"), _seg([b""], "corpus"), _seg([fr(good, good), fr(good)], "corpus", live=[1, 7])]
    a += [{"op": "udpin", "mut": "corpus", "data": d.hex(), "live": lv, "resends": rs}
          for d in (b"", good, cyc18, good[:11]) for lv, rs in (([], []), ([1], []), ([], [1]), ([1], [1]), ([2], [3]))]
    # witnesses of the mutation audit (harness/mutants/C33): one per class that the earlier generator did not reach
    w = lambda d, op="dec", **k: dict({"op": op, "mut": "corpus-audit", "data": d.hex()}, **k)     # noqa: E731
    a += [w(_chain(1100, "root")), w(_chain(1100, "loop"), "tcp"), w(_chain(1100, "root", "label", "rd")),     # m01
          w(_hdr(nq=1) + b"\x01a\xc0"),                                                                        # m02
          w(_hdr(nad=1) + b"\x00\x00\x29\x10\x00\x00\x00\x80\x00\x00\x06\x00\x01\x00\x00\x00\x02", "edec"),   # m05
          w(_hdr(nad=1) + b"\x00\x00\xfa\x00\xff\x00\x00\x00\x00\x00\x10\x00" + b"\x00" * 4),                # m08: TSIG cut in its fixed block
          w(_hdr(nad=1) + b"\x00\x00\x29\x10\x00\x00\x00\x00\x00\x00\x00", "edec"),                            # m09: OPT, RDLENGTH 0
          w(_hdr(nan=1) + b"\x00\x00\x63\x00\x01\x00\x00\x00\x00\x00\x00"),                                    # SPF, RDLENGTH 0
          w(_hdr(nan=1) + b"\x00\x00\x26\x00\x01\x00\x00\x00\x00\x00\x14\x88" + b"\x01" * 19),               # m12: A6 prefixLen 136 + 19 octets
          w(_hdr(nan=1) + b"\x00\x00\x0b\x00\x01\x00\x00\x00\x00\x00\x09\x01\x02\x03\x04"),                  # m13: WKS cut after the address
          w(_interleaved(2000)), w(_interleaved(16384)), w(_interleaved(32768), "tcp")]                             # quadratic Name.decode (fixed)
    a += [w(d, "udp", addr=ad) for d in (b"", good[:5], cyc18, good) for ad in ADDRS]                             # m06
    a += [{"op": "udpin", "mut": "corpus-audit", "data": d.hex(), "live": [], "resends": [], "addr": ad}
          for d in (good[:5], cyc18) for ad in ADDRS[1:]]
    one = struct.pack("!H", 12) + good
    a += [_seg([one * 1100], "corpus-audit"), _seg([one * 1100 + fr(cyc18)], "corpus-audit", live=[1])]             # m07
    return a


def _seg(chunks, mut, live=()):
    return {"op": "tcpseg", "mut": mut, "chunks": [c.hex() for c in chunks], "live": list(live)}


def _compositions(b):
    """every way of cutting b into non-empty consecutive segments (2**(len-1) of them)"""
    n = len(b)
    if n == 0:
        yield []
        return
    for mask in range(1 << (n - 1)):
        out, start = [], 0
        for i in range(1, n):
            if mask >> (i - 1) & 1:
                out.append(b[start:i])
                start = i
        out.append(b[start:])
        yield out


def _streams(rng):
    """(kind, stream, live ids): good frames, frames that do not decode, tails"""
    good, cyc18 = _hdr(), _hdr(nq=1) + b"\xc0\x0c\x00\x01\x00\x01"
    fr = lambda *ps: b"".join(struct.pack("!H", len(p)) + p for p in ps)    # noqa: E731
    ps = []
    for _ in range(rng.randint(1, 4)):
        r = rng.random()
        if r < 0.6:
            ps.append(_valid(rng))
        elif r < 0.7:
            ps.append(cyc18)
        elif r < 0.8:
            ps.append(_mutate(rng, _valid(rng))[1])
        elif r < 0.9:
            ps.append(good)
        else:
            ps.append(_valid(rng)[:rng.choice([0, 5, 11])])
    ps = [p for p in ps if len(p) < 65536]
    tail = rng.choice([b"", b"", b"\x00", b"\x00\x20", b"\x00\x20abc", b"\xff\xff" + b"x" * 40])
    ids = [struct.unpack("!H", p[:2])[0] for p in ps if len(p) >= 2]
    live = rng.choice([[], [], ids[:1], ids[-1:], ids + [4242], [4242]])
    return fr(*ps) + tail, list(dict.fromkeys(live))


# ---- classes added by the white-box mutation audit (harness/mutants/C33) --------------------------------------
ADDRS = [["192.0.2.1", 53], ["2001:db8::1", 53, 0, 0], ["fe80::1%eth0", 5353, 0, 2], ["", 0]]


def _one_rr_message(rng, t):
    """a valid encoding holding a question and records of TYPE t (41 = OPT with options, other unknown numbers =
    UnknownRecord), names compressed against each other"""
    pool = []
    m = {"hdr": G._hdr(rng, 0), "q": [[D.hx(G._name(rng, pool, 0)), t if t < 65536 else 255, 1]], "an": [], "ns": [], "ad": []}
    for sec in rng.choice([["an"], ["an", "ad"], ["ns"]]):
        own = D.hx(G._name(rng, pool, 0))
        if t in D.KINDS:
            r = {"n": own, "t": t, "c": 1, "ttl": 300, "pk": "k", "v": G._vals(rng, t, pool)}
        else:
            opts = b"".join(struct.pack("!HH", rng.randrange(20), len(o)) + o for o in
                            [bytes(rng.randrange(256) for _ in range(rng.choice([0, 1, 4, 8]))) for _ in range(rng.randint(0, 3))])
            r = {"n": own if t != 41 else "-", "t": t, "c": 1 if t != 41 else 4096, "ttl": 0, "pk": "u",
                 "v": ["b" + D.hx(opts if t == 41 else bytes(rng.randrange(256) for _ in range(rng.choice([0, 1, 7]))))]}
        m[sec].append(r)
    try:
        return D.build_message(m).toStr()
    except Exception:
        return None


def _allcuts(rng, types):
    """EVERY prefix of a valid encoding, for each record type: the input ends inside every field of every Record_*.decode"""
    for t in types:
        data = None
        for _ in range(10):
            data = _one_rr_message(rng, t)
            if data is not None and len(data) <= 160:
                break
        if data is None:
            continue
        for i in range(len(data) + 1):
            yield {"op": "edec" if t == 41 else "dec", "mut": f"allcuts{t}", "data": data[:i].hex()}


def _chain(n, end, step="ptr", where="q"):
    """a name that runs through n compression pointers before it ends: in the root label ('root'), in a pointer back into
    the chain ('loop'), in a pointer past the end of the message ('eof') or in a cut pointer ('cut').  step 'ptr': the
    pointers follow each other; 'label': a one-byte label between two pointers.  The chain lies after the name that enters it."""
    unit = 2 if step == "ptr" else 4
    n = min(n, (0x3FF0 - 40) // unit)
    if where == "q":
        head = _hdr(nq=1) + b"\xc0\x12\x00\x01\x00\x01"                   # question name = pointer to offset 18
    else:                                                               # the RDATA of an NS record
        head = _hdr(nan=1) + b"\x00\x00\x02\x00\x01\x00\x00\x00\x05\x00\x02\xc0\x19"      # RDATA at 23 = pointer to 25
    base = len(head)
    body = b"".join((b"\x01a" if step == "label" else b"") + struct.pack("!H", 0xC000 | (base + unit * (i + 1))) for i in range(n))
    tail = {"root": b"\x00", "loop": struct.pack("!H", 0xC000 | (base + unit * (n // 2))), "eof": b"\xff\xff",
            "cut": b"\xc0"}[end]
    return head + bytes(body) + tail


def _chains(rng, tier):
    ns = [0, 1, 2, 60, 400, 900, 980, 990, 1000, 1010, 1100, 1500, 2500, 8000]
    for n in ns if tier != "quick" else rng.sample(ns[:5], 2) + ns[5:]:
        for end in (["root", "loop", "eof", "cut"] if tier != "quick" else ["root", rng.choice(["loop", "eof", "cut"])]):
            step = rng.choice(["ptr", "ptr", "label"])
            where = rng.choice(["q", "q", "rd"])
            op = rng.choice(["dec", "dec", "edec", "tcp", "udp"])
            yield {"op": op, "mut": f"chain-{end}", "data": _chain(n, end, step, where).hex()}


def _interleaved(total, l=63):
    """the most label bytes a name can collect from `total` bytes of message: an area of bytes all equal to l is (l+1)/2
    disjoint chains of l-byte labels (one per even residue); the tail sends each chain to the start of the next one."""
    S, w = 12, l + 1
    N = max(1, (total - S - w) // w)
    tail = b"".join(struct.pack("!H", 0xC000 | (S + r + 2)) for r in range(0, w - 2, 2)) + b"\x00\x00"
    return _hdr(nq=1) + bytes([l]) * (w * N) + tail + b"\x00\x01\x00\x01"


def _manyframes(rng, tier):
    good, cyc18 = _hdr(), _hdr(nq=1) + b"\xc0\x0c\x00\x01\x00\x01"
    one = struct.pack("!H", 12) + good
    ks = [40, 300, 900, 980, 1000, 1100, 1600] + ([3000, 4600] if tier != "quick" else [])
    for k in ks:
        for variant in ("whole", "split", "bad-last"):
            st = one * k + (struct.pack("!H", 18) + cyc18 + one if variant == "bad-last" else b"")
            if variant == "split":
                cuts = sorted(rng.randrange(len(st) + 1) for _ in range(2))
                chunks = [st[:cuts[0]], st[cuts[0]:cuts[1]], st[cuts[1]:]]
            else:
                chunks = [st]
            yield _seg(chunks, "manyframes", live=rng.choice([[], [1]]))


_RD_FILL = [b"\x00", b"\x01", b"\xc0\x0c", b"\xff", b"\x03abc"]
_RD_TYPES = sorted(D.KINDS) + [41, 0, 300, 65535]
_RD_NAMEY = [0x00, 0x01, 0x3F, 0x40, 0x7F, 0x80, 0xBF, 0xC0, 0xFF]                    # label length / pointer octets
_RD_FIRST = {38: [0, 1, 7, 8, 9, 64, 120, 121, 127, 128, 129, 135, 136, 137, 200, 255],                 # A6 prefix length
             16: [0, 1, 2, 3, 4, 16, 17, 39, 40, 41, 255], 99: [0, 1, 2, 3, 4, 16, 17, 39, 40, 41, 255],    # string lengths
             13: [0, 1, 2, 3, 4, 16, 17, 39, 40, 41, 255], 41: [0, 1, 0xFF], 44: [0, 1, 2, 0xFF], 11: [0, 1, 0xFF],
             1: [0, 0xFF], 28: [0, 0xFF], 10: [0, 0xFF], 0: [0, 0xFF], 300: [0, 0xFF], 65535: [0, 0xFF]}


def _rdgrid(rng, per=2):
    """for every TYPE and every boundary value of the first RDATA octet of that type (a prefix length, a string length, a
    label length or pointer, ...): that octet + k filler octets under an RDLENGTH that is right, off by one, tiny or huge"""
    for t in _RD_TYPES:
        for b0 in _RD_FIRST.get(t, _RD_NAMEY):
            for _ in range(per):
                k = rng.choice([0, 1, 2, 3, 4, 5, 9, 16, 17, 18, 24, 40])
                rd = bytes([b0]) + (rng.choice(_RD_FILL) * k)[:k]
                ln = rng.choice([len(rd)] * 4 + [0, 1, 2, 4, 5, len(rd) + 1, max(0, len(rd) - 1), 0xFFFF])
                own = rng.choice([b"\x00", b"\xc0\x0c", b"\x01a\x00"])
                sec = rng.choice(["nan", "nns", "nad"])
                trail = rng.choice([b"", b"", b"\x00" * 20, b"\x00", b"\x01" * 17])
                data = (_hdr(**{sec: rng.choice([1, 1, 2])}) + own
                        + struct.pack("!HHIH", t, rng.choice([1, 1, 4096, 255]), rng.choice([0, 0x8000, 2**32 - 1]), ln) + rd + trail)
                op = "edec" if t == 41 else rng.choice(["dec", "dec", "edec", "edec", "udp", "tcp"])
                yield {"op": op, "mut": f"rdgrid{t}", "data": data.hex()}


def _rdexact(rng, per=1):
    """for every record type: a valid RDATA (the real encoder's, uncompressed) under its exact RDLENGTH and under RDLENGTHs that
    are off by one or two, zero, one, a random smaller value and 65535 - with and without octets after the record"""
    from io import BytesIO
    for t in sorted(D.KINDS):
        for _ in range(per):
            rd = None
            for _try in range(10):
                try:
                    bio = BytesIO()
                    D.build_payload({"t": t, "ttl": 0, "pk": "k", "v": G._vals(rng, t, [])}).encode(bio, None)
                    rd = bio.getvalue()
                    break
                except Exception:
                    continue
            if rd is None or len(rd) > 300:
                continue
            n = len(rd)
            for ln in sorted({n, max(0, n - 1), n + 1, max(0, n - 2), n + 2, 0, 1, rng.randrange(n + 1), 0xFFFF}):
                trail = rng.choice([b"", b"", b"\x00" * 12, b"\x05hello", b"\xc0\x0c\x00\x01\x00\x01"])
                sec = rng.choice(["nan", "nns", "nad"])
                data = _hdr(**{sec: rng.choice([1, 1, 2])}) + b"\x00" + struct.pack("!HHIH", t, 1, 60, ln) + rd + trail
                yield {"op": rng.choice(["dec", "dec", "edec", "udp", "tcp"]), "mut": f"rdexact{t}", "data": data.hex()}


def generate(rng, tier):
    n = 2500 if tier == "quick" else 80000
    for i in range(n):
        r = rng.random()
        if r < 0.86:
            kind, data = _mutate(rng, _valid(rng))
            if rng.random() < 0.3:                      # a second mutation on top
                k2, data = _mutate(rng, data) if len(data) > 14 else ("", data)
                kind += "+" + k2
        elif r < 0.93:
            kind, data = "random", bytes(rng.randrange(256) for _ in range(rng.choice([0, 1, 5, 12, 13, 20, 40, 100])))
        else:
            kind, data = "valid", _valid(rng)
        op = rng.choice(["dec", "dec", "dec", "dec", "edec", "edec", "udp", "tcp"])
        c = {"op": op, "mut": kind, "data": data.hex()}
        if op == "udp":
            c["addr"] = rng.choice(ADDRS)
        yield c
    # --- classes added by the mutation audit: every prefix of a valid encoding of each record type; boundary RDATA under
    # right/wrong RDLENGTHs for each type; names through hundreds/thousands of pointers; names made of interleaved label chains
    types = _RD_TYPES if tier != "quick" else sorted(D.KINDS) + [41, 300]
    for rep in range(1 if tier == "quick" else 6):
        yield from _allcuts(rng, types)
    for c in list(_rdgrid(rng, 2 if tier == "quick" else 30)) + list(_rdexact(rng, 1 if tier == "quick" else 20)):
        if c["op"] == "udp":
            c["addr"] = rng.choice(ADDRS)
        yield c
    yield from _chains(rng, tier)
    # the largest input is 32768 bytes: the linear decoder needs ~0.1 s of CPU for it (a 10x margin to the limit on a busy
    # machine), one that copies the name per label needs minutes; a 65535-byte frame (0.2 s) was measured by hand
    for total, l in [(700, 63), (2000, 63), (2000, 191), (1500, 3), (16384, 63), (32768, 63)] + ([(24000, 191), (32768, 191)] if tier != "quick" else []):
        for op in ("dec", "tcp") if total > 2000 else ("dec", "edec", "udp", "tcp"):
            yield {"op": op, "mut": f"interleaved{total}", "data": _interleaved(total, l).hex()}
    yield from _manyframes(rng, tier)
    for i in range(n // 50):
        data = _valid(rng)
        frame = struct.pack("!H", len(data)) + data
        cuts = sorted(rng.randrange(len(frame) + 1) for _ in range(rng.randint(0, 3)))
        chunks = [frame[a:b] for a, b in zip([0] + cuts, cuts + [len(frame)])]
        if rng.random() < 0.5:
            chunks = [c for c in chunks if c]
        yield {"op": "tcpseg", "mut": "segments", "chunks": [c.hex() for c in chunks]}
    # every segmentation of short streams
    good = _hdr()
    short = [b"\x00", b"\x00\x00", b"\x00\x00\x00", b"\x00\x00\x00\x00", b"\x00\x01\x07", b"\x00\x01\x07\x00\x00", b"\x00\x03abc\x00\x02",
             b"\x00\x02\xc0\x00\x00\x01\x00", b"\x00\x05\x00\x01\x00"]
    for st in short:
        for ch in _compositions(st):
            yield _seg(ch, "allseg-short")
    full = struct.pack("!H", 12) + good
    comps = list(_compositions(full))                       # 8192 segmentations of one 14-byte frame
    for ch in (comps if tier != "quick" else rng.sample(comps, 400)):
        yield _seg(ch, "allseg-frame", live=rng.choice([[], [1]]))
    for i in range(n // 25):
        st, live = _streams(rng)
        r = rng.random()
        if r < 0.25:
            yield _seg([st[j:j + 1] for j in range(len(st))], "bytewise", live)
        elif r < 0.5 and len(st) < 400:
            i1 = rng.randrange(len(st) + 1)                  # every second cut point for a random first one
            for i2 in range(i1, len(st) + 1, max(1, len(st) // 40)):
                yield _seg([st[:i1], st[i1:i2], st[i2:]], "twocuts", live)
        else:
            cuts = sorted(rng.randrange(len(st) + 1) for _ in range(rng.randint(0, 8)))
            yield _seg([st[a:b] for a, b in zip([0] + cuts, cuts + [len(st)])], "random", live)
    for i in range(n // 25):
        kind, data = rng.choice([("valid", None), ("mut", None), ("random", None)])
        data = _valid(rng) if kind == "valid" else _mutate(rng, _valid(rng))[1] if kind == "mut" else \
            bytes(rng.randrange(256) for _ in range(rng.choice([0, 1, 11, 12, 13, 30])))
        mid = struct.unpack("!H", data[:2])[0] if len(data) >= 2 else 0
        live = rng.choice([[], [mid], [mid + 1], [mid, 9]])
        resends = rng.choice([[], [mid], [mid + 1]])
        yield {"op": "udpin", "mut": kind, "data": data.hex(), "live": live, "resends": resends, "addr": rng.choice(ADDRS)}


def model_line(c):
    ids = lambda l: ",".join(map(str, l)) or "-"      # noqa: E731
    if c["op"] == "tcpseg":
        return f"tcp {ids(c.get('live', []))} " + (";".join(ch or "-" for ch in c["chunks"]) or ".")
    if c["op"] == "udpin":
        return f"udp {ids(c['live'])} {ids(c['resends'])} " + (c["data"] or "-")
    if len(c["data"]) > 2 * MODEL_MAX:
        return None                                   # oracle-only: the Lean lists are too slow for names of megabytes
    op = "edec" if c["op"] == "edec" else "dec"
    return f"{op} " + (c["data"] or "-")


class _Controller:
    def __init__(self):
        self.got = []
        self.events = []

    def messageReceived(self, m, proto, addr=None):
        self.got.append(m)
        self.events.append("ctl " + D.show_message(m))

    def connectionMade(self, p):
        pass

    def connectionLost(self, p):
        pass


class _Canceller:
    def cancel(self):
        pass


def _set_live(p, ctl, ids):
    """pending queries: liveMessages[id] = (Deferred, timeout call), as DNSMixin._query leaves them"""
    from twisted.internet import defer
    for i in ids:
        d = defer.Deferred()
        d.addCallback(lambda m: ctl.events.append("qry " + D.show_message(m)))
        p.liveMessages[i] = (d, _Canceller())


def _observe_log(f, messages=False):
    """run f() collecting what it reports through the legacy log (log.err = 'unexpected')"""
    from twisted.python import log
    seen = []

    def obs(ev):
        if messages:
            if ev.get("isError"):
                fl = ev.get("failure")
                seen.append(("err", fl.type.__name__ if fl is not None else "error"))
            else:
                seen.append(("msg", log.textFromEventDict(ev) or ""))
            return
        if ev.get("isError"):
            fl = ev.get("failure")
            seen.append(fl.type.__name__ if fl is not None else "error")
    log.addObserver(obs)
    try:
        f()
    finally:
        log.removeObserver(obs)
    return seen


_last_t = [0.0]
_hangs = [0]
HANG_S = 3.0          # CPU seconds of the decoding thread
WALL_CAP_S = 120.0    # whatever the machine is doing: no input is waited for longer than this


def _thread_cpu(th):
    """CPU seconds consumed so far by a running thread (None once it is gone)"""
    try:
        return time.clock_gettime(time.pthread_getcpuclockid(th.ident))
    except Exception:      # noqa: BLE001 - the thread has just finished
        return None


def run_impl(c):
    """the decode runs under a watchdog: a decoder that loops must not take the check down with it"""
    import threading
    if _hangs[0] >= 3:
        return "!hang (skipped: three inputs already hung)"
    box = []

    cpu = [0.0]

    def work():
        c0 = time.thread_time()
        try:
            box.append(_run(c, c["op"]))
        except BaseException as e:      # noqa: BLE001 - the class is the observable
            box.append(f"!raised {type(e).__name__}")
        cpu[0] = time.thread_time() - c0
    t0 = time.time()
    th = threading.Thread(target=work, daemon=True)
    th.start()
    th.join(HANG_S)
    # The time limit is on the CPU time of the decoding thread (decoding does no I/O and never waits), so that a busy
    # machine cannot turn a millisecond decode into a "hang": past HANG_S of wall time the thread's CPU clock is polled.
    while th.is_alive():
        used = _thread_cpu(th)
        if (used is not None and used > HANG_S) or time.time() - t0 > WALL_CAP_S:
            _last_t[0] = used or 0.0
            _hangs[0] += 1
            return "!hang"
        th.join(0.2)
    _last_t[0] = cpu[0]
    return box[0]


def _addr(c):
    """the peer address handed to datagramReceived: (host, port) for IPv4, (host, port, flowinfo, scopeid) for IPv6"""
    return tuple(c.get("addr") or ("192.0.2.1", 53))


def _run(c, op):
    if op == "tcpseg":
        ctl = _Controller()
        p = dns.DNSProtocol(ctl)
        p.makeConnection(StringTransport())
        _set_live(p, ctl, c.get("live", []))
        raised = []
        try:
            for ch in c["chunks"]:
                p.dataReceived(bytes.fromhex(ch))
        except BaseException as e:
            raised = [f"!raised {type(e).__name__}"]
        ids = ",".join(str(k) for k in p.liveMessages) or "-"
        state = f"state {'-' if p.length is None else p.length} {D.hx(p.buffer)} {ids}"
        return " | ".join(ctl.events + raised + [state])
    if op == "udpin":
        ctl = _Controller()
        p = dns.DNSDatagramProtocol(ctl)
        p.startProtocol()
        _set_live(p, ctl, c["live"])
        for i in c["resends"]:
            p.resends[i] = 1
        data = bytes.fromhex(c["data"])
        logged = _observe_log(lambda: p.datagramReceived(data, _addr(c)), messages=True)
        if ctl.events:
            return ctl.events[0]
        for kind, txt in logged:
            if kind == "err":
                return "unexpected " + txt
            if txt.startswith("Truncated packet"):
                return "truncated"
            if txt.startswith("Invalid packet"):
                return "invalid"
        return "resend"
    data = bytes.fromhex(c["data"])
    if op == "dec":
        m = dns.Message()
        try:
            m.fromStr(data)
        except BaseException as e:
            return f"!raised {type(e).__name__}"
        return D.show_message(m)
    if op == "edec":
        m = dns._EDNSMessage()
        try:
            m.fromStr(data)
        except BaseException as e:
            return f"!raised {type(e).__name__}"
        return D.show_edns(m)
    ctl = _Controller()
    if op == "udp":
        p = dns.DNSDatagramProtocol(ctl)
        p.startProtocol()
        unexpected = _observe_log(lambda: p.datagramReceived(data, _addr(c)))
        if unexpected:
            return "!raised " + unexpected[0]          # "Unexpected decoding error": the class that was caught
        if ctl.got:
            return D.show_message(ctl.got[0])
        # dropped: reproduce the class the protocol caught, for the comparison with the model
        m = dns.Message()
        try:
            m.fromStr(data)
        except (EOFError, ValueError) as e:
            return f"!raised {type(e).__name__}"
        return "dropped-without-error"
    if op == "tcp":
        p = dns.DNSProtocol(ctl)
        p.makeConnection(StringTransport())
        try:
            p.dataReceived(struct.pack("!H", len(data)) + data)
        except BaseException as e:
            return f"!raised {type(e).__name__}"
        return D.show_message(ctl.got[0]) if ctl.got else "nothing-delivered"
    return "bad-op"


def _is_trace(out):
    """a tcpseg observable (as opposed to the watchdog's '!hang' / an exception escaping the harness itself)"""
    return out.split(" | ")[-1].startswith("state ")


def _tcp_reference(c):
    """what the property asks of a TCP connection, computed without DNSProtocol: cut the whole stream at the 2-byte length
    prefixes, Message.fromStr on each frame in turn up to the first that raises; then the expected trace"""
    stream = b"".join(bytes.fromhex(ch) for ch in c["chunks"])
    live = list(c.get("live", []))
    ev, pos = [], 0
    while len(stream) - pos >= 2:
        ln = int.from_bytes(stream[pos:pos + 2], "big")
        if len(stream) - pos - 2 < ln:
            break
        m = dns.Message()
        try:
            m.fromStr(stream[pos + 2:pos + 2 + ln])
        except BaseException as e:      # noqa: BLE001
            return ev + [f"!raised {type(e).__name__}", "state"]
        if m.id in live:
            live.remove(m.id)
            ev.append("qry " + D.show_message(m))
        else:
            ev.append("ctl " + D.show_message(m))
        pos += 2 + ln
    tail = stream[pos:]
    st = f"- {D.hx(tail)}" if len(tail) < 2 else f"{int.from_bytes(tail[:2], 'big')} {D.hx(tail[2:])}"
    return ev + [f"state {st} " + (",".join(map(str, live)) or "-")]


def oracle(c, out):
    t, _last_t[0] = _last_t[0], 0.0
    if out == "!hang":
        return {"key": "decode-does-not-terminate",
                "detail": f"{c['op']} still running after {HANG_S}s of CPU time on {len(c.get('data', ''))//2} bytes {str(c.get('data'))[:200]}"}
    if t > 2.0:
        return {"key": "slow-decode", "detail": f"{c['op']} took {t:.1f}s of CPU time on {len(c.get('data', ''))//2} bytes"}
    if c["op"] == "tcpseg" and _is_trace(out):
        parts = out.split(" | ")
        for ev in parts:
            if ev.startswith("!raised ") and ev.split()[1] not in ALLOWED:
                cls = ev.split()[1]
                key = "tcp-short-segment-typeerror" if cls == "TypeError" else f"raises-{cls}"
                return {"key": key, "detail": f"tcpseg raised {cls} on {str(c.get('chunks'))[:200]}"}
        want = _tcp_reference(c)
        got = parts
        if any(ev.startswith("!raised") for ev in parts):
            got, want = parts[:-1], want[:-1]           # after an exception only the hand-overs and the class are compared
        if got != want:
            return {"key": "tcp-framing-differs-from-reference",
                    "detail": f"segments {str(c['chunks'])[:200]}: got {str(got)[:300]} but cutting the stream at the length prefixes gives {str(want)[:300]}"}
        return None
    if c["op"] == "udpin":
        if out.startswith("unexpected"):
            return {"key": f"udp-unexpected-{out.split()[1]}", "detail": f"datagramReceived reached 'Unexpected decoding error' ({out.split()[1]}) on {c['data'][:200]}"}
        m = dns.Message()
        try:
            m.fromStr(bytes.fromhex(c["data"]))
            want = ("qry " if m.id in c["live"] else "resend" if m.id in c["resends"] else "ctl ")
            want += D.show_message(m) if want != "resend" else ""
        except EOFError:
            want = "truncated"
        except ValueError:
            want = "invalid"
        except BaseException as e:      # noqa: BLE001
            return {"key": f"raises-{type(e).__name__}", "detail": f"fromStr raised {type(e).__name__} on {c['data'][:200]}"}
        if out != want:
            return {"key": "lost-message" if out == "resend" else "udp-wrong-handling", "detail": f"datagramReceived: {out[:200]} but expected {want[:200]}"}
        return None
    if out.startswith("!raised "):
        cls = out.split()[1]
        if cls not in ALLOWED:
            key = "tcp-short-segment-typeerror" if c["op"] == "tcpseg" and cls == "TypeError" else f"raises-{cls}"
            return {"key": key, "detail": f"{c['op']} raised {cls} on {str(c.get('data', c.get('chunks')))[:200]}"}
    if out in ("dropped-without-error", "nothing-delivered"):
        return {"key": "lost-message", "detail": f"{c['op']}: decodable packet was not delivered"}
    return None


def shrink(c):
    if c["op"] == "tcpseg":
        ch = c["chunks"]
        for i in range(len(ch)):
            yield dict(c, chunks=ch[:i] + ch[i + 1:])
        for i in range(len(ch) - 1):
            yield dict(c, chunks=ch[:i] + [ch[i] + ch[i + 1]] + ch[i + 2:])
        if c.get("live"):
            yield dict(c, live=[])
        return
    d = c["data"]
    for i in range(0, len(d), 2):
        yield dict(c, data=d[:i] + d[i + 2:])
    for i in range(0, len(d), 2):
        if d[i:i + 2] != "00":
            yield dict(c, data=d[:i] + "00" + d[i + 2:])


def tag(c, out):
    if c["op"] == "tcpseg" and _is_trace(out):
        parts = out.split(" | ")
        r = [e.split()[1] for e in parts if e.startswith("!raised")]
        nq = sum(e.startswith("qry") for e in parts)
        nc = sum(e.startswith("ctl") for e in parts)
        st = parts[-1].split()
        return f"tcpseg:{c.get('mut', '')}:{min(len(c['chunks']), 6)}seg:c{min(nc, 3)}q{min(nq, 2)}:{r[0] if r else 'ok'}:{'len' if st[1] != '-' else 'nolen'}{'+buf' if st[2] != '-' else ''}"
    if c["op"] == "udpin":
        return f"udpin:{c.get('mut', '')}:{out.split()[0]}:{bool(c['live'])}{bool(c['resends'])}"
    cls = out.split()[1] if out.startswith("!raised") else ("delivered" if out.startswith("delivered") else "msg")
    types = ""
    if cls == "msg":
        types = "-".join(sorted({it.split(":")[2] for it in out.split()[5:] if it.startswith("r:")})[:3])
    return f"{c['op']}:{c.get('mut', '')}:{cls}:{types}"
