"""C30 — AMP wire format and argument types: real AmpBox/BinaryBoxProtocol/Argument classes vs the Lean
model (TwistedModel/Amp/Box.lean, Args.lean) + the round-trip / refusal oracle on the real code."""
import datetime
import decimal
import enum
import math
import struct

from twisted.internet.testing import StringTransport
from twisted.protocols import amp
from twisted.python import filepath
from twisted.python._tzhelper import FixedOffsetTimeZone

HEADLINE = "TwistedProps.C30.parse_serialize / stream_roundtrip / arg_roundtrip"
RULE = ("streams of 0..5 boxes (0..6 items; key lengths around 0/1/255/256, value lengths around 0/255/256/65535/65536, "
        "bytes incl. NUL) sent through BinaryBoxProtocol.sendBox and cut at random / every / boundary±1 positions incl. "
        "empty chunks; in ~30% of multi-box streams ONE AmpBox object is filled, sent, changed IN PLACE (clear+update / del+update / "
        "pop+setdefault / popitem+|= / item assignment) and sent again; bulk streams of 3-4 boxes with 64 KiB values arriving in "
        "one or two reads (>128 KiB buffered); the receiver keeps the delivered box objects and they must stay distinct and "
        "unchanged; raw malformed chunk sequences (over-long key prefix, truncation, data after lengthLimitExceeded); "
        "AmpBox.serialize alone; toStringProto/fromStringProto of Integer, String, Unicode, Boolean, Decimal (sign/coefficient/"
        "exponent around the scientific-notation boundaries, ±Infinity, ±NaN/±sNaN with payloads), DateTime (fields at their "
        "limits, leap days, offsets at ±0/±1 min/±23:59:59.999999, sub-minute and out-of-range offsets, naive values), ListOf "
        "(nested) and AmpList (8 schemas: optional arguments, nested AmpList, DateTime/Decimal/ListOf fields, keyword and "
        "dashed names, 255/256-byte names, empty schema) on boundary values AND on mutated/hostile encodings (int() leniency, "
        "overlong/surrogate/truncated UTF-8, broken list framing, lenient/out-of-range/mis-sized DateTime texts, the "
        "Decimal(str) grammar incl. underscores/whitespace/case, AmpList rows with missing/unknown/duplicate keys and over-long "
        "key prefixes) — all through BOTH the real classes and the Lean model; Unicode values include U+FEFF (leading and "
        "inner), non-characters, combining sequences / compatibility forms that are not NFC/NFKC, Unicode white space and line "
        "separators; values are also passed as legal-but-unusual Python objects (`flav`: bool / IntEnum / IntEnum with its own "
        "__str__ / plain int subclass for Integer, tuple / generator / iterator for ListOf and AmpList rows, datetime.timezone "
        "for DateTime); HISTORIES on ONE Argument object (`seq`: decode truncated / hostile / valid bytes, then encode and "
        "round-trip values with that same object; for DateTime also ONE tzinfo object whose utcoffset depends on the datetime, "
        "like a zone with DST) — every step compared with the (pure) Lean model; non-bytes keys/values (str, None, int, 0, bool, "
        "float, list, empty list, list of bytes, tuple, dict, object, str subclass, empty str, Enum; alone or beside bytes "
        "keys) and Float/Path/Command round trips are run on the real code only (oracle); distinct = (op, type, size/boundary "
        "classes, cut style, reuse style, flavour, step kinds, offset / notation class, outcome classes)")
ASSUMES = [
    "sender is a connected, unlocked BinaryBoxProtocol that is not buffering for STARTTLS; no protocol switch",
    "a box is a dict of bytes→bytes; keys or values of any other common Python type (str, None, int, bool, float, list, tuple, "
    "dict, object, str subclass, Enum) must be refused at send time with nothing written — checked by the oracle on the real "
    "code only (the exception class is pinned to TypeError for the str/None/int-key classes); bytearray/memoryview values "
    "(bytes-like, written unchanged) are not judged",
    "an AmpBox object may be changed through any part of the dict interface between two sendBox calls; what is sent is its "
    "content at the time of the call (the Lean model has no box identity: a box is its content)",
    "an Argument object is stateless across calls in the Lean model (toString/fromString are pure functions); the tie runs "
    "histories on ONE real object and compares every step with the model",
    "Integer values are ints incl. subclasses (bool, IntEnum, a user __str__); ListOf / AmpList values are any iterable of "
    "elements (list, tuple, generator, iterator) and decode to a list of equal elements",
    "Integer: |n| < 10**4300 (CPython's int↔str digit limit raises ValueError beyond it on both encode and decode)",
    "Float: float(repr(x)) == x (NaN ↦ NaN) is a HYPOTHESIS of arg_roundtrip (FloatCodec parameter; CPython guarantee), "
    "exercised by the oracle on the real code only",
    "Path: a FilePath is its text-mode .path, a fixed point of os.path.abspath (a parameter of the model, hypothesis "
    "ValidVal); a bytes-mode FilePath decodes as a text-mode one (not comparable with == in Python 3); oracle only",
    "DateTime: a datetime is modelled by its fields + utcoffset() in microseconds (not as an instant; tzinfo name/dst are "
    "not part of the value); the decoded tzinfo is observed through FixedOffsetTimeZone.offset",
    "Decimal: str(Decimal) as specified by Decimal.__str__ with context.capitals == 1 (the default); exponents within "
    "libmpdec's ±999999999999999999 (every existing Decimal is; text with a larger exponent is refused by the real "
    "parser and is outside the model and the generators)",
    "AmpList: schema names are distinct (also after _wireNameToPythonIdentifier) and a row dict has exactly the schema's "
    "keys (a missing optional key is treated like None and comes back as None); ListOf(AmpList(...)) is excluded — "
    "ListOf's docstring restricts element types to toString/fromString arguments and the real code raises TypeError",
    "Command.makeArguments/parseArguments (same _objectsToStrings/_stringsToObjects plumbing) is covered by the oracle only",
    "the code points of a str are < 0x110000 (Python invariant)",
]
TRUSTED = ["CPython struct.pack('!H'), bytes ordering (sorted on distinct bytes keys), int(bytes/str), str.encode/bytes.decode('utf-8'), "
           "decimal.Decimal str/constructor and datetime.datetime/timedelta (tied differentially to the Lean transcription), "
           "repr(float)/float(), os.path.abspath (parameters)"]
MANIFEST = {
    "text": "Lean theorems (TwistedProps/C30.lean): for every list of boxes with distinct keys of 1..255 bytes and values "
            "≤ 65535 bytes and EVERY segmentation of the concatenated AmpBox.serialize output, a fresh BinaryBoxProtocol "
            "receives exactly those boxes (equal as dicts), never calls lengthLimitExceeded and keeps no leftover "
            "(parse_serialize, received_boxes_equal); serialize/sendBox accept exactly the representable boxes — empty key, "
            "over-long key/value, empty box are refused and nothing is written — so for ANY dicts sent and ANY cut the peer "
            "parses exactly the representable ones (stream_roundtrip). Argument types (arg_roundtrip): for Integer, String, "
            "Unicode(UTF-8), Boolean, Decimal (Decimal.__str__ and the Decimal(str) grammar transcribed: every "
            "sign/coefficient/exponent, ±Infinity, ±NaN/±sNaN payloads — decimal_roundtrip), DateTime (32-character text, "
            "int() slices, datetime range checks transcribed; equal up to the UTC offset cut to whole minutes TOWARDS ZERO — "
            "datetime_roundtrip, offsetMinutes_spec, exact for whole-minute offsets), ListOf to any depth and AmpList with any "
            "schema of distinct names (optional arguments, nested AmpLists; rows → toBox → serialize → parseString → fromBox, "
            "reusing parse_serialize), every value toString accepts decodes to an equal value (normVal: identity except the "
            "DateTime offset; normVal_id). Float and Path enter through two platform parameters with hypotheses "
            "float(repr x) = x and abspath p = p for a FilePath's path. Non-bytes refusals (TypeError), Float/Path/Command "
            "are covered by the oracle on the real code. Model tied to amp.py/basic.py/_tzhelper.py by differential runs — "
            "including histories on one Argument / AmpBox / tzinfo object (the model is a pure function of the content, so "
            "the theorems hold for every history; that the real objects carry no state from call to call is what the tie "
            "and the oracle check), values given as int subclasses / one-shot iterables, and >128 KiB reads.",
    "note": "trusts Lean kernel, the hand-written model of AmpBox.serialize / IntNStringReceiver.dataReceived / "
            "BinaryBoxProtocol.proto_* / Argument subclasses incl. Decimal.__str__/Decimal(str) and DateTime text "
            "(differentially tied), CPython struct/int/utf-8/decimal/datetime; repr(float)/float and os.path.abspath are "
            "hypotheses",
    "technique": "Lean 4 proof (incremental-parser continuation lemma + induction over chunks/boxes/items; digit, UTF-8 and "
                 "fixed-width-field arithmetic by omega; mutual structural induction over argument types and AmpList schemas) "
                 "+ differential tie + oracle",
    "design_ref": "DESIGN.md §7.6 C30",
}

# ----------------------------------------------------------------------------------------
# helpers

def hx(b):
    return bytes(b).hex()


def unhx(s):
    return bytes.fromhex(s)


def enc_box(items):
    """items: list of [khex, vhex] (a dict: distinct keys)"""
    if not items:
        return "-"
    return ",".join(f"{k}:{v}" for k, v in items)


def show_box(d):
    if not d:
        return "-"
    return ",".join(f"{hx(k)}:{hx(v)}" for k, v in sorted(d.items()))


def show_boxes(bs):
    return ";".join(show_box(b) for b in bs) if bs else "."


class Recorder:
    def __init__(self):
        self.boxes = []      # snapshot taken at delivery time
        self.refs = []       # the delivered objects themselves (a receiver may keep them: parseString does)
        self.stopped = None

    def startReceivingBoxes(self, sender):
        pass

    def ampBoxReceived(self, box):
        self.boxes.append(dict(box))
        self.refs.append(box)

    def stopReceivingBoxes(self, reason):
        self.stopped = reason


def receiver():
    rec = Recorder()
    p = amp.BinaryBoxProtocol(rec)
    t = StringTransport()
    p.makeConnection(t)
    return rec, p, t


def cut(wire, sizes):
    out = []
    for n in sizes:
        out.append(wire[:n])
        wire = wire[n:]
    out.append(wire)
    return out


def _morph(b, d, how):
    """turn the AmpBox object `b` (already sent once) into content `d` IN PLACE, through a different part of the
    dict interface for each `how` (a user may fill, send, change and re-send one box object)"""
    if how == 1:
        b.clear()
        b.update(d)
    elif how == 2:
        for k in [k for k in b if k not in d]:
            del b[k]
        b.update(d)
    elif how == 3:
        for k in [k for k in b if k not in d or b[k] != d[k]]:
            b.pop(k)
        for k, v in d.items():
            b.setdefault(k, v)
    elif how == 4:
        while b:
            b.popitem()
        b |= d
    else:
        for k in [k for k in b if k not in d]:
            del b[k]
        for k, v in d.items():
            b[k] = v
    assert dict(b) == d
    return b


def send_all(boxes, reuse=None):
    """boxes: list of python dicts → (wire, [status]); reuse[i] > 0: box i is the SAME AmpBox object as box i-1,
    changed in place (style reuse[i]) after box i-1 was handed to sendBox"""
    rec, p, t = receiver()
    status = []
    prev = None
    for i, d in enumerate(boxes):
        before = len(t.value())
        how = reuse[i] if reuse and i < len(reuse) else 0
        try:
            if how and prev is not None and not _has_str_key(d):
                box = _morph(prev, d, how)
            else:
                box = amp.AmpBox(d) if not _has_str_key(d) else _rawbox(d)
            prev = box
            p.sendBox(box)
            status.append("ok")
        except Exception as e:  # the refusal is the observable
            status.append(type(e).__name__)
            if len(t.value()) != before:
                status[-1] += "+partial-write"
    return t.value(), status


def _has_str_key(d):
    return any(not isinstance(k, bytes) for k in d)


def _rawbox(d):
    b = amp.AmpBox()
    for k, v in d.items():
        dict.__setitem__(b, k, v)
    return b


def recv_all(chunks):
    rec, p, t = receiver()
    for c in chunks:
        p.dataReceived(c)
    if [dict(b) for b in rec.refs] != rec.boxes or len({id(b) for b in rec.refs}) != len(rec.refs):
        # a delivered box was changed (or handed out twice) after delivery: receivers that keep boxes would see other
        # boxes than were sent
        raise AssertionError("delivered box object mutated or reused after ampBoxReceived")
    return rec.boxes, t.disconnecting


def box_of(items):
    return {unhx(k): unhx(v) for k, v in items}


# ----------------------------------------------------------------------------------------
# argument values (modelled types)

def parse_ty(s):
    """type syntax of the driver → nested tuple: ('int',) … ('L', t) / ('A', [(namehex, optional, t), …])"""
    t, rest = _parse_ty(s)
    if rest:
        raise ValueError(s)
    return t


def _parse_ty(s):
    for base in ("int", "str", "uni", "bool", "dec", "dt"):
        if s.startswith(base):
            return (base,), s[len(base):]
    if s.startswith("L"):
        t, rest = _parse_ty(s[1:])
        return ("L", t), rest
    if s.startswith("A("):
        s = s[2:]
        fields = []
        while not s.startswith(")"):
            k = min(x for x in (s.find("?"), s.find("!")) if x >= 0)
            t, rest = _parse_ty(s[k + 1:])
            fields.append((s[:k], s[k] == "?", t))
            s = rest[1:] if rest.startswith(",") else rest
        return ("A", fields), s[1:]
    raise ValueError(s)


_TY_CACHE = {}


def pty(ty):
    if ty not in _TY_CACHE:
        _TY_CACHE[ty] = parse_ty(ty)
    return _TY_CACHE[ty]


def mk_arg(ty):
    return _mk_arg(pty(ty) if isinstance(ty, str) else ty)


def _mk_arg(t):
    k = t[0]
    if k == "int":
        return amp.Integer()
    if k == "str":
        return amp.String()
    if k == "uni":
        return amp.Unicode()
    if k == "bool":
        return amp.Boolean()
    if k == "dec":
        return amp.Decimal()
    if k == "dt":
        return amp.DateTime()
    if k == "L":
        return amp.ListOf(_mk_arg(t[1]))
    if k == "A":
        return amp.AmpList([(unhx(name), _opt(_mk_arg(ft), opt)) for name, opt, ft in t[1]])
    raise ValueError(t)


def _opt(a, opt):
    a.optional = opt
    return a


def _pykey(namehex):
    return amp._wireNameToPythonIdentifier(unhx(namehex))


US_DAY = 86400 * 10 ** 6
US_MIN = 60 * 10 ** 6


class _MyInt(int):
    """a plain int subclass (no overridden methods)"""


class _NamedCode(enum.IntEnum):
    """an IntEnum whose members print as their name (a common user-defined __str__; the default before Python 3.11)"""

    def __str__(self):
        return self.name

    __format__ = enum.Enum.__format__


_ENUMS = {}


def _int_flavoured(n, how):
    """the same integer as a legal-but-unusual object: bool for 0/1, an IntEnum member, a plain int subclass"""
    if how == "sub":
        if n in (0, 1):
            return bool(n)
        if -10 ** 12 < n < 10 ** 12:
            if n not in _ENUMS:
                if len(_ENUMS) > 2000:
                    _ENUMS.clear()
                # every other one with the usual user-defined `__str__` (the member's name): still an int
                _ENUMS[n] = (enum.IntEnum("Code", {"MEMBER": n}) if n % 2 else _NamedCode("Code", {"MEMBER": n})).MEMBER
            return _ENUMS[n]
        return _MyInt(n)
    return n


def _seq_flavoured(xs, how):
    """the same sequence as a tuple / generator / iterator (one-shot iterables)"""
    if how == "tuple":
        return tuple(xs)
    if how == "gen":
        return (x for x in xs)
    if how == "iter":
        return iter(xs)
    return xs


class ScriptTZ(datetime.tzinfo):
    """ONE tzinfo object whose utcoffset depends on the datetime asked about (like a zone with DST): the offsets are
    looked up by the datetime's own fields"""

    def __init__(self):
        self.table = {}

    @staticmethod
    def key(dt):
        return (dt.year, dt.month, dt.day, dt.hour, dt.minute, dt.second, dt.microsecond)

    def utcoffset(self, dt):
        return datetime.timedelta(microseconds=self.table[self.key(dt)])

    def dst(self, dt):
        return datetime.timedelta(0)

    def tzname(self, dt):
        return "script"


def to_py(ty, v, ctx=None):
    return _to_py(pty(ty) if isinstance(ty, str) else ty, v, ctx or {})


def _to_py(t, v, ctx=None):
    ctx = ctx or {}
    k = t[0]
    if k == "int":
        return _int_flavoured(int(v), ctx.get("int"))
    if k == "str":
        return unhx(v)
    if k == "uni":
        return "".join(chr(c) for c in v)
    if k == "bool":
        return bool(v)
    if k == "dec":
        if v[0] == "F":
            return decimal.Decimal((int(v[1]), tuple(int(c) for c in str(int(v[2]))), int(v[3])))
        if v[0] == "I":
            return decimal.Decimal((int(v[1]), (0,), "F"))
        p = int(v[3])
        return decimal.Decimal((int(v[1]), tuple(int(c) for c in str(p)) if p else (), "N" if v[2] else "n"))
    if k == "dt":
        y, mo, d, h, mi, s, us, off = v
        tz = None if off is None else FixedOffsetTimeZone(datetime.timedelta(microseconds=off))
        shared = ctx.get("tz")
        if shared is not None and off is not None and shared.table.setdefault((y, mo, d, h, mi, s, us), off) == off:
            tz = shared
        elif off is not None and ctx.get("tzkind") == "stdlib" and -US_DAY < off < US_DAY:
            tz = datetime.timezone(datetime.timedelta(microseconds=off))
        return datetime.datetime(y, mo, d, h, mi, s, us, tzinfo=tz)
    if k == "L":
        return _seq_flavoured([_to_py(t[1], x, ctx) for x in v], ctx.get("it"))
    if k == "A":
        return _seq_flavoured([{_pykey(name): (None if x is None else _to_py(ft, x, ctx)) for (name, opt, ft), x in zip(t[1], row)}
                               for row in v], ctx.get("it"))
    raise ValueError(t)


def val_tokens(ty, v):
    """JSON case value → driver tokens"""
    return _val_tokens(pty(ty) if isinstance(ty, str) else ty, v)


def _val_tokens(t, v):
    k = t[0]
    if k == "int":
        return ["i" + str(int(v))]
    if k == "str":
        return ["s" + v]
    if k == "uni":
        return ["u" + ",".join(str(c) for c in v)]
    if k == "bool":
        return ["b1" if v else "b0"]
    if k == "dec":
        if v[0] == "F":
            return [f"dF{int(v[1])},{int(v[2])},{int(v[3])}"]
        if v[0] == "I":
            return [f"dI{int(v[1])}"]
        return [f"dN{int(v[1])},{int(v[2])},{int(v[3])}"]
    if k == "dt":
        return ["t" + ",".join(str(x) for x in v[:7]) + "," + ("n" if v[7] is None else str(v[7]))]
    out = ["["]
    if k == "L":
        for x in v:
            out += _val_tokens(t[1], x)
    else:
        for row in v:
            out.append("{")
            for (name, opt, ft), x in zip(t[1], row):
                out += ["N"] if x is None else _val_tokens(ft, x)
            out.append("}")
    return out + ["]"]


def _td_us(td):
    return (td.days * 86400 + td.seconds) * 10 ** 6 + td.microseconds


def py_tokens(ty, o):
    """decoded python object → tokens (type-strict: a wrong Python type is visible)"""
    return _py_tokens(pty(ty) if isinstance(ty, str) else ty, o)


def _py_tokens(t, o):
    k = t[0]
    if k == "int":
        if type(o) is not int:
            return ["?" + type(o).__name__]
        return ["i" + str(o)]
    if k == "str":
        if type(o) is not bytes:
            return ["?" + type(o).__name__]
        return ["s" + hx(o)]
    if k == "uni":
        if type(o) is not str:
            return ["?" + type(o).__name__]
        return ["u" + ",".join(str(ord(c)) for c in o)]
    if k == "bool":
        if type(o) is not bool:
            return ["?" + type(o).__name__]
        return ["b1" if o else "b0"]
    if k == "dec":
        if type(o) is not decimal.Decimal:
            return ["?" + type(o).__name__]
        sign, digits, e = o.as_tuple()
        num = int("".join(map(str, digits)) or "0")
        if e == "F":
            return [f"dI{sign}"]
        if e in ("n", "N"):
            return [f"dN{sign},{int(e == 'N')},{num}"]
        return [f"dF{sign},{num},{e}"]
    if k == "dt":
        if type(o) is not datetime.datetime:
            return ["?" + type(o).__name__]
        tz = o.tzinfo
        # the tzinfo's own attribute: utcoffset() refuses what fromString can build (e.g. +99:99)
        off = "n" if tz is None else str(_td_us(tz.offset)) if isinstance(tz, FixedOffsetTimeZone) else "?tz"
        return [f"t{o.year},{o.month},{o.day},{o.hour},{o.minute},{o.second},{o.microsecond},{off}"]
    if type(o) is not list:
        return ["?" + type(o).__name__]
    out = ["["]
    if k == "L":
        for x in o:
            out += _py_tokens(t[1], x)
    else:
        for row in o:
            if type(row) is not dict:
                return ["?" + type(row).__name__]
            out.append("{")
            for name, opt, ft in t[1]:
                x = row.get(_pykey(name), _MISSING)
                out += ["?missing"] if x is _MISSING else ["N"] if x is None else _py_tokens(ft, x)
            if len(row) != len(t[1]):
                out.append("?extra-keys")
            out.append("}")
    return out + ["]"]


def representable(ty, v):
    """is toString expected to succeed? (the statement's own precondition for a value)"""
    return _representable(pty(ty) if isinstance(ty, str) else ty, v)


def _representable(t, v):
    k = t[0]
    if k == "int":
        return len(str(abs(int(v)))) <= 4300
    if k == "uni":
        return all(not (0xD800 <= c < 0xE000) for c in v)
    if k == "dt":
        return v[7] is not None and -US_DAY < v[7] < US_DAY
    if k == "L":
        if not all(_representable(t[1], x) for x in v):
            return False
        return all(_enc_len(t[1], x) <= 65535 for x in v)
    if k == "A":
        for row in v:
            for (name, opt, ft), x in zip(t[1], row):
                if x is None:
                    if not opt:
                        return False
                    continue
                if not 1 <= len(name) // 2 <= 255 or not _representable(ft, x) or _enc_len(ft, x) > 65535:
                    return False
        return True
    return True


def _enc_len(t, v):
    """length of the wire form computed independently of twisted"""
    k = t[0]
    if k == "int":
        return len(str(int(v)))
    if k == "str":
        return len(v) // 2
    if k == "uni":
        return sum(1 if c < 0x80 else 2 if c < 0x800 else 3 if c < 0x10000 else 4 for c in v)
    if k == "bool":
        return 4 if v else 5
    if k == "dt":
        return 32
    if k == "dec":
        return len(str(_to_py(t, v)))
    if k == "L":
        return sum(2 + _enc_len(t[1], x) for x in v)
    return sum(2 + sum(4 + len(name) // 2 + _enc_len(ft, x) for (name, opt, ft), x in zip(t[1], row) if x is not None) for row in v)


def expected_back(ty, v):
    """the value the statement promises after a round trip: equal, DateTime up to the minute resolution of its
    offset (rounded towards zero)"""
    return _expected_back(pty(ty) if isinstance(ty, str) else ty, v)


def _expected_back(t, v):
    k = t[0]
    if k == "dt" and v[7] is not None:
        m = abs(v[7]) // US_MIN * US_MIN
        return v[:7] + [m if v[7] >= 0 else -m]
    if k == "L":
        return [_expected_back(t[1], x) for x in v]
    if k == "A":
        return [[None if x is None else _expected_back(ft, x) for (name, opt, ft), x in zip(t[1], row)] for row in v]
    return v


def ty_class(ty):
    """coarse class of a type string for oracle keys / tags"""
    t = pty(ty)
    while t[0] == "L":
        t = t[1]
    return t[0]


# ----------------------------------------------------------------------------------------
# unmodelled argument types: canonical forms for the oracle

def canon_float(f):
    if type(f) is not float:
        return "?" + type(f).__name__
    if math.isnan(f):
        return "nan"
    return struct.pack(">d", f).hex()


def canon_decimal(d):
    if type(d) is not decimal.Decimal:
        return "?" + type(d).__name__
    s, digits, e = d.as_tuple()
    return f"{s}/{''.join(map(str, digits))}/{e}"


def canon_dt(d, minute="exact"):
    """wall-clock fields @ utc offset in seconds (whole minutes: floor / truncation for the expectation)"""
    off = d.utcoffset()
    secs = off.days * 86400 + off.seconds          # floor of the offset to whole seconds (microseconds >= 0)
    if minute == "floor":
        secs = (secs // 60) * 60
    elif minute == "trunc":
        total_us = secs * 10**6 + off.microseconds
        secs = int(abs(total_us) // (60 * 10**6)) * 60 * (1 if total_us >= 0 else -1)
    elif off.microseconds:
        return "?sub-second-offset"
    return f"{d.year}-{d.month}-{d.day}T{d.hour}:{d.minute}:{d.second}.{d.microsecond}@{secs}"


def mk_dt(v):
    y, mo, d, h, mi, s, us, offs, offus = v
    tz = datetime.timezone(datetime.timedelta(seconds=offs, microseconds=offus))
    return datetime.datetime(y, mo, d, h, mi, s, us, tzinfo=tz)


def mk_other(kind, v):
    """→ (Argument, python value, expected canonical form)"""
    if kind == "float":
        f = struct.unpack(">d", unhx(v))[0]
        return amp.Float(), f, canon_float(f)
    if kind == "Lfloat":
        fs = [struct.unpack(">d", unhx(x))[0] for x in v]
        return amp.ListOf(amp.Float()), fs, "[" + " ".join(canon_float(f) for f in fs) + "]"
    if kind == "decimal":
        d = decimal.Decimal(v)
        return amp.Decimal(), d, canon_decimal(d)
    if kind == "datetime":
        d = mk_dt(v)
        return amp.DateTime(), d, (canon_dt(d, "floor"), canon_dt(d, "trunc"))
    if kind == "path":
        p = filepath.FilePath("".join(chr(c) for c in v))
        return amp.Path(), p, "p" + ",".join(str(ord(c)) for c in p.asTextMode().path)
    raise ValueError(kind)


def canon_other(kind, o):
    if kind == "float":
        return canon_float(o)
    if kind == "Lfloat":
        return "[" + " ".join(canon_float(f) for f in o) + "]"
    if kind == "decimal":
        return canon_decimal(o)
    if kind == "datetime":
        return canon_dt(o)
    if kind == "path":
        if not isinstance(o, filepath.FilePath):
            return "?" + type(o).__name__
        return "p" + ",".join(str(ord(c)) for c in o.asTextMode().path)
    raise ValueError(kind)


AMPLIST_SCHEMA = [(b"n", "int", False), (b"s", "str", False), (b"u", "uni", True), (b"flag", "bool", True), (b"l", "Lint", True)]


def amplist_arg():
    return amp.AmpList([(name, _opt(mk_arg(ty), opt)) for name, ty, opt in AMPLIST_SCHEMA])


def amplist_objs(rows):
    out = []
    for row in rows:
        d = {}
        for name, ty, opt in AMPLIST_SCHEMA:
            key = name.decode()
            if key in row and row[key] is not None:
                d[key] = to_py(ty, row[key])
            elif opt:
                d[key] = None
        out.append(d)
    return out


_MISSING = object()


def canon_rows(objs):
    out = []
    for d in objs:
        parts = []
        for name, ty, opt in AMPLIST_SCHEMA:
            key = name.decode()
            o = d.get(key, _MISSING)
            parts.append(key + "=" + ("MISSING" if o is _MISSING else "None" if o is None else " ".join(py_tokens(ty, o))))
        out.append("{" + " ".join(parts) + "}")
    return "[" + " ".join(out) + "]"


class _Cmd(amp.Command):
    arguments = [(b"n", amp.Integer()), (b"s", amp.String()), (b"u", amp.Unicode(optional=True)),
                 (b"flag", amp.Boolean(optional=True)), (b"l", amp.ListOf(amp.Integer(), optional=True))]


# ----------------------------------------------------------------------------------------
# interface

def corpus():
    return [
        # the known witnesses: empty key == wire terminator; empty box
        {"op": "stream", "boxes": [[["", "78"], ["61", "31"]], [["6b", "76"]]], "sizes": []},
        {"op": "stream", "boxes": [[]], "sizes": []},
        {"op": "stream", "boxes": [[["61", "31"]], [], [["62", ""]]], "sizes": [3]},
        {"op": "serialize", "box": [["", ""]]},
        # boundaries
        {"op": "stream", "boxes": [[["61" * 255, "62" * 65535]], [["00", ""]]], "sizes": [1, 1, 255, 2, 65535]},
        {"op": "stream", "boxes": [[["61" * 256, "62"]], [["61", "62" * 65536]], [["6b", "76"]]], "sizes": []},
        {"op": "stream", "boxes": [[["62", "32"], ["61", "31"], ["6162", ""]]], "sizes": [1] * 24},
        {"op": "feed", "chunks": ["0001", "61", "0100", "00"]},
        {"op": "feed", "chunks": ["000161000162", "0000", "0100", "0000"]},
        {"op": "feed", "chunks": ["0001610001620000" "0100", "0001630001640000"]},
        {"op": "feed", "chunks": ["000161ffff" + "00" * 10, ""]},
        {"op": "feed", "chunks": ["0001610001310001610001320000"]},
        {"op": "refuse", "bad": "strkey", "box": [["61", "31"]]},
        {"op": "refuse", "bad": "strval", "box": [["61", "31"]]},
        {"op": "refuse", "bad": "noneval", "box": []},
        {"op": "enc", "ty": "int", "val": "-0"},
        {"op": "enc", "ty": "int", "val": str(-(10 ** 40))},
        {"op": "enc", "ty": "uni", "val": [0x7F, 0x80, 0x7FF, 0x800, 0xD7FF, 0xE000, 0xFFFF, 0x10000, 0x10FFFF, 0]},
        {"op": "enc", "ty": "uni", "val": [0x61, 0xD800]},
        {"op": "enc", "ty": "LLint", "val": [["1", "-2"], [], ["300"]]},
        {"op": "enc", "ty": "Lstr", "val": ["61" * 65535, ""]},
        {"op": "enc", "ty": "Lstr", "val": ["61" * 65536]},
        {"op": "dec", "ty": "int", "hex": hx(b" +1_000\n")},
        {"op": "dec", "ty": "int", "hex": hx(b"1__0")},
        {"op": "dec", "ty": "int", "hex": hx(b"- 1")},
        {"op": "dec", "ty": "uni", "hex": "c080"},
        {"op": "dec", "ty": "uni", "hex": "eda080"},
        {"op": "dec", "ty": "uni", "hex": "f4908080"},
        {"op": "dec", "ty": "uni", "hex": "f48fbfbf"},
        {"op": "dec", "ty": "bool", "hex": hx(b"true")},
        {"op": "dec", "ty": "Lint", "hex": "000131000232"},
        # DateTime / Decimal / AmpList through the Lean model
        {"op": "enc", "ty": "dt", "val": [2012, 1, 23, 12, 34, 56, 54321, -(3600 + 30) * 10 ** 6]},
        {"op": "enc", "ty": "dt", "val": [2, 12, 25, 23, 27, 53, 1, -86399 * 10 ** 6 + 1]},       # the repaired rounding: -23:59, not -24:00
        {"op": "enc", "ty": "dt", "val": [9999, 12, 31, 23, 59, 59, 999999, US_DAY - 1]},
        {"op": "enc", "ty": "dt", "val": [1, 1, 1, 0, 0, 0, 0, 0]},
        {"op": "enc", "ty": "dt", "val": [2024, 2, 29, 0, 0, 0, 0, -30 * 10 ** 6]},
        {"op": "enc", "ty": "dt", "val": [2012, 6, 1, 0, 0, 0, 0, None]},
        {"op": "enc", "ty": "dt", "val": [2012, 6, 1, 0, 0, 0, 0, US_DAY]},
        {"op": "enc", "ty": "dt", "val": [2012, 6, 1, 0, 0, 0, 0, -US_DAY]},
        {"op": "dec", "ty": "dt", "hex": hx(b"2012-01-23T12:34:56.054321+99:99")},
        {"op": "dec", "ty": "dt", "hex": hx(b"2012x01y23z12a34b56c054321+01d23")},
        {"op": "dec", "ty": "dt", "hex": hx(b" 012-01-23T12:34:56.054321-01:23")},
        {"op": "dec", "ty": "dt", "hex": hx(b"20_2-01-23T12:34:56.054321--1:23")},
        {"op": "dec", "ty": "dt", "hex": hx(b"+001-01-23T12:34:50.054321-01:+3")},
        {"op": "dec", "ty": "dt", "hex": hx(b"2012-01-23T12:34:56.054321 01:23")},
        {"op": "dec", "ty": "dt", "hex": hx(b"2023-02-29T12:34:56.054321+01:23")},
        {"op": "dec", "ty": "dt", "hex": hx(b"2024-02-29T12:34:56.054321+01:23")},
        {"op": "dec", "ty": "dt", "hex": hx(b"1900-02-29T12:34:56.054321+01:23")},
        {"op": "dec", "ty": "dt", "hex": hx(b"0000-01-23T12:34:56.054321-01:23")},
        {"op": "dec", "ty": "dt", "hex": hx(b"2012-01-23T12:34:56.054321-01:2\xff")},
        {"op": "dec", "ty": "dt", "hex": hx(b"2012-01-23T12:34:56.054321-01:230")},
        {"op": "enc", "ty": "dec", "val": ["F", 1, "1234", -2]},
        {"op": "enc", "ty": "dec", "val": ["F", 0, "15", 1]},
        {"op": "enc", "ty": "dec", "val": ["F", 0, "0", -7]},
        {"op": "enc", "ty": "dec", "val": ["F", 0, "1", -6]},
        {"op": "enc", "ty": "dec", "val": ["F", 0, "1", -7]},
        {"op": "enc", "ty": "dec", "val": ["F", 1, "0", 3]},
        {"op": "enc", "ty": "dec", "val": ["F", 0, "123456", -12]},
        {"op": "enc", "ty": "dec", "val": ["N", 1, 1, "123"]},
        {"op": "enc", "ty": "dec", "val": ["N", 0, 0, "0"]},
        {"op": "enc", "ty": "dec", "val": ["I", 1]},
    ] + [{"op": "dec", "ty": "dec", "hex": hx(t)} for t in DEC_TEXTS] + [
        {"op": "enc", "ty": SCHEMAS[0], "val": [["1", "6162", None, True, ["1", "-2"]], ["5", "", [0x41], None, None]]},
        {"op": "enc", "ty": SCHEMAS[1], "val": [[None, ["F", 0, "15", 1], [[2012, 1, 23, 12, 34, 56, 54321, 3630 * 10 ** 6]]]]},
        {"op": "enc", "ty": SCHEMAS[2], "val": [[[[None, [0xE9]], ["7", []]], None]]},
        {"op": "enc", "ty": SCHEMAS[3], "val": [[], []]},
        {"op": "enc", "ty": SCHEMAS[5], "val": [["61", "3"]]},
        {"op": "enc", "ty": SCHEMAS[6], "val": [["3", True]]},
        {"op": "enc", "ty": SCHEMAS[0], "val": [["1", "61" * 65536, None, None, None]]},
        {"op": "dec", "ty": SCHEMAS[0], "hex": hx(b"\x00\x01n\x00\x011\x00\x00")},                       # required key `s` missing: KeyError
        {"op": "dec", "ty": SCHEMAS[4], "hex": hx(b"\x00\x00\x00\x05extra\x00\x01x\x00\x00")},          # empty row, unknown key
        {"op": "dec", "ty": SCHEMAS[4], "hex": hx(b"\x01\x00")},                                            # parseString: AttributeError
        {"op": "dec", "ty": SCHEMAS[4], "hex": hx(b"\x00\x04only\x00\x011\x00\x04only\x00\x012\x00\x00\x00\x04on")},  # duplicate key, truncated tail
        {"op": "arg", "kind": "float", "val": struct.pack(">d", -0.0).hex()},
        {"op": "arg", "kind": "float", "val": "7ff8000000000000"},
        {"op": "arg", "kind": "decimal", "val": "-sNaN123"},
        {"op": "arg", "kind": "datetime", "val": [2012, 1, 23, 12, 34, 56, 54321, -(3600 + 30), 0]},
        {"op": "arg", "kind": "amplist", "val": [{"n": "1", "s": "", "u": None, "flag": None, "l": None}]},
        # found by this check: offset -23:59:59(.000001) was floored to -24:00, which fromString cannot decode
        {"op": "arg", "kind": "datetime", "val": [2, 12, 25, 23, 27, 53, 1, -86399, 1]},
        {"op": "arg", "kind": "datetime", "val": [2012, 6, 1, 0, 0, 0, 0, -86399, 0]},
        {"op": "arg", "kind": "datetime", "val": [2012, 6, 1, 0, 0, 0, 0, -30, 0]},
        {"op": "arg", "kind": "datetime", "val": [2012, 6, 1, 0, 0, 0, 0, 86399, 999999]},
        # classes added by the white-box mutation audit (harness/mutants/C30)
        {"op": "enc", "ty": "uni", "val": [0xFEFF, 0x61, 0x62, 0x63]},                 # a leading U+FEFF is a character, not a BOM
        {"op": "enc", "ty": "uni", "val": [0x65, 0x301, 0x212B, 0x1100, 0x1161]},       # not NFC: must come back unnormalised
        {"op": "dec", "ty": "uni", "hex": "efbbbf61"},
        {"op": "enc", "ty": "Luni", "val": [[0xFEFF], [0x41, 0x30A]]},
        {"op": "enc", "ty": "int", "val": "1", "flav": {"int": "sub"}},                  # True
        {"op": "enc", "ty": "Lint", "val": ["0", "1", "-7", str(10 ** 30)], "flav": {"int": "sub", "it": "gen"}},
        {"op": "enc", "ty": "LLint", "val": [["1", "2"], [], ["3"]], "flav": {"it": "iter"}},
        {"op": "enc", "ty": SCHEMAS[0], "val": [["1", "61", None, False, ["0"]], ["0", "", [], None, []]], "flav": {"int": "sub", "it": "tuple"}},
        {"op": "seq", "ty": "Lint", "steps": [["dec", "000131000561"], ["rt", ["7", "8"]], ["dec", "00"], ["rt", []], ["rt", ["9"]]]},
        {"op": "seq", "ty": "dt", "sharedtz": True, "steps": [["rt", [2020, 1, 1, 12, 0, 0, 0, 60 * US_MIN]], ["rt", [2020, 7, 1, 12, 0, 0, 0, 120 * US_MIN]],
                                                               ["rt", [2020, 1, 1, 12, 0, 0, 0, 60 * US_MIN]]]},
        {"op": "seq", "ty": SCHEMAS[0], "steps": [["rt", [["1", "61", [0x41], True, ["1"]]]], ["rt", [["2", "", None, None, None]]],
                                                    ["dec", "00016e0001"], ["rt", [["3", "62", None, False, []]]]]},
        {"op": "stream", "boxes": [[["61", "31"]], [["61", "32"]], [["7a", "39"]], [["7a", "39"], ["61", ""]]], "sizes": [], "reuse": [0, 1, 3, 2]},
        {"op": "stream", "boxes": [[["61", "31"], ["62", "32"]], [["61", "31"]], [], [["62", "33"]]], "sizes": [7], "reuse": [0, 2, 1, 4]},
        {"op": "stream", "boxes": [[["61", "78" * 65535]], [["62", "79" * 65535], ["63", "7a" * 65534]], [["64", "77" * 10]]], "sizes": []},
        {"op": "stream", "boxes": [[["61", "78" * 65535]], [["62", "79" * 65535]], [["63", "7a" * 65535]], [["64", ""]]], "sizes": [131075]},
    ] + [{"op": "refuse", "bad": b, "box": [["61", "31"]]} for b in NEW_BAD]


# non-bytes keys / values of every common Python type (the statement: refused when sent, stream not corrupted)
NEW_BAD = ["intval", "zeroval", "boolval", "floatval", "listval", "emptylistval", "byteslistval", "tupleval", "dictval", "objval",
           "strsubval", "emptystrval", "enumval", "nonekey", "tuplekey", "strsubkey", "boolkey", "floatkey", "nonekey-only", "intkey-only"]

KEY_LENS = [1, 1, 1, 2, 3, 5, 8, 17, 254, 255]
BAD_KEY_LENS = [0, 0, 256, 300]
VAL_LENS = [0, 0, 1, 1, 2, 3, 10, 40, 255, 256, 257]
BIG_VAL_LENS = [65534, 65535, 4096]
BAD_VAL_LENS = [65536, 70000]


def _bytes(rng, n):
    if n > 512:
        pat = bytes(rng.randrange(256) for _ in range(7))
        return (pat * (n // 7 + 1))[:n]
    r = rng.random()
    if r < 0.2:
        return bytes([rng.choice([0, 0xFF, 0x61])]) * n
    return bytes(rng.randrange(256) for _ in range(n))


def _gen_box(rng, bad_p, big_p):
    items = {}
    n = rng.choice([0] + [1] * 4 + [2] * 4 + [3] * 3 + [4, 5, 6]) if rng.random() < 0.97 else 0
    if n == 0 and rng.random() > bad_p * 3:
        n = 1
    for _ in range(n):
        kl = rng.choice(BAD_KEY_LENS) if rng.random() < bad_p else rng.choice(KEY_LENS)
        r = rng.random()
        vl = rng.choice(BAD_VAL_LENS) if r < bad_p / 2 else rng.choice(BIG_VAL_LENS) if r < bad_p / 2 + big_p else rng.choice(VAL_LENS)
        k = _bytes(rng, kl)
        if items and rng.random() < 0.3 and kl > 0:      # keys sharing prefixes: exercises the sort
            base = rng.choice(list(items))
            k = (base + k)[:max(1, kl)] if rng.random() < 0.5 else base[:max(1, len(base) - 1)] + k[:1]
        items[k] = _bytes(rng, vl)
    its = list(items.items())
    rng.shuffle(its)
    return [[hx(k), hx(v)] for k, v in its]


def _ideal_wire_len(boxes):
    n = 0
    for items in boxes:
        ok = bool(items) and all(1 <= len(k) // 2 <= 255 and len(v) // 2 <= 65535 for k, v in items)
        if ok:
            n += sum(4 + len(k) // 2 + len(v) // 2 for k, v in items) + 2
    return n


def _gen_sizes(rng, total, boxes):
    style = rng.random()
    if total == 0:
        return rng.choice([[], [0], [0, 0]])
    if style < 0.15:
        return []
    if style < 0.35 and total <= 400:
        return [1] * total
    if style < 0.5:
        # cuts at item/box boundaries ±1
        pts, off = set(), 0
        for items in boxes:
            ok = bool(items) and all(1 <= len(k) // 2 <= 255 and len(v) // 2 <= 65535 for k, v in items)
            if not ok:
                continue
            for k, v in sorted(items):
                for piece in (2, len(k) // 2, 2, len(v) // 2):
                    off += piece
                    pts.update({off - 1, off, off + 1})
            off += 2
            pts.update({off - 1, off})
        pts = sorted(p for p in pts if 0 < p < total and rng.random() < 0.5)
        sizes, last = [], 0
        for p in pts:
            sizes.append(p - last)
            last = p
        return sizes
    sizes, left = [], total
    while left > 0 and len(sizes) < 60:
        n = rng.choice([0, 1, 1, 2, 3, 5, 7, 16, 100, 255, 256, 1000, left])
        n = min(n, left)
        sizes.append(n)
        left -= n
    return sizes


def _derive_box(rng, prev):
    """a box sharing keys with the previous one (one value changed / a key removed / a key added / the same again)"""
    items = [list(x) for x in prev]
    r = rng.random()
    if items and r < 0.4:
        i = rng.randrange(len(items))
        items[i][1] = hx(_bytes(rng, rng.choice(VAL_LENS)))
    elif items and r < 0.6:
        del items[rng.randrange(len(items))]
    elif r < 0.85:
        k = hx(_bytes(rng, rng.choice(KEY_LENS[:7])))
        if k not in [x[0] for x in items]:
            items.append([k, hx(_bytes(rng, rng.choice(VAL_LENS)))])
    rng.shuffle(items)
    return items


def _gen_bulk_stream(rng):
    """several maximal values arriving in ONE read (or two): more than 128 KiB buffered at once"""
    boxes = []
    for i in range(rng.choice([3, 3, 3, 4])):
        boxes.append([[hx(bytes([0x61 + i, 0x30 + j])), hx(_bytes(rng, rng.choice([65535, 65535, 65534, 30000])))] for j in range(rng.choice([1, 1, 2]))])
    boxes.append(_gen_box(rng, 0, 0))
    total = _ideal_wire_len(boxes)
    return {"op": "stream", "boxes": boxes, "sizes": rng.choice([[], [], [1], [total - 1], [total - 2], [65537], [65539, 65539], [131076]])}


def _gen_stream(rng):
    bad_p = rng.choice([0, 0, 0.05, 0.15])
    big_p = rng.choice([0, 0, 0, 0.03])
    n = rng.choice([0] + [1, 1, 2, 2, 3, 4, 5] * 5)
    if rng.random() < 0.3 and n >= 2:
        # ONE AmpBox object filled, sent, changed in place and sent again
        boxes, reuse = [], []
        for i in range(n):
            if boxes and rng.random() < 0.75:
                boxes.append(_derive_box(rng, boxes[-1]) if rng.random() < 0.7 else _gen_box(rng, bad_p, 0))
                reuse.append(rng.randint(1, 5))
            else:
                boxes.append(_gen_box(rng, bad_p, 0))
                reuse.append(0)
        return {"op": "stream", "boxes": boxes, "sizes": _gen_sizes(rng, _ideal_wire_len(boxes), boxes), "reuse": reuse}
    boxes = [_gen_box(rng, bad_p, big_p) for _ in range(n)]
    return {"op": "stream", "boxes": boxes, "sizes": _gen_sizes(rng, _ideal_wire_len(boxes), boxes)}


def _gen_feed(rng):
    boxes = [_gen_box(rng, 0, 0) for _ in range(rng.randint(1, 3))]
    wire = bytearray(b"".join(amp.AmpBox(box_of(b)).serialize() if b else b"\x00\x00" for b in boxes))
    for _ in range(rng.choice([0, 1, 1, 2])):
        r = rng.random()
        pos = rng.randrange(len(wire) + 1)
        if r < 0.35:
            wire[pos:pos] = rng.choice([b"\x01\x00", b"\x01\x00\x00\x00", b"\xff\xff", b"\x00\x00", b"\x00\xff" + b"k" * 255])
        elif r < 0.6 and wire:
            wire[pos % len(wire)] = rng.choice([0, 1, 2, 0xFF, rng.randrange(256)])
        elif r < 0.8:
            del wire[pos:]
        else:
            wire += bytes(rng.randrange(4) for _ in range(rng.randint(1, 12)))
    if rng.random() < 0.4:   # data after a possible lengthLimitExceeded
        wire += b"".join(amp.AmpBox(box_of(_gen_box(rng, 0, 0)) or {b"z": b""}).serialize() for _ in range(rng.randint(1, 2)))
    wire = bytes(wire)
    chunks = cut(wire, _gen_sizes(rng, len(wire), []))
    return {"op": "feed", "chunks": [hx(c) for c in chunks]}


INTS = [0, 1, -1, 9, 10, -10, 99, 100, 255, 256, 65535, 65536, 2 ** 31, -(2 ** 31), 2 ** 63, 2 ** 64, -(2 ** 64) - 1, 10 ** 18, 10 ** 19 - 1]
CPS = [0, 0x41, 0x7F, 0x80, 0xFF, 0x7FF, 0x800, 0xFFF, 0x1000, 0xD7FF, 0xE000, 0xFFFD, 0xFFFF, 0x10000, 0x3FFFF, 0x40000,
       0xFFFFF, 0x100000, 0x10FFFF, 0x20AC, 0x1F600, 0x0A, 0x20,
       # characters a "helpful" decoder may drop or rewrite: BOM / non-characters, combining marks, compatibility forms,
       # Unicode white space and line separators, soft hyphen, case-mapping specials
       0xFEFF, 0xFFFE, 0x301, 0x30A, 0x323, 0x212B, 0x2126, 0xF900, 0x1100, 0x1161, 0x2028, 0x2029, 0x85, 0xA0, 0x200B, 0x3000,
       0x1C, 0xAD, 0xDF, 0x130, 0x0D]
# sequences that Unicode normalisation (NFC/NFKC), BOM stripping, strip() or newline translation would change
UNI_SEQS = [[0xFEFF], [0xFEFF, 0x61], [0xFEFF, 0xFEFF], [0x65, 0x301], [0x41, 0x30A], [0x1100, 0x1161], [0x1100, 0x1161, 0x11A8],
            [0x212B], [0xF900], [0x44, 0x307, 0x323], [0x20, 0x61, 0x20], [0x0D, 0x0A], [0x0A], [0xFB01], [0x32, 0x2075], [0xC5], [0x3A9]]


def _gen_val(rng, ty, depth=0):
    return _gen_val_t(rng, pty(ty) if isinstance(ty, str) else ty, depth)


DEC_COEFFS = [0, 1, 9, 10, 15, 100, 123, 1000, 99999, 100000, 123456, 1234567, 10 ** 27 - 1, 10 ** 28, 123456789012345678901234567890123456789]
DEC_EXPS = [0, 0, 1, -1, 2, -2, 3, -3, -5, -6, -7, -8, 5, 6, 7, 28, -28, 400, -400, 6144, -6176, 999999, -999999]
OFFS_US = [0, US_MIN, -US_MIN, 60 * US_MIN, -60 * US_MIN, 330 * US_MIN, -570 * US_MIN, 1439 * US_MIN, -1439 * US_MIN,
           US_DAY - 1, -(US_DAY - 1), US_DAY - 10 ** 6, -(US_DAY - 10 ** 6), 30 * 10 ** 6, -30 * 10 ** 6, 59 * 10 ** 6, -59 * 10 ** 6,
           1, -1, US_MIN - 1, -(US_MIN - 1), US_MIN + 1, -(US_MIN + 1)]
BAD_OFFS_US = [None, US_DAY, -US_DAY, US_DAY + 1, -(US_DAY + 7), 3 * US_DAY]


def _gen_dt(rng, bad_p=0.06):
    y = rng.choice([1, 2, 4, 100, 400, 1000, 1900, 1970, 2000, 2012, 2024, 9999, rng.randint(1, 9999)])
    mo = rng.randint(1, 12)
    leap = y % 4 == 0 and (y % 100 != 0 or y % 400 == 0)
    dim = [31, 29 if leap else 28, 31, 30, 31, 30, 31, 31, 30, 31, 30, 31][mo - 1]
    d = rng.choice([1, dim, rng.randint(1, dim)])
    r = rng.random()
    if r < bad_p:
        off = rng.choice(BAD_OFFS_US)
    elif r < 0.6:
        off = rng.choice(OFFS_US)
    elif r < 0.8:
        off = US_MIN * rng.randint(-1439, 1439)
    else:
        off = rng.randint(-(US_DAY - 1), US_DAY - 1)
    return [y, mo, d, rng.choice([0, 23, rng.randint(0, 23)]), rng.choice([0, 59, rng.randint(0, 59)]),
            rng.choice([0, 59, rng.randint(0, 59)]), rng.choice([0, 1, 999999, 100000, 54321, rng.randrange(10 ** 6)]), off]


def _gen_decv(rng):
    r = rng.random()
    if r < 0.08:
        return ["I", rng.randint(0, 1)]
    if r < 0.2:
        return ["N", rng.randint(0, 1), rng.randint(0, 1), str(rng.choice([0, 0, 1, 7, 123, 10 ** 20 + 3, rng.randrange(10 ** 9)]))]
    c = rng.choice(DEC_COEFFS) if rng.random() < 0.5 else rng.randrange(10 ** rng.choice([1, 2, 3, 6, 7, 12, 30]))
    e = rng.choice(DEC_EXPS) if rng.random() < 0.5 else rng.randint(-12, 8)
    if rng.random() < 0.3:      # exponents around the "no exponent needed" boundary: leftdigits = exp + ndigits vs -6 and 0
        n = len(str(c))
        e = rng.choice([-n - 7, -n - 6, -n - 5, -n - 1, -n, -n + 1, -1, 0, 1])
    return ["F", rng.randint(0, 1), str(c), e]


def _gen_val_t(rng, t, depth=0):
    k = t[0]
    if k == "int":
        r = rng.random()
        if r < 0.4:
            return str(rng.choice(INTS))
        if r < 0.5:
            e = rng.choice([1, 2, 5, 20, 100, 1000, 4299])
            return str(rng.choice([1, -1]) * (10 ** e + rng.choice([-1, 0, 1])))
        return str(rng.choice([1, -1]) * rng.randrange(10 ** rng.choice([1, 3, 9, 30])))
    if k == "str":
        n = rng.choice([0, 0, 1, 2, 5, 30]) if rng.random() < 0.97 else rng.choice([65535, 65536, 65533]) if depth else 300
        return hx(_bytes(rng, n))
    if k == "uni":
        n = rng.choice([0, 1, 1, 2, 3, 6, 12])
        out = [rng.choice(CPS) if rng.random() < 0.8 else rng.randrange(0x110000) for _ in range(n)]
        if rng.random() < 0.3:
            seq = rng.choice(UNI_SEQS)
            pos = 0 if rng.random() < 0.5 else rng.randrange(len(out) + 1)
            out[pos:pos] = seq
        if rng.random() < 0.06 and out:
            out[rng.randrange(len(out))] = rng.choice([0xD800, 0xDBFF, 0xDC00, 0xDFFF])
        return out
    if k == "bool":
        return rng.random() < 0.5
    if k == "dt":
        return _gen_dt(rng)
    if k == "dec":
        return _gen_decv(rng)
    n = rng.choice([0, 1, 1, 2, 3, 5]) if depth < 2 else rng.choice([0, 1, 2])
    if k == "L":
        return [_gen_val_t(rng, t[1], depth + 1) for _ in range(n)]
    rows = []
    for _ in range(n):
        rows.append([None if (opt and rng.random() < 0.4) else _gen_val_t(rng, ft, depth + 1) for name, opt, ft in t[1]])
    return rows


def _name(b):
    return hx(b)


SCHEMAS = [
    "A(%s!int,%s!str,%s?uni,%s?bool,%s?Lint)" % tuple(_name(x) for x in (b"n", b"s", b"u", b"flag", b"l")),
    "A(%s?dt,%s!dec,%s?Ldt)" % tuple(_name(x) for x in (b"when", b"amount", b"more-dates")),
    "A(%s!A(%s?int,%s!uni),%s?str)" % tuple(_name(x) for x in (b"inner", b"a", b"b", b"tail")),
    "A()",
    "A(%s?int)" % _name(b"only"),
    "A(%s!str,%s!int)" % (_name(b"z" * 255), _name(b"a")),            # keys sort differently from schema order
    "A(%s!int,%s!bool)" % (_name(b"k" * 256), _name(b"ok")),          # over-long name: TooLong at toString
    "A(%s!dt,%s!int,%s?dec)" % tuple(_name(x) for x in (b"from", b"class", b"b\x00")),   # python keywords, NUL in a name
]
TYPES = ["int", "str", "uni", "bool", "Lint", "Lstr", "Luni", "Lbool", "LLint", "LLuni", "LLLstr",
         "dt", "dt", "dt", "dec", "dec", "dec", "Ldt", "Ldec", "LLdec"] + SCHEMAS


def _mutate(rng, b):
    b = bytearray(b)
    for _ in range(rng.choice([1, 1, 2])):
        r = rng.random()
        pos = rng.randrange(len(b) + 1)
        if r < 0.3 and b:
            b[pos % len(b)] = rng.choice([0, 0x80, 0xBF, 0xC0, 0xC1, 0xE0, 0xED, 0xF0, 0xF4, 0xF5, 0xFF, 0x20, 0x5F, 0x2D, 0x2B, rng.randrange(256)])
        elif r < 0.55:
            b[pos:pos] = rng.choice([b" ", b"_", b"\t", b"\x0b", b"\x0c", b"\r\n", b"+", b"-", b"0", b"\x00", b"\x80", b"\x1c",
                                     b"\xc0\x80", b"\xed\xa0\x80", b"\xf4\x90\x80\x80", b"\xe0\x9f\xbf", b"\xf0\x8f\xbf\xbf",
                                     b"\x00\x00", b"\xff\xff", b"\x00\x01", b"\xef\xbb\xbf", b"\xcc\x81", b"\xe2\x80\xa8"])
        elif r < 0.8 and b:
            del b[pos % len(b)]
        else:
            del b[pos:]
    return bytes(b)


DEC_TEXTS = [b"1_0", b"_", b"N_aN", b" 1 ", b"\x1c1\x1f", b"1\x00", b"iNfInItY", b"inf", b"INF", b"infi", b"infinit", b"infinityx", b".5", b"5.",
             b".", b"E5", b"1E", b"1e+", b"1e-05", b"+-1", b"snan007", b"SNAN", b"nan-1", b"-sNaN", b"+nan12", b"1 2", b"_ 1", b"1\xff", b"0x1",
             b"1E+999999", b"", b"+", b"-", b"--1", b"1.2.3", b"1e5e5", b"1.e5", b".e5", b"0.e5", b"00012.3400", b"0000", b"-0.000E+3",
             b"+.0e-0", b"1e+_5", b"1_e5", b"nan1.5", b"nane5", b"infe5", b"1E+5 ", b"\t\n-12.5e-3\r", b"1\x0b", b"\x851", b"1e", b"e", b"1ee5",
             b"12E0012", b"0.00000001", b"1e-7", b"123456e-12", b"NaN0", b"NaN00", b"sNaN000123", b"Infinity0", b"-inf_inity"]


def _hostile_dt(rng):
    v = _gen_dt(rng, 0)
    raw = bytearray(amp.DateTime().toString(to_py("dt", v)))
    for _ in range(rng.choice([1, 1, 1, 2, 3])):
        r = rng.random()
        if r < 0.35:       # a field made lenient-int()-shaped or out of range
            a, b = rng.choice([(0, 4), (5, 7), (8, 10), (11, 13), (14, 16), (17, 19), (20, 26), (27, 29), (30, 32)])
            w = b - a
            alt = rng.choice([b" " * (w - 1) + b"7", b"7" + b" " * (w - 1), b"+" + b"3" * (w - 1), b"-" + b"1" * (w - 1), b"-" + b"0" * (w - 1),
                              b"1_" + b"2" * (w - 2) if w > 2 else b"_1", b"0" * w, b"9" * w, b"13"[:w].rjust(w, b"0"), b"24"[:w].rjust(w, b"0"),
                              b"60"[:w].rjust(w, b"0"), b"29"[:w].rjust(w, b"0"), b"30"[:w].rjust(w, b"0"), b"31"[:w].rjust(w, b"0"),
                              b"\t" + b"5" * (w - 1), b"5" * (w - 1) + b"\n", b"\x1c" + b"5" * (w - 1), b"x" * w, b"1" + b"_" * (w - 1)])
            raw[a:b] = alt[:w].ljust(w, b"0")
        elif r < 0.5:      # separators are not looked at
            raw[rng.choice([4, 7, 10, 13, 16, 19, 29])] = rng.choice([0, 0x20, 0x7F, 0x80, 0xFF, ord("x"), ord("5")])
        elif r < 0.65:
            raw[26] = rng.choice([ord("+"), ord("-"), ord(" "), ord("Z"), 0, 0x2212 & 0xFF, 0xFF])
        elif r < 0.8:      # February / leap years
            raw[0:4] = rng.choice([b"1900", b"2000", b"2023", b"2024", b"0004", b"0100", b"0400", b"9999"])
            raw[5:7] = rng.choice([b"02", b"02", b"04", b"12"])
            raw[8:10] = rng.choice([b"28", b"29", b"30", b"31"])
        elif r < 0.9:
            pos = rng.randrange(len(raw) + 1)
            raw[pos:pos] = rng.choice([b"0", b" ", b"\x00"])
        else:
            del raw[rng.randrange(len(raw))]
    return bytes(raw)


def _gen_dec(rng):
    ty = rng.choice(["int"] * 4 + ["uni"] * 4 + ["bool", "Lint", "Lint", "Luni", "Lbool", "LLint", "Lstr", "str"]
                    + ["dt"] * 5 + ["dec"] * 5 + ["Ldt", "Ldec"] + SCHEMAS[:3] * 2 + SCHEMAS[3:])
    v = _gen_val(rng, ty)
    try:
        raw = mk_arg(ty).toStringProto(to_py(ty, v), None)
    except Exception:
        raw = b""
    if ty == "int" and rng.random() < 0.5:
        body = rng.choice([b"0", b"00", b"007", b"1_0", b"1_000_000", b"_1", b"1_", b"1__0", b"", b"12a", b"0x10", b"1.0", b"1e3", b"\xd9\xa3"])
        raw = rng.choice([b"", b" ", b"\t\n", b"\x0b\x0c\r", b"\x1c"]) + rng.choice([b"", b"", b"+", b"-", b"+-", b"- "]) + body + rng.choice([b"", b"", b" ", b"\n\n", b"\x00", b" x"])
    elif ty == "bool" and rng.random() < 0.7:
        raw = rng.choice([b"True", b"False", b"true", b"TRUE", b"1", b"0", b"", b"True ", b"Fals", b"Falsee"])
    elif ty == "dt" and rng.random() < 0.8:
        raw = _hostile_dt(rng)
    elif ty == "dec" and rng.random() < 0.5:
        raw = rng.choice(DEC_TEXTS)
        if rng.random() < 0.3:
            raw = rng.choice([b"", b"-", b"+", b" "]) + raw
    elif ty.startswith("A(") and rng.random() < 0.5:
        # a row box given directly: missing required keys, unknown keys, duplicate keys, keys in any order, over-long key prefix
        t = pty(ty)
        chunks = []
        for _ in range(rng.choice([1, 1, 2, 3])):
            items = []
            for name, opt, ft in t[1]:
                if rng.random() < 0.75 and 1 <= len(name) // 2 <= 255:
                    fv = _gen_val_t(rng, ft, 2)
                    try:
                        enc = _mk_arg(ft).toStringProto(_to_py(ft, fv), None)
                    except Exception:
                        enc = b"?"
                    if rng.random() < 0.15:
                        enc = _mutate(rng, enc)
                    items.append((unhx(name), enc[:65535]))
            if rng.random() < 0.3:
                items.append((rng.choice([b"extra", b"n", b"a", b"when"]), b"1"))
            rng.shuffle(items)
            chunks.append(b"".join(struct.pack("!H", len(k)) + k + struct.pack("!H", len(x)) + x for k, x in items) + b"\x00\x00")
        raw = b"".join(chunks)
        if rng.random() < 0.15:
            raw = _mutate(rng, raw)
        if rng.random() < 0.08:
            raw += rng.choice([b"\x01\x00", b"\xff\xff", b"\x00\x01k\xff\xff"])
    elif ty in ("uni", "Luni") and rng.random() < 0.25:
        # a BOM in front of the text (of the first element for a list)
        if ty == "uni":
            raw = b"\xef\xbb\xbf" + raw
        elif len(raw) >= 2:
            raw = struct.pack("!H", (struct.unpack("!H", raw[:2])[0] + 3) & 0xFFFF) + b"\xef\xbb\xbf" + raw[2:]
    elif rng.random() < 0.6:
        raw = _mutate(rng, raw)
    if len(raw) > 70000:
        raw = raw[:70000]
    return {"op": "dec", "ty": ty, "hex": hx(raw)}


DECIMALS = ["0", "-0", "1", "-1", "1.0", "10", "1E+2", "1E-1", "1.5E+2", "0E+3", "0.000", "Infinity", "-Infinity", "NaN", "-NaN",
            "sNaN", "-sNaN", "NaN123", "sNaN9", "1E+999999", "1E-999999", "123456789012345678901234567890.123456789", "9.999999999999999999999999999E+6144"]


def _gen_other(rng):
    kind = rng.choice(["float", "float", "Lfloat", "decimal", "decimal", "datetime", "datetime", "path", "amplist", "amplist", "command"])
    if kind == "float":
        r = rng.random()
        if r < 0.4:
            f = rng.choice([0.0, -0.0, 1.0, -1.5, float("inf"), float("-inf"), float("nan"), 5e-324, 2.2250738585072014e-308,
                            1.7976931348623157e308, 0.1, 1 / 3, 1e22, 1e23, 123456789.123456789, 2.0 ** 53, 2.0 ** 53 + 2])
            v = struct.pack(">d", f).hex()
        else:
            v = bytes(rng.randrange(256) for _ in range(8)).hex()
        return {"op": "arg", "kind": kind, "val": v}
    if kind == "Lfloat":
        return {"op": "arg", "kind": kind, "val": [bytes(rng.randrange(256) for _ in range(8)).hex() for _ in range(rng.randint(0, 4))]}
    if kind == "decimal":
        if rng.random() < 0.5:
            v = rng.choice(DECIMALS)
        else:
            digits = "".join(rng.choice("0123456789") for _ in range(rng.randint(1, 40)))
            v = rng.choice(["", "-"]) + digits
            if rng.random() < 0.5:
                p = rng.randrange(len(digits) + 1)
                v = rng.choice(["", "-"]) + digits[:p] + "." + digits[p:]
                if v.strip("-") == ".":
                    v = "0"
            if rng.random() < 0.5:
                v += "E" + rng.choice(["+", "-"]) + str(rng.choice([0, 1, 2, 28, 400, 6144, 999999]))
        return {"op": "arg", "kind": kind, "val": v}
    if kind == "datetime":
        y = rng.choice([1, 2, 1000, 1970, 2012, 9999, rng.randint(1, 9999)])
        mo, d = rng.randint(1, 12), rng.randint(1, 28)
        offs = rng.choice([0, 60, -60, 3600, -3600, 5 * 3600 + 30 * 60, -(9 * 3600 + 30 * 60), 86399, -86399, 86340, -86340, 30, -30, 59, -59,
                           rng.randint(-86399, 86399), 60 * rng.randint(-1439, 1439)])
        offus = rng.choice([0, 0, 0, 1, 999999])
        if offs == 86399 and offus:
            offus = 0
        return {"op": "arg", "kind": kind, "val": [y, mo, d, rng.choice([0, 23, rng.randint(0, 23)]), rng.choice([0, 59, rng.randint(0, 59)]),
                                                   rng.choice([0, 59, rng.randint(0, 59)]), rng.choice([0, 1, 999999, rng.randrange(10 ** 6)]), offs, offus]}
    if kind == "path":
        segs = ["/"] + [rng.choice(["a", "tmp", "é", "€uro", "x y", "\U0001F600", "..", ".", "b.c", "e\u0301", "\ufeffx", "A\u030a", "\u212b", " lead", "trail "]) for _ in range(rng.randint(0, 4))]
        return {"op": "arg", "kind": kind, "val": [ord(c) for c in "/".join(segs).replace("//", "/")]}
    rows = []
    for _ in range(rng.choice([0, 1, 1, 2, 3]) if kind == "amplist" else 1):
        row = {"n": _gen_val(rng, "int"), "s": _gen_val(rng, "str")}
        for key, ty in (("u", "uni"), ("flag", "bool"), ("l", "Lint")):
            row[key] = None if rng.random() < 0.4 else _gen_val(rng, ty, 1)
        if not representable("int", row["n"]):
            row["n"] = "7"
        if row["u"] is not None:
            row["u"] = [c for c in row["u"] if not 0xD800 <= c < 0xE000]
        if row["l"] is not None:
            row["l"] = [x for x in row["l"] if representable("int", x)]
        rows.append(row)
    if kind == "command":
        return {"op": "arg", "kind": kind, "val": rows[0], "sizes": rng.choice([[], [1] * 30, [2, 3, 5, 7]])}
    return {"op": "arg", "kind": kind, "val": rows}


def _gen_refuse(rng):
    return {"op": "refuse", "bad": rng.choice(["strkey", "strval", "noneval", "intkey", "strkey-only"] + NEW_BAD * 2), "box": _gen_box(rng, 0, 0)[:3]}


SEQ_TYPES = ["Lint", "Lint", "Lstr", "Luni", "LLint", "Ldt", "Ldec", "dt", "dt", "dt", "int", "uni", "dec", "bool", "str"] + SCHEMAS[:3] * 2 + [SCHEMAS[4], SCHEMAS[7]]


def _has_dt(t):
    return t[0] == "dt" or (t[0] == "L" and _has_dt(t[1])) or (t[0] == "A" and any(_has_dt(ft) for _, _, ft in t[1]))


def _gen_flav(rng, ty):
    f = {}
    if rng.random() < 0.5:
        f["int"] = "sub"
    if rng.random() < 0.6:
        f["it"] = rng.choice(["tuple", "gen", "iter"])
    if rng.random() < 0.3:
        f["tzkind"] = "stdlib"
    return f


def _gen_seq(rng):
    """a HISTORY on one Argument object: decode hostile/truncated input, then round-trip values (state left in the
    object by an earlier call must not leak into a later one)"""
    ty = rng.choice(SEQ_TYPES)
    steps = []
    for _ in range(rng.choice([2, 2, 3, 3, 4, 5])):
        r = rng.random()
        if r < 0.5:
            steps.append(["rt", _gen_val(rng, ty)])
        elif r < 0.6:
            steps.append(["enc", _gen_val(rng, ty)])
        else:
            try:
                raw = mk_arg(ty).toStringProto(to_py(ty, _gen_val(rng, ty)), None)
            except Exception:
                raw = b"\x00"
            q = rng.random()
            if q < 0.5 and raw:
                raw = raw[:rng.randrange(len(raw))]             # truncated: a partial element / box stays behind
            elif q < 0.7:
                raw = raw + rng.choice([b"\x00", b"\x00\x05ab", b"\xff", b"\x00\x01", b"\x01\x00"])
            elif q < 0.85:
                raw = _mutate(rng, raw)
            steps.append(["dec", hx(raw[:70000])])
    c = {"op": "seq", "ty": ty, "steps": steps}
    if _has_dt(pty(ty)) and rng.random() < 0.7:
        c["sharedtz"] = True
        # the same wall-clock fields are reused with the SAME offset only (a tzinfo is a function of the datetime)
    if rng.random() < 0.4:
        c["flav"] = _gen_flav(rng, ty)
    return c


def generate(rng, tier):
    n = 2600 if tier == "quick" else 60000
    for _ in range(n):
        r = rng.random()
        if r < 0.40:
            yield _gen_stream(rng)
        elif r < 0.52:
            yield _gen_feed(rng)
        elif r < 0.57:
            yield {"op": "serialize", "box": _gen_box(rng, 0.1, 0.01)}
        elif r < 0.70:
            ty = rng.choice(TYPES)
            c = {"op": "enc", "ty": ty, "val": _gen_val(rng, ty)}
            if rng.random() < 0.35:
                c["flav"] = _gen_flav(rng, ty)
            yield c
        elif r < 0.83:
            yield _gen_dec(rng)
        elif r < 0.90:
            yield _gen_seq(rng)
        elif r < 0.965:
            yield _gen_other(rng)
        elif r < 0.997:
            yield _gen_refuse(rng)
        else:
            yield _gen_bulk_stream(rng)


def model_line(c):
    op = c["op"]
    if op == "stream":
        bs = ";".join(enc_box(b) for b in c["boxes"]) if c["boxes"] else "."
        sizes = ",".join(str(n) for n in c["sizes"]) if c["sizes"] else "-"
        return f"stream {bs} {sizes}"
    if op == "feed":
        return "feed " + " ".join(x or "-" for x in c["chunks"])
    if op == "serialize":
        return "serialize " + enc_box(c["box"])
    if op == "enc":
        return f"enc {c['ty']} " + " ".join(val_tokens(c["ty"], c["val"]))
    if op == "dec":
        return f"dec {c['ty']} " + (c["hex"] or "-")
    if op == "seq":
        parts = []
        for kind, x in c["steps"]:
            parts.append(f"dec {x or '-'}" if kind == "dec" else kind + " " + " ".join(val_tokens(c["ty"], x)))
        return f"seq {c['ty']} " + " | ".join(parts)
    return "unmodelled"


def _bad_box(c):
    d = box_of(c["box"])
    bad = c["bad"]
    if bad == "strkey":
        d["key"] = b"v"
    elif bad not in ("strkey-only", "strval", "noneval", "intkey") and bad not in NEW_BAD:
        raise ValueError(bad)
    elif bad == "strkey-only":
        d = {"key": b"v"}
    elif bad == "strval":
        d[b"k"] = "text"
    elif bad == "noneval":
        d[b"k"] = None
    elif bad == "intkey":
        d[5] = b"v"
    elif bad in _BAD_VALUES:
        d[b"k"] = _BAD_VALUES[bad]()
    elif bad in _BAD_KEYS:
        d[_BAD_KEYS[bad]()] = b"v"
    elif bad == "nonekey-only":
        d = {None: b"v"}
    elif bad == "intkey-only":
        d = {7: b"v"}
    else:
        raise ValueError(bad)
    return d


class _StrSub(str):
    pass


class _Colour(enum.Enum):
    RED = b"red"


_BAD_VALUES = {
    "intval": lambda: 3, "zeroval": lambda: 0, "boolval": lambda: True, "floatval": lambda: 1.5, "listval": lambda: [1, 2],
    "emptylistval": lambda: [], "byteslistval": lambda: [b"a", b"b"], "tupleval": lambda: (b"a",), "dictval": lambda: {b"a": b"b"},
    "objval": lambda: object(), "strsubval": lambda: _StrSub("text"), "emptystrval": lambda: "", "enumval": lambda: _Colour.RED,
}
_BAD_KEYS = {"nonekey": lambda: None, "tuplekey": lambda: (b"a",), "strsubkey": lambda: _StrSub("key"), "boolkey": lambda: True,
             "floatkey": lambda: 2.5}


def run_impl(c):
    op = c["op"]
    if op == "stream":
        wire, status = send_all([box_of(b) for b in c["boxes"]], c.get("reuse"))
        boxes, closed = recv_all(cut(wire, c["sizes"]))
        return f"sent={','.join(status) if status else '.'} recv={show_boxes(boxes)} closed={int(bool(closed))}"
    if op == "feed":
        boxes, closed = recv_all([unhx(x) for x in c["chunks"]])
        return f"recv={show_boxes(boxes)} closed={int(bool(closed))}"
    if op == "serialize":
        try:
            return hx(amp.AmpBox(box_of(c["box"])).serialize()) or "-"
        except (amp.AmpError, ValueError, TypeError) as e:
            return "!raised " + type(e).__name__
    if op == "enc":
        return _run_enc(mk_arg(c["ty"]), c["ty"], c["val"], c.get("flav"))
    if op == "dec":
        return _run_dec(mk_arg(c["ty"]), c["ty"], unhx(c["hex"]))
    if op == "seq":
        arg = mk_arg(c["ty"])           # ONE Argument object for the whole history
        ctx = dict(c.get("flav") or {})
        if c.get("sharedtz"):
            ctx["tz"] = ScriptTZ()      # ONE tzinfo object whose offset depends on the datetime
        outs = []
        for kind, x in c["steps"]:
            if kind == "dec":
                outs.append(_run_dec(arg, c["ty"], unhx(x)))
            else:
                o = _run_enc(arg, c["ty"], x, ctx)
                if kind == "rt" and not o.startswith("!"):
                    o += " => " + _run_dec(arg, c["ty"], unhx(o.replace("-", "")))
                outs.append(o)
        return " | ".join(outs)
    if op == "refuse":
        wire, status = send_all([{b"ok": b"1"}, _bad_box(c), {b"ok": b"2"}])
        boxes, closed = recv_all([wire])
        return f"sent={','.join(status)} recv={show_boxes(boxes)} closed={int(bool(closed))}"
    if op == "arg":
        kind = c["kind"]
        if kind == "amplist":
            arg = amplist_arg()
            objs = amplist_objs(c["val"])
            return canon_rows(arg.fromStringProto(arg.toStringProto(objs, None), None))
        if kind == "command":
            objs = amplist_objs([c["val"]])[0]
            box = _Cmd.makeArguments(objs, None)
            wire, status = send_all([dict(box)])
            boxes, closed = recv_all(cut(wire, c.get("sizes", [])))
            if status != ["ok"] or len(boxes) != 1:
                return f"sent={status} boxes={len(boxes)}"
            return canon_rows([_Cmd.parseArguments(amp.AmpBox(boxes[0]), None)])
        arg, val, _ = mk_other(kind, c["val"])
        return canon_other(kind, arg.fromString(arg.toString(val)))
    raise ValueError(op)


def _run_enc(arg, ty, val, ctx):
    try:
        return hx(arg.toStringProto(to_py(ty, val, ctx), None)) or "-"
    except (ValueError, TypeError, struct.error, amp.TooLong) as e:
        return "!raised " + type(e).__name__


def _run_dec(arg, ty, raw):
    try:
        return " ".join(py_tokens(ty, arg.fromStringProto(raw, None)))
    except (ValueError, TypeError, KeyError, AttributeError, decimal.InvalidOperation) as e:
        return "!raised " + type(e).__name__


def compare(c, impl_out, model_out):
    if c["op"] in ("refuse", "arg"):
        return model_out == "unmodelled"
    return impl_out == model_out


def _box_class(items):
    """None if representable, else the class of what makes it unrepresentable"""
    if not items:
        return "empty-box"
    for k, v in items:
        if len(k) == 0:
            return "empty-key"
    for k, v in items:
        if len(k) // 2 > 255:
            return "long-key"
        if len(v) // 2 > 65535:
            return "long-value"
    return None


def oracle(c, out):
    """The property on the implementation's behaviour, computed without the Lean model."""
    op = c["op"]
    if op == "stream":
        if out.startswith("!"):
            return {"key": "stream-raises", "detail": out}
        f = dict(p.split("=", 1) for p in out.split(" "))
        status = f["sent"].split(",") if f["sent"] != "." else []
        expect = []
        for items, st in zip(c["boxes"], status):
            cls = _box_class(items)
            if cls is None:
                if st != "ok":
                    return {"key": "representable-refused", "detail": f"box {enc_box(items)[:80]} refused with {st}"}
                expect.append(box_of(items))
            elif st == "ok":
                return {"key": cls + "-sent",
                        "detail": f"unrepresentable box ({cls}) {enc_box(items)[:80]} was written instead of refused; peer got {f['recv'][:160]}"}
            elif "partial-write" in st:
                return {"key": "refused-after-write", "detail": f"{cls}: {st}"}
        if f["recv"] != show_boxes(expect) or f["closed"] != "0":
            return {"key": "roundtrip", "detail": f"sent {show_boxes(expect)[:200]} cut {c['sizes'][:20]} received {f['recv'][:200]} closed={f['closed']}"}
        return None
    if op == "serialize":
        cls = _box_class(c["box"])
        if cls in (None, "empty-box"):
            # serialize alone may emit an empty box (AmpList rows); it must parse back to itself
            if out.startswith("!"):
                return {"key": "representable-refused", "detail": out}
            try:
                got = amp.parseString(unhx(out.replace("-", "")))
            except Exception as e:
                return {"key": "roundtrip", "detail": f"parseString of serialize() output raised {type(e).__name__}"}
            if [dict(b) for b in got] != [box_of(c["box"])]:
                return {"key": "roundtrip", "detail": f"serialize→parseString gave {show_boxes(got)[:200]}"}
        elif not out.startswith("!"):
            return {"key": cls + "-sent", "detail": f"serialize accepted an unrepresentable box ({cls})"}
        return None
    if op == "refuse":
        if c["bad"] in NEW_BAD:
            # the statement: refused when sent (any exception), nothing of it written, the stream around it intact
            m = out.split(" ")
            st = m[0][5:].split(",") if m and m[0].startswith("sent=") else []
            if len(st) != 3 or st[0] != "ok" or st[2] != "ok" or st[1] == "ok" or "partial-write" in st[1] \
                    or m[1:] != ["recv=6f6b:31;6f6b:32", "closed=0"]:
                return {"key": "nonbytes-" + c["bad"], "detail": out[:200]}
            return None
        if out != "sent=ok,TypeError,ok recv=6f6b:31;6f6b:32 closed=0":
            return {"key": "nonbytes-" + c["bad"], "detail": out[:200]}
        return None
    if op == "enc":
        return _enc_oracle(c["ty"], c["val"], out)
    if op == "seq":
        outs = out.split(" | ")
        if len(outs) != len(c["steps"]):
            return {"key": "seq-raises", "detail": out[:200]}
        for i, ((kind, x), o) in enumerate(zip(c["steps"], outs)):
            if kind == "enc":
                r = _enc_oracle(c["ty"], x, o)
            elif kind == "rt":
                r = _rt_oracle(c["ty"], x, o)
            else:
                r = None
            if r:
                r["detail"] = f"step {i} of a history on one {c['ty'][:40]} object: " + r["detail"]
                return r
        return None
    if op == "arg":
        kind = c["kind"]
        if kind in ("amplist", "command"):
            exp = canon_rows(amplist_objs(c["val"] if kind == "amplist" else [c["val"]]))
        else:
            exp = mk_other(kind, c["val"])[2]
        if isinstance(exp, tuple):      # DateTime: equal up to the minute resolution of the offset (either rounding)
            exp = out if out in exp else exp[0]
        if out != exp:
            return {"key": "arg-roundtrip-" + kind, "detail": f"{kind} {str(c['val'])[:100]}: got {out[:160]} expected {exp[:160]}"}
        return None
    return None


def _enc_oracle(ty, val, out):
    ok = representable(ty, val)
    cls = ty_class(ty)
    if out.startswith("!"):
        if ok:
            return {"key": "arg-refused-" + cls, "detail": f"{ty} value refused: {out}"}
        return None
    if not ok:
        return {"key": "arg-unrepresentable-encoded-" + cls, "detail": f"{ty} {str(val)[:80]} encoded as {out[:80]}"}
    try:
        back = mk_arg(ty).fromStringProto(unhx(out.replace("-", "")), None)
    except Exception as e:
        return {"key": "arg-roundtrip-" + cls, "detail": f"{ty} {str(val)[:80]}: decoding own encoding raised {type(e).__name__}"}
    if py_tokens(ty, back) != val_tokens(ty, expected_back(ty, val)):
        return {"key": "arg-roundtrip-" + cls, "detail": f"{ty} {str(val)[:80]} came back as {' '.join(py_tokens(ty, back))[:120]}"}
    return None


def _rt_oracle(ty, val, out):
    """`<hex> => <tokens>`: encoded and decoded by the SAME Argument object (after whatever it did before)"""
    ok = representable(ty, val)
    cls = ty_class(ty)
    if out.startswith("!"):
        if ok:
            return {"key": "arg-refused-" + cls, "detail": f"{ty} value refused: {out}"}
        return None
    if not ok:
        return {"key": "arg-unrepresentable-encoded-" + cls, "detail": f"{ty} {str(val)[:80]} encoded as {out[:80]}"}
    enc, _, back = out.partition(" => ")
    if back != " ".join(val_tokens(ty, expected_back(ty, val))):
        return {"key": "arg-roundtrip-" + cls, "detail": f"{ty} {str(val)[:80]} encoded as {enc[:60]} came back as {back[:120]}"}
    return None


def _lenclass(n):
    for b in (0, 1, 2, 16, 254, 255, 256, 4096, 65534, 65535, 65536):
        if n <= b:
            return b
    return 99999


def _tyname(ty):
    for i, sch in enumerate(SCHEMAS):
        ty = ty.replace(sch, f"A#{i}")
    return ty


def tag(c, out):
    op = c["op"]
    if op == "stream":
        ks = sorted({_lenclass(len(k) // 2) for b in c["boxes"] for k, v in b})
        vs = sorted({_lenclass(len(v) // 2) for b in c["boxes"] for k, v in b})
        sz = c["sizes"]
        style = "one" if not sz else "bytewise" if all(s == 1 for s in sz) else "empty-chunk" if 0 in sz else "cut"
        sent = out.split(" ")[0] if out else ""
        reuse = ":reuse" + "".join(sorted({str(h) for h in c["reuse"] if h})) if any(c.get("reuse") or []) else ""
        bulk = ":bulk" if sum(len(v) // 2 for b in c["boxes"] for k, v in b) > 131072 else ""
        return f"stream:n{min(len(c['boxes']), 3)}:k{ks[-1:] }:v{vs[-1:]}:{style}:{','.join(sorted(set(sent[5:].split(','))))}{reuse}{bulk}"
    if op == "feed":
        return f"feed:{len(c['chunks']) > 1}:{out[-8:]}:{min(out.count(';') + (0 if 'recv=.' in out else 1), 3)}"
    if op == "serialize":
        return "serialize:" + (out if out.startswith("!") else f"ok{min(len(c['box']), 3)}")
    if op == "enc":
        extra = ""
        if c["ty"] == "dt" and c["val"][7] is not None:
            o = c["val"][7]
            extra = ":" + ("neg" if o < 0 else "pos" if o > 0 else "utc") + ("" if o % US_MIN == 0 else "-submin" if abs(o) > US_MIN else "-under1min")
        if c["ty"] == "dec" and not out.startswith("!"):
            txt = unhx(out)
            extra = ":" + ("special" if txt.lstrip(b"-")[:1].isalpha() else ("E" if b"E" in txt else "") + ("." if b"." in txt else "") + ("neg" if txt[:1] == b"-" else ""))
        fl = c.get("flav") or {}
        extra += "".join(f":{k}={fl[k]}" for k in sorted(fl))
        return f"enc:{_tyname(c['ty'])}{extra}:" + (out if out.startswith("!") else f"ok{_lenclass(len(out) // 2)}")
    if op == "dec":
        return f"dec:{_tyname(c['ty'])}:" + (out if out.startswith("!") else "ok")
    if op == "refuse":
        return "refuse:" + c["bad"]
    if op == "seq":
        kinds = "".join(k[0] for k, _ in c["steps"][:4])
        outs = out.split(" | ")
        oc = "".join("!" if o.startswith("!") else "k" for o in outs[:4])
        fl = c.get("flav") or {}
        return f"seq:{_tyname(c['ty'])}:{kinds}:{oc}" + (":tz" if c.get("sharedtz") else "") + "".join(f":{k}={fl[k]}" for k in sorted(fl))
    return "arg:" + c["kind"] + (":raised" if out.startswith("!") else "")


def shrink(c):
    op = c["op"]
    if op == "stream":
        boxes, sizes = c["boxes"], c["sizes"]
        reuse = c.get("reuse")
        if reuse:
            for i in range(len(boxes)):
                yield {"op": op, "boxes": boxes[:i] + boxes[i + 1:], "sizes": sizes, "reuse": reuse[:i] + reuse[i + 1:]}
            if sizes:
                yield {"op": op, "boxes": boxes, "sizes": [], "reuse": reuse}
            for i in range(len(boxes)):
                if reuse[i] > 1:
                    yield {"op": op, "boxes": boxes, "sizes": sizes, "reuse": reuse[:i] + [1] + reuse[i + 1:]}
            return
        for i in range(len(boxes)):
            yield {"op": op, "boxes": boxes[:i] + boxes[i + 1:], "sizes": sizes}
        if sizes:
            yield {"op": op, "boxes": boxes, "sizes": []}
            for i in range(len(sizes)):
                yield {"op": op, "boxes": boxes, "sizes": sizes[:i] + sizes[i + 1:]}
        for i, b in enumerate(boxes):
            for j in range(len(b)):
                yield {"op": op, "boxes": boxes[:i] + [b[:j] + b[j + 1:]] + boxes[i + 1:], "sizes": sizes}
            for j, (k, v) in enumerate(b):
                for k2, v2 in ((k[: len(k) // 4 * 2], v), (k, v[: len(v) // 4 * 2]), (k[2:], v), (k, v[2:])):
                    if (k2, v2) != (k, v) and k2 not in [x[0] for x in b]:
                        yield {"op": op, "boxes": boxes[:i] + [b[:j] + [[k2, v2]] + b[j + 1:]] + boxes[i + 1:], "sizes": sizes}
    elif op == "feed":
        ch = c["chunks"]
        for i in range(len(ch)):
            yield {"op": op, "chunks": ch[:i] + ch[i + 1:]}
        for i in range(len(ch) - 1):
            yield {"op": op, "chunks": ch[:i] + [ch[i] + ch[i + 1]] + ch[i + 2:]}
        for i, x in enumerate(ch):
            if len(x) >= 2:
                yield {"op": op, "chunks": ch[:i] + [x[:-2]] + ch[i + 1:]}
                yield {"op": op, "chunks": ch[:i] + [x[2:]] + ch[i + 1:]}
    elif op == "serialize":
        b = c["box"]
        for j in range(len(b)):
            yield {"op": op, "box": b[:j] + b[j + 1:]}
    elif op == "dec":
        h = c["hex"]
        for i in range(0, len(h), 2):
            yield {"op": op, "ty": c["ty"], "hex": h[:i] + h[i + 2:]}
    elif op == "enc" and isinstance(c["val"], list) and pty(c["ty"])[0] in ("L", "A", "uni"):
        v = c["val"]
        for i in range(len(v)):
            yield dict(c, val=v[:i] + v[i + 1:])
        if c.get("flav"):
            for k in c["flav"]:
                yield dict(c, flav={a: b for a, b in c["flav"].items() if a != k})
    elif op == "seq":
        st = c["steps"]
        for i in range(len(st)):
            yield dict(c, steps=st[:i] + st[i + 1:])
        for i, (kind, x) in enumerate(st):
            if kind == "dec":
                for j in range(0, len(x), 2):
                    yield dict(c, steps=st[:i] + [[kind, x[:j] + x[j + 2:]]] + st[i + 1:])
            elif isinstance(x, list) and pty(c["ty"])[0] in ("L", "A", "uni"):
                for j in range(len(x)):
                    yield dict(c, steps=st[:i] + [[kind, x[:j] + x[j + 1:]]] + st[i + 1:])
        if c.get("flav"):
            yield {k: v for k, v in c.items() if k != "flav"}


def search(rng, tier, disagreeing):
    """Property-directed search: every single cut point and every pair-of-adjacent cut of the disagreeing streams,
    the corpus witnesses, then fresh random cases."""
    big = 0
    for c in disagreeing[:20]:
        if c["op"] == "stream":
            total = _ideal_wire_len(c["boxes"])
            extra = {k: c[k] for k in ("reuse",) if k in c}
            if total > 20000:
                # maximal values: each run costs ~0.1-1 s of model time; a handful of cuts for the first few streams only
                big += 1
                if big <= 3:
                    for p in (0, 1, 2, 3, total // 2, total - 2, total - 1):
                        yield dict({"op": "stream", "boxes": c["boxes"], "sizes": [p]}, **extra)
                continue
            for p in range(0, min(total, 600) + 1):
                yield dict({"op": "stream", "boxes": c["boxes"], "sizes": [p]}, **extra)
            if total <= 300:
                yield dict({"op": "stream", "boxes": c["boxes"], "sizes": [1] * total}, **extra)
        elif c["op"] == "feed":
            whole = "".join(c["chunks"])
            for p in range(0, min(len(whole), 1200) + 1, 2):
                yield {"op": "feed", "chunks": [whole[:p], whole[p:]]}
    yield from corpus()
    for _ in range(1500 if tier == "quick" else 20000):
        yield _gen_stream(rng)
