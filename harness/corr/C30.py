"""C30 — AMP wire format and argument types: real AmpBox/BinaryBoxProtocol/Argument classes vs the Lean
model (TwistedModel/Amp/Box.lean, Args.lean) + the round-trip / refusal oracle on the real code."""
import datetime
import decimal
import math
import struct

from twisted.internet.testing import StringTransport
from twisted.protocols import amp
from twisted.python import filepath

HEADLINE = "TwistedProps.C30.parse_serialize / stream_roundtrip / arg_roundtrip_partial"
RULE = ("streams of 0..5 boxes (0..6 items; key lengths around 0/1/255/256, value lengths around 0/255/256/65535/65536, "
        "bytes incl. NUL) sent through BinaryBoxProtocol.sendBox and cut at random / every / boundary±1 positions incl. "
        "empty chunks; raw malformed chunk sequences (over-long key prefix, truncation, data after lengthLimitExceeded); "
        "AmpBox.serialize alone; toString/fromString of Integer, String, Unicode, Boolean, ListOf (nested) on boundary "
        "values and on mutated/hostile encodings (int() leniency, overlong/surrogate/truncated UTF-8, broken list "
        "framing); non-bytes keys/values and Float/Decimal/DateTime/Path/AmpList/Command round trips are run on the real "
        "code only (oracle, no Lean model: differential testing); distinct = (op, size/boundary classes, cut style, "
        "outcome classes)")
ASSUMES = [
    "sender is a connected, unlocked BinaryBoxProtocol that is not buffering for STARTTLS; no protocol switch",
    "a box is a dict of bytes→bytes; str/None keys or values (TypeError) are checked by the oracle on the real code only",
    "Integer: |n| < 10**4300 (CPython's int↔str digit limit raises ValueError beyond it on both encode and decode)",
    "Float, Decimal, DateTime, Path, AmpList, Command.makeArguments/parseArguments are NOT modelled in Lean: their "
    "round trip is differential testing on the real code (repr(float)/float(), decimal.Decimal str/constructor, "
    "datetime arithmetic are CPython's)",
    "the code points of a str are < 0x110000 (Python invariant)",
]
TRUSTED = ["CPython struct.pack('!H'), bytes ordering (sorted on distinct bytes keys), int(bytes), str.encode/bytes.decode('utf-8')"]
MANIFEST = {
    "text": "Lean theorems (TwistedProps/C30.lean): for every list of boxes with distinct keys of 1..255 bytes and values "
            "≤ 65535 bytes and EVERY segmentation of the concatenated AmpBox.serialize output, a fresh BinaryBoxProtocol "
            "receives exactly those boxes (equal as dicts), never calls lengthLimitExceeded and keeps no leftover "
            "(parse_serialize, received_boxes_equal); serialize/sendBox accept exactly the representable boxes — empty key, "
            "over-long key/value, empty box are refused and nothing is written — so for ANY dicts sent and ANY cut the peer "
            "parses exactly the representable ones (stream_roundtrip). PARTIAL for argument types: fromString(toString v) = v "
            "is proved for Integer, String, Unicode(UTF-8), Boolean and ListOf of them to any depth (arg_roundtrip_partial); "
            "Float, Decimal, DateTime, Path, AmpList values and non-bytes refusals (TypeError) have no Lean model and are "
            "covered by differential testing on the real code only. Model tied to amp.py/basic.py by differential runs.",
    "note": "trusts Lean kernel, the hand-written model of AmpBox.serialize / IntNStringReceiver.dataReceived / "
            "BinaryBoxProtocol.proto_* / Argument subclasses (differentially tied), CPython struct/int/utf-8",
    "technique": "Lean 4 proof (incremental-parser continuation lemma + induction over chunks/boxes/items; digit and UTF-8 "
                 "arithmetic by omega) + differential tie + oracle",
    "design_ref": "DESIGN.md §7.6 C30",
}

# ----------------------------------------------------------------------------------------
# helpers

def hx(b):
    return bytes(b).hex()


def unhx(s):
    return bytes.fromhex(s)


def enc_box(items):
    """items: list of [khex, vhex] (a dict: distinct keys)"""
    if not items:
        return "-"
    return ",".join(f"{k}:{v}" for k, v in items)


def show_box(d):
    if not d:
        return "-"
    return ",".join(f"{hx(k)}:{hx(v)}" for k, v in sorted(d.items()))


def show_boxes(bs):
    return ";".join(show_box(b) for b in bs) if bs else "."


class Recorder:
    def __init__(self):
        self.boxes = []
        self.stopped = None

    def startReceivingBoxes(self, sender):
        pass

    def ampBoxReceived(self, box):
        self.boxes.append(dict(box))

    def stopReceivingBoxes(self, reason):
        self.stopped = reason


def receiver():
    rec = Recorder()
    p = amp.BinaryBoxProtocol(rec)
    t = StringTransport()
    p.makeConnection(t)
    return rec, p, t


def cut(wire, sizes):
    out = []
    for n in sizes:
        out.append(wire[:n])
        wire = wire[n:]
    out.append(wire)
    return out


def send_all(boxes):
    """boxes: list of python dicts → (wire, [status])"""
    rec, p, t = receiver()
    status = []
    for d in boxes:
        before = len(t.value())
        try:
            p.sendBox(amp.AmpBox(d) if not _has_str_key(d) else _rawbox(d))
            status.append("ok")
        except Exception as e:  # the refusal is the observable
            status.append(type(e).__name__)
            if len(t.value()) != before:
                status[-1] += "+partial-write"
    return t.value(), status


def _has_str_key(d):
    return any(not isinstance(k, bytes) for k in d)


def _rawbox(d):
    b = amp.AmpBox()
    for k, v in d.items():
        dict.__setitem__(b, k, v)
    return b


def recv_all(chunks):
    rec, p, t = receiver()
    for c in chunks:
        p.dataReceived(c)
    return rec.boxes, t.disconnecting


def box_of(items):
    return {unhx(k): unhx(v) for k, v in items}


# ----------------------------------------------------------------------------------------
# argument values (modelled types)

def mk_arg(ty):
    if ty == "int":
        return amp.Integer()
    if ty == "str":
        return amp.String()
    if ty == "uni":
        return amp.Unicode()
    if ty == "bool":
        return amp.Boolean()
    if ty.startswith("L"):
        return amp.ListOf(mk_arg(ty[1:]))
    raise ValueError(ty)


def to_py(ty, v):
    if ty == "int":
        return int(v)
    if ty == "str":
        return unhx(v)
    if ty == "uni":
        return "".join(chr(c) for c in v)
    if ty == "bool":
        return bool(v)
    return [to_py(ty[1:], x) for x in v]


def val_tokens(ty, v):
    """JSON case value → driver tokens"""
    if ty == "int":
        return ["i" + str(int(v))]
    if ty == "str":
        return ["s" + v]
    if ty == "uni":
        return ["u" + ",".join(str(c) for c in v)]
    if ty == "bool":
        return ["b1" if v else "b0"]
    out = ["["]
    for x in v:
        out += val_tokens(ty[1:], x)
    return out + ["]"]


def py_tokens(ty, o):
    """decoded python object → tokens (type-strict: a wrong Python type is visible)"""
    if ty == "int":
        if type(o) is not int:
            return ["?" + type(o).__name__]
        return ["i" + str(o)]
    if ty == "str":
        if type(o) is not bytes:
            return ["?" + type(o).__name__]
        return ["s" + hx(o)]
    if ty == "uni":
        if type(o) is not str:
            return ["?" + type(o).__name__]
        return ["u" + ",".join(str(ord(c)) for c in o)]
    if ty == "bool":
        if type(o) is not bool:
            return ["?" + type(o).__name__]
        return ["b1" if o else "b0"]
    if type(o) is not list:
        return ["?" + type(o).__name__]
    out = ["["]
    for x in o:
        out += py_tokens(ty[1:], x)
    return out + ["]"]


def representable(ty, v):
    """is toString expected to succeed? (the statement's own precondition for a value)"""
    if ty == "int":
        return len(str(abs(int(v)))) <= 4300
    if ty == "uni":
        return all(not (0xD800 <= c < 0xE000) for c in v)
    if ty.startswith("L"):
        if not all(representable(ty[1:], x) for x in v):
            return False
        return all(_enc_len(ty[1:], x) <= 65535 for x in v)
    return True


def _enc_len(ty, v):
    """length of the wire form computed independently of twisted"""
    if ty == "int":
        return len(str(int(v)))
    if ty == "str":
        return len(v) // 2
    if ty == "uni":
        return sum(1 if c < 0x80 else 2 if c < 0x800 else 3 if c < 0x10000 else 4 for c in v)
    if ty == "bool":
        return 4 if v else 5
    return sum(2 + _enc_len(ty[1:], x) for x in v)


# ----------------------------------------------------------------------------------------
# unmodelled argument types: canonical forms for the oracle

def canon_float(f):
    if type(f) is not float:
        return "?" + type(f).__name__
    if math.isnan(f):
        return "nan"
    return struct.pack(">d", f).hex()


def canon_decimal(d):
    if type(d) is not decimal.Decimal:
        return "?" + type(d).__name__
    s, digits, e = d.as_tuple()
    return f"{s}/{''.join(map(str, digits))}/{e}"


def canon_dt(d, minute="exact"):
    """wall-clock fields @ utc offset in seconds (whole minutes: floor / truncation for the expectation)"""
    off = d.utcoffset()
    secs = off.days * 86400 + off.seconds          # floor of the offset to whole seconds (microseconds >= 0)
    if minute == "floor":
        secs = (secs // 60) * 60
    elif minute == "trunc":
        total_us = secs * 10**6 + off.microseconds
        secs = int(abs(total_us) // (60 * 10**6)) * 60 * (1 if total_us >= 0 else -1)
    elif off.microseconds:
        return "?sub-second-offset"
    return f"{d.year}-{d.month}-{d.day}T{d.hour}:{d.minute}:{d.second}.{d.microsecond}@{secs}"


def mk_dt(v):
    y, mo, d, h, mi, s, us, offs, offus = v
    tz = datetime.timezone(datetime.timedelta(seconds=offs, microseconds=offus))
    return datetime.datetime(y, mo, d, h, mi, s, us, tzinfo=tz)


def mk_other(kind, v):
    """→ (Argument, python value, expected canonical form)"""
    if kind == "float":
        f = struct.unpack(">d", unhx(v))[0]
        return amp.Float(), f, canon_float(f)
    if kind == "Lfloat":
        fs = [struct.unpack(">d", unhx(x))[0] for x in v]
        return amp.ListOf(amp.Float()), fs, "[" + " ".join(canon_float(f) for f in fs) + "]"
    if kind == "decimal":
        d = decimal.Decimal(v)
        return amp.Decimal(), d, canon_decimal(d)
    if kind == "datetime":
        d = mk_dt(v)
        return amp.DateTime(), d, (canon_dt(d, "floor"), canon_dt(d, "trunc"))
    if kind == "path":
        p = filepath.FilePath("".join(chr(c) for c in v))
        return amp.Path(), p, "p" + ",".join(str(ord(c)) for c in p.asTextMode().path)
    raise ValueError(kind)


def canon_other(kind, o):
    if kind == "float":
        return canon_float(o)
    if kind == "Lfloat":
        return "[" + " ".join(canon_float(f) for f in o) + "]"
    if kind == "decimal":
        return canon_decimal(o)
    if kind == "datetime":
        return canon_dt(o)
    if kind == "path":
        if not isinstance(o, filepath.FilePath):
            return "?" + type(o).__name__
        return "p" + ",".join(str(ord(c)) for c in o.asTextMode().path)
    raise ValueError(kind)


AMPLIST_SCHEMA = [(b"n", "int", False), (b"s", "str", False), (b"u", "uni", True), (b"flag", "bool", True), (b"l", "Lint", True)]


def amplist_arg():
    return amp.AmpList([(name, _opt(mk_arg(ty), opt)) for name, ty, opt in AMPLIST_SCHEMA])


def _opt(a, opt):
    a.optional = opt
    return a


def amplist_objs(rows):
    out = []
    for row in rows:
        d = {}
        for name, ty, opt in AMPLIST_SCHEMA:
            key = name.decode()
            if key in row and row[key] is not None:
                d[key] = to_py(ty, row[key])
            elif opt:
                d[key] = None
        out.append(d)
    return out


_MISSING = object()


def canon_rows(objs):
    out = []
    for d in objs:
        parts = []
        for name, ty, opt in AMPLIST_SCHEMA:
            key = name.decode()
            o = d.get(key, _MISSING)
            parts.append(key + "=" + ("MISSING" if o is _MISSING else "None" if o is None else " ".join(py_tokens(ty, o))))
        out.append("{" + " ".join(parts) + "}")
    return "[" + " ".join(out) + "]"


class _Cmd(amp.Command):
    arguments = [(b"n", amp.Integer()), (b"s", amp.String()), (b"u", amp.Unicode(optional=True)),
                 (b"flag", amp.Boolean(optional=True)), (b"l", amp.ListOf(amp.Integer(), optional=True))]


# ----------------------------------------------------------------------------------------
# interface

def corpus():
    return [
        # the known witnesses: empty key == wire terminator; empty box
        {"op": "stream", "boxes": [[["", "78"], ["61", "31"]], [["6b", "76"]]], "sizes": []},
        {"op": "stream", "boxes": [[]], "sizes": []},
        {"op": "stream", "boxes": [[["61", "31"]], [], [["62", ""]]], "sizes": [3]},
        {"op": "serialize", "box": [["", ""]]},
        # boundaries
        {"op": "stream", "boxes": [[["61" * 255, "62" * 65535]], [["00", ""]]], "sizes": [1, 1, 255, 2, 65535]},
        {"op": "stream", "boxes": [[["61" * 256, "62"]], [["61", "62" * 65536]], [["6b", "76"]]], "sizes": []},
        {"op": "stream", "boxes": [[["62", "32"], ["61", "31"], ["6162", ""]]], "sizes": [1] * 24},
        {"op": "feed", "chunks": ["0001", "61", "0100", "00"]},
        {"op": "feed", "chunks": ["000161000162", "0000", "0100", "0000"]},
        {"op": "feed", "chunks": ["0001610001620000" "0100", "0001630001640000"]},
        {"op": "feed", "chunks": ["000161ffff" + "00" * 10, ""]},
        {"op": "feed", "chunks": ["0001610001310001610001320000"]},
        {"op": "refuse", "bad": "strkey", "box": [["61", "31"]]},
        {"op": "refuse", "bad": "strval", "box": [["61", "31"]]},
        {"op": "refuse", "bad": "noneval", "box": []},
        {"op": "enc", "ty": "int", "val": "-0"},
        {"op": "enc", "ty": "int", "val": str(-(10 ** 40))},
        {"op": "enc", "ty": "uni", "val": [0x7F, 0x80, 0x7FF, 0x800, 0xD7FF, 0xE000, 0xFFFF, 0x10000, 0x10FFFF, 0]},
        {"op": "enc", "ty": "uni", "val": [0x61, 0xD800]},
        {"op": "enc", "ty": "LLint", "val": [["1", "-2"], [], ["300"]]},
        {"op": "enc", "ty": "Lstr", "val": ["61" * 65535, ""]},
        {"op": "enc", "ty": "Lstr", "val": ["61" * 65536]},
        {"op": "dec", "ty": "int", "hex": hx(b" +1_000\n")},
        {"op": "dec", "ty": "int", "hex": hx(b"1__0")},
        {"op": "dec", "ty": "int", "hex": hx(b"- 1")},
        {"op": "dec", "ty": "uni", "hex": "c080"},
        {"op": "dec", "ty": "uni", "hex": "eda080"},
        {"op": "dec", "ty": "uni", "hex": "f4908080"},
        {"op": "dec", "ty": "uni", "hex": "f48fbfbf"},
        {"op": "dec", "ty": "bool", "hex": hx(b"true")},
        {"op": "dec", "ty": "Lint", "hex": "000131000232"},
        {"op": "arg", "kind": "float", "val": struct.pack(">d", -0.0).hex()},
        {"op": "arg", "kind": "float", "val": "7ff8000000000000"},
        {"op": "arg", "kind": "decimal", "val": "-sNaN123"},
        {"op": "arg", "kind": "datetime", "val": [2012, 1, 23, 12, 34, 56, 54321, -(3600 + 30), 0]},
        {"op": "arg", "kind": "amplist", "val": [{"n": "1", "s": "", "u": None, "flag": None, "l": None}]},
        # found by this check: offset -23:59:59(.000001) was floored to -24:00, which fromString cannot decode
        {"op": "arg", "kind": "datetime", "val": [2, 12, 25, 23, 27, 53, 1, -86399, 1]},
        {"op": "arg", "kind": "datetime", "val": [2012, 6, 1, 0, 0, 0, 0, -86399, 0]},
        {"op": "arg", "kind": "datetime", "val": [2012, 6, 1, 0, 0, 0, 0, -30, 0]},
        {"op": "arg", "kind": "datetime", "val": [2012, 6, 1, 0, 0, 0, 0, 86399, 999999]},
    ]


KEY_LENS = [1, 1, 1, 2, 3, 5, 8, 17, 254, 255]
BAD_KEY_LENS = [0, 0, 256, 300]
VAL_LENS = [0, 0, 1, 1, 2, 3, 10, 40, 255, 256, 257]
BIG_VAL_LENS = [65534, 65535, 4096]
BAD_VAL_LENS = [65536, 70000]


def _bytes(rng, n):
    if n > 512:
        pat = bytes(rng.randrange(256) for _ in range(7))
        return (pat * (n // 7 + 1))[:n]
    r = rng.random()
    if r < 0.2:
        return bytes([rng.choice([0, 0xFF, 0x61])]) * n
    return bytes(rng.randrange(256) for _ in range(n))


def _gen_box(rng, bad_p, big_p):
    items = {}
    n = rng.choice([0] + [1] * 4 + [2] * 4 + [3] * 3 + [4, 5, 6]) if rng.random() < 0.97 else 0
    if n == 0 and rng.random() > bad_p * 3:
        n = 1
    for _ in range(n):
        kl = rng.choice(BAD_KEY_LENS) if rng.random() < bad_p else rng.choice(KEY_LENS)
        r = rng.random()
        vl = rng.choice(BAD_VAL_LENS) if r < bad_p / 2 else rng.choice(BIG_VAL_LENS) if r < bad_p / 2 + big_p else rng.choice(VAL_LENS)
        k = _bytes(rng, kl)
        if items and rng.random() < 0.3 and kl > 0:      # keys sharing prefixes: exercises the sort
            base = rng.choice(list(items))
            k = (base + k)[:max(1, kl)] if rng.random() < 0.5 else base[:max(1, len(base) - 1)] + k[:1]
        items[k] = _bytes(rng, vl)
    its = list(items.items())
    rng.shuffle(its)
    return [[hx(k), hx(v)] for k, v in its]


def _ideal_wire_len(boxes):
    n = 0
    for items in boxes:
        ok = bool(items) and all(1 <= len(k) // 2 <= 255 and len(v) // 2 <= 65535 for k, v in items)
        if ok:
            n += sum(4 + len(k) // 2 + len(v) // 2 for k, v in items) + 2
    return n


def _gen_sizes(rng, total, boxes):
    style = rng.random()
    if total == 0:
        return rng.choice([[], [0], [0, 0]])
    if style < 0.15:
        return []
    if style < 0.35 and total <= 400:
        return [1] * total
    if style < 0.5:
        # cuts at item/box boundaries ±1
        pts, off = set(), 0
        for items in boxes:
            ok = bool(items) and all(1 <= len(k) // 2 <= 255 and len(v) // 2 <= 65535 for k, v in items)
            if not ok:
                continue
            for k, v in sorted(items):
                for piece in (2, len(k) // 2, 2, len(v) // 2):
                    off += piece
                    pts.update({off - 1, off, off + 1})
            off += 2
            pts.update({off - 1, off})
        pts = sorted(p for p in pts if 0 < p < total and rng.random() < 0.5)
        sizes, last = [], 0
        for p in pts:
            sizes.append(p - last)
            last = p
        return sizes
    sizes, left = [], total
    while left > 0 and len(sizes) < 60:
        n = rng.choice([0, 1, 1, 2, 3, 5, 7, 16, 100, 255, 256, 1000, left])
        n = min(n, left)
        sizes.append(n)
        left -= n
    return sizes


def _gen_stream(rng):
    bad_p = rng.choice([0, 0, 0.05, 0.15])
    big_p = rng.choice([0, 0, 0, 0.03])
    boxes = [_gen_box(rng, bad_p, big_p) for _ in range(rng.choice([0] + [1, 1, 2, 2, 3, 4, 5] * 5))]
    return {"op": "stream", "boxes": boxes, "sizes": _gen_sizes(rng, _ideal_wire_len(boxes), boxes)}


def _gen_feed(rng):
    boxes = [_gen_box(rng, 0, 0) for _ in range(rng.randint(1, 3))]
    wire = bytearray(b"".join(amp.AmpBox(box_of(b)).serialize() if b else b"\x00\x00" for b in boxes))
    for _ in range(rng.choice([0, 1, 1, 2])):
        r = rng.random()
        pos = rng.randrange(len(wire) + 1)
        if r < 0.35:
            wire[pos:pos] = rng.choice([b"\x01\x00", b"\x01\x00\x00\x00", b"\xff\xff", b"\x00\x00", b"\x00\xff" + b"k" * 255])
        elif r < 0.6 and wire:
            wire[pos % len(wire)] = rng.choice([0, 1, 2, 0xFF, rng.randrange(256)])
        elif r < 0.8:
            del wire[pos:]
        else:
            wire += bytes(rng.randrange(4) for _ in range(rng.randint(1, 12)))
    if rng.random() < 0.4:   # data after a possible lengthLimitExceeded
        wire += b"".join(amp.AmpBox(box_of(_gen_box(rng, 0, 0)) or {b"z": b""}).serialize() for _ in range(rng.randint(1, 2)))
    wire = bytes(wire)
    chunks = cut(wire, _gen_sizes(rng, len(wire), []))
    return {"op": "feed", "chunks": [hx(c) for c in chunks]}


INTS = [0, 1, -1, 9, 10, -10, 99, 100, 255, 256, 65535, 65536, 2 ** 31, -(2 ** 31), 2 ** 63, 2 ** 64, -(2 ** 64) - 1, 10 ** 18, 10 ** 19 - 1]
CPS = [0, 0x41, 0x7F, 0x80, 0xFF, 0x7FF, 0x800, 0xFFF, 0x1000, 0xD7FF, 0xE000, 0xFFFD, 0xFFFF, 0x10000, 0x3FFFF, 0x40000,
       0xFFFFF, 0x100000, 0x10FFFF, 0x20AC, 0x1F600, 0x0A, 0x20]


def _gen_val(rng, ty, depth=0):
    if ty == "int":
        r = rng.random()
        if r < 0.4:
            return str(rng.choice(INTS))
        if r < 0.5:
            e = rng.choice([1, 2, 5, 20, 100, 1000, 4299])
            return str(rng.choice([1, -1]) * (10 ** e + rng.choice([-1, 0, 1])))
        return str(rng.choice([1, -1]) * rng.randrange(10 ** rng.choice([1, 3, 9, 30])))
    if ty == "str":
        n = rng.choice([0, 0, 1, 2, 5, 30]) if rng.random() < 0.97 else rng.choice([65535, 65536, 65533]) if depth else 300
        return hx(_bytes(rng, n))
    if ty == "uni":
        n = rng.choice([0, 1, 1, 2, 3, 6, 12])
        out = [rng.choice(CPS) if rng.random() < 0.8 else rng.randrange(0x110000) for _ in range(n)]
        if rng.random() < 0.06 and out:
            out[rng.randrange(len(out))] = rng.choice([0xD800, 0xDBFF, 0xDC00, 0xDFFF])
        return out
    if ty == "bool":
        return rng.random() < 0.5
    n = rng.choice([0, 1, 1, 2, 3, 5]) if depth < 2 else rng.choice([0, 1, 2])
    return [_gen_val(rng, ty[1:], depth + 1) for _ in range(n)]


TYPES = ["int", "str", "uni", "bool", "Lint", "Lstr", "Luni", "Lbool", "LLint", "LLuni", "LLLstr"]


def _mutate(rng, b):
    b = bytearray(b)
    for _ in range(rng.choice([1, 1, 2])):
        r = rng.random()
        pos = rng.randrange(len(b) + 1)
        if r < 0.3 and b:
            b[pos % len(b)] = rng.choice([0, 0x80, 0xBF, 0xC0, 0xC1, 0xE0, 0xED, 0xF0, 0xF4, 0xF5, 0xFF, 0x20, 0x5F, 0x2D, 0x2B, rng.randrange(256)])
        elif r < 0.55:
            b[pos:pos] = rng.choice([b" ", b"_", b"\t", b"\x0b", b"\x0c", b"\r\n", b"+", b"-", b"0", b"\x00", b"\x80", b"\x1c",
                                     b"\xc0\x80", b"\xed\xa0\x80", b"\xf4\x90\x80\x80", b"\xe0\x9f\xbf", b"\xf0\x8f\xbf\xbf",
                                     b"\x00\x00", b"\xff\xff", b"\x00\x01"])
        elif r < 0.8 and b:
            del b[pos % len(b)]
        else:
            del b[pos:]
    return bytes(b)


def _gen_dec(rng):
    ty = rng.choice(["int"] * 4 + ["uni"] * 4 + ["bool", "Lint", "Lint", "Luni", "Lbool", "LLint", "Lstr", "str"])
    v = _gen_val(rng, ty)
    try:
        raw = mk_arg(ty).toString(to_py(ty, v))
    except Exception:
        raw = b""
    if ty == "int" and rng.random() < 0.5:
        body = rng.choice([b"0", b"00", b"007", b"1_0", b"1_000_000", b"_1", b"1_", b"1__0", b"", b"12a", b"0x10", b"1.0", b"1e3", b"\xd9\xa3"])
        raw = rng.choice([b"", b" ", b"\t\n", b"\x0b\x0c\r", b"\x1c"]) + rng.choice([b"", b"", b"+", b"-", b"+-", b"- "]) + body + rng.choice([b"", b"", b" ", b"\n\n", b"\x00", b" x"])
    elif ty == "bool" and rng.random() < 0.7:
        raw = rng.choice([b"True", b"False", b"true", b"TRUE", b"1", b"0", b"", b"True ", b"Fals", b"Falsee"])
    elif rng.random() < 0.6:
        raw = _mutate(rng, raw)
    if len(raw) > 70000:
        raw = raw[:70000]
    return {"op": "dec", "ty": ty, "hex": hx(raw)}


DECIMALS = ["0", "-0", "1", "-1", "1.0", "10", "1E+2", "1E-1", "1.5E+2", "0E+3", "0.000", "Infinity", "-Infinity", "NaN", "-NaN",
            "sNaN", "-sNaN", "NaN123", "sNaN9", "1E+999999", "1E-999999", "123456789012345678901234567890.123456789", "9.999999999999999999999999999E+6144"]


def _gen_other(rng):
    kind = rng.choice(["float", "float", "Lfloat", "decimal", "decimal", "datetime", "datetime", "path", "amplist", "amplist", "command"])
    if kind == "float":
        r = rng.random()
        if r < 0.4:
            f = rng.choice([0.0, -0.0, 1.0, -1.5, float("inf"), float("-inf"), float("nan"), 5e-324, 2.2250738585072014e-308,
                            1.7976931348623157e308, 0.1, 1 / 3, 1e22, 1e23, 123456789.123456789, 2.0 ** 53, 2.0 ** 53 + 2])
            v = struct.pack(">d", f).hex()
        else:
            v = bytes(rng.randrange(256) for _ in range(8)).hex()
        return {"op": "arg", "kind": kind, "val": v}
    if kind == "Lfloat":
        return {"op": "arg", "kind": kind, "val": [bytes(rng.randrange(256) for _ in range(8)).hex() for _ in range(rng.randint(0, 4))]}
    if kind == "decimal":
        if rng.random() < 0.5:
            v = rng.choice(DECIMALS)
        else:
            digits = "".join(rng.choice("0123456789") for _ in range(rng.randint(1, 40)))
            v = rng.choice(["", "-"]) + digits
            if rng.random() < 0.5:
                p = rng.randrange(len(digits) + 1)
                v = rng.choice(["", "-"]) + digits[:p] + "." + digits[p:]
                if v.strip("-") == ".":
                    v = "0"
            if rng.random() < 0.5:
                v += "E" + rng.choice(["+", "-"]) + str(rng.choice([0, 1, 2, 28, 400, 6144, 999999]))
        return {"op": "arg", "kind": kind, "val": v}
    if kind == "datetime":
        y = rng.choice([1, 2, 1000, 1970, 2012, 9999, rng.randint(1, 9999)])
        mo, d = rng.randint(1, 12), rng.randint(1, 28)
        offs = rng.choice([0, 60, -60, 3600, -3600, 5 * 3600 + 30 * 60, -(9 * 3600 + 30 * 60), 86399, -86399, 86340, -86340, 30, -30, 59, -59,
                           rng.randint(-86399, 86399), 60 * rng.randint(-1439, 1439)])
        offus = rng.choice([0, 0, 0, 1, 999999])
        if offs == 86399 and offus:
            offus = 0
        return {"op": "arg", "kind": kind, "val": [y, mo, d, rng.choice([0, 23, rng.randint(0, 23)]), rng.choice([0, 59, rng.randint(0, 59)]),
                                                   rng.choice([0, 59, rng.randint(0, 59)]), rng.choice([0, 1, 999999, rng.randrange(10 ** 6)]), offs, offus]}
    if kind == "path":
        segs = ["/"] + [rng.choice(["a", "tmp", "é", "€uro", "x y", "\U0001F600", "..", ".", "b.c"]) for _ in range(rng.randint(0, 4))]
        return {"op": "arg", "kind": kind, "val": [ord(c) for c in "/".join(segs).replace("//", "/")]}
    rows = []
    for _ in range(rng.choice([0, 1, 1, 2, 3]) if kind == "amplist" else 1):
        row = {"n": _gen_val(rng, "int"), "s": _gen_val(rng, "str")}
        for key, ty in (("u", "uni"), ("flag", "bool"), ("l", "Lint")):
            row[key] = None if rng.random() < 0.4 else _gen_val(rng, ty, 1)
        if not representable("int", row["n"]):
            row["n"] = "7"
        if row["u"] is not None:
            row["u"] = [c for c in row["u"] if not 0xD800 <= c < 0xE000]
        if row["l"] is not None:
            row["l"] = [x for x in row["l"] if representable("int", x)]
        rows.append(row)
    if kind == "command":
        return {"op": "arg", "kind": kind, "val": rows[0], "sizes": rng.choice([[], [1] * 30, [2, 3, 5, 7]])}
    return {"op": "arg", "kind": kind, "val": rows}


def _gen_refuse(rng):
    return {"op": "refuse", "bad": rng.choice(["strkey", "strval", "noneval", "intkey", "strkey-only"]), "box": _gen_box(rng, 0, 0)[:3]}


def generate(rng, tier):
    n = 2600 if tier == "quick" else 60000
    for _ in range(n):
        r = rng.random()
        if r < 0.40:
            yield _gen_stream(rng)
        elif r < 0.52:
            yield _gen_feed(rng)
        elif r < 0.57:
            yield {"op": "serialize", "box": _gen_box(rng, 0.1, 0.01)}
        elif r < 0.72:
            ty = rng.choice(TYPES)
            yield {"op": "enc", "ty": ty, "val": _gen_val(rng, ty)}
        elif r < 0.87:
            yield _gen_dec(rng)
        elif r < 0.97:
            yield _gen_other(rng)
        else:
            yield _gen_refuse(rng)


def model_line(c):
    op = c["op"]
    if op == "stream":
        bs = ";".join(enc_box(b) for b in c["boxes"]) if c["boxes"] else "."
        sizes = ",".join(str(n) for n in c["sizes"]) if c["sizes"] else "-"
        return f"stream {bs} {sizes}"
    if op == "feed":
        return "feed " + " ".join(x or "-" for x in c["chunks"])
    if op == "serialize":
        return "serialize " + enc_box(c["box"])
    if op == "enc":
        return f"enc {c['ty']} " + " ".join(val_tokens(c["ty"], c["val"]))
    if op == "dec":
        return f"dec {c['ty']} " + (c["hex"] or "-")
    return "unmodelled"


def _bad_box(c):
    d = box_of(c["box"])
    bad = c["bad"]
    if bad == "strkey":
        d["key"] = b"v"
    elif bad == "strkey-only":
        d = {"key": b"v"}
    elif bad == "strval":
        d[b"k"] = "text"
    elif bad == "noneval":
        d[b"k"] = None
    elif bad == "intkey":
        d[5] = b"v"
    return d


def run_impl(c):
    op = c["op"]
    if op == "stream":
        wire, status = send_all([box_of(b) for b in c["boxes"]])
        boxes, closed = recv_all(cut(wire, c["sizes"]))
        return f"sent={','.join(status) if status else '.'} recv={show_boxes(boxes)} closed={int(bool(closed))}"
    if op == "feed":
        boxes, closed = recv_all([unhx(x) for x in c["chunks"]])
        return f"recv={show_boxes(boxes)} closed={int(bool(closed))}"
    if op == "serialize":
        try:
            return hx(amp.AmpBox(box_of(c["box"])).serialize()) or "-"
        except (amp.AmpError, ValueError, TypeError) as e:
            return "!raised " + type(e).__name__
    if op == "enc":
        arg = mk_arg(c["ty"])
        try:
            return hx(arg.toString(to_py(c["ty"], c["val"]))) or "-"
        except (ValueError, TypeError, struct.error) as e:
            return "!raised " + type(e).__name__
    if op == "dec":
        arg = mk_arg(c["ty"])
        try:
            return " ".join(py_tokens(c["ty"], arg.fromString(unhx(c["hex"]))))
        except (ValueError, TypeError) as e:
            return "!raised " + type(e).__name__
    if op == "refuse":
        wire, status = send_all([{b"ok": b"1"}, _bad_box(c), {b"ok": b"2"}])
        boxes, closed = recv_all([wire])
        return f"sent={','.join(status)} recv={show_boxes(boxes)} closed={int(bool(closed))}"
    if op == "arg":
        kind = c["kind"]
        if kind == "amplist":
            arg = amplist_arg()
            objs = amplist_objs(c["val"])
            return canon_rows(arg.fromStringProto(arg.toStringProto(objs, None), None))
        if kind == "command":
            objs = amplist_objs([c["val"]])[0]
            box = _Cmd.makeArguments(objs, None)
            wire, status = send_all([dict(box)])
            boxes, closed = recv_all(cut(wire, c.get("sizes", [])))
            if status != ["ok"] or len(boxes) != 1:
                return f"sent={status} boxes={len(boxes)}"
            return canon_rows([_Cmd.parseArguments(amp.AmpBox(boxes[0]), None)])
        arg, val, _ = mk_other(kind, c["val"])
        return canon_other(kind, arg.fromString(arg.toString(val)))
    raise ValueError(op)


def compare(c, impl_out, model_out):
    if c["op"] in ("refuse", "arg"):
        return model_out == "unmodelled"
    return impl_out == model_out


def _box_class(items):
    """None if representable, else the class of what makes it unrepresentable"""
    if not items:
        return "empty-box"
    for k, v in items:
        if len(k) == 0:
            return "empty-key"
    for k, v in items:
        if len(k) // 2 > 255:
            return "long-key"
        if len(v) // 2 > 65535:
            return "long-value"
    return None


def oracle(c, out):
    """The property on the implementation's behaviour, computed without the Lean model."""
    op = c["op"]
    if op == "stream":
        if out.startswith("!"):
            return {"key": "stream-raises", "detail": out}
        f = dict(p.split("=", 1) for p in out.split(" "))
        status = f["sent"].split(",") if f["sent"] != "." else []
        expect = []
        for items, st in zip(c["boxes"], status):
            cls = _box_class(items)
            if cls is None:
                if st != "ok":
                    return {"key": "representable-refused", "detail": f"box {enc_box(items)[:80]} refused with {st}"}
                expect.append(box_of(items))
            elif st == "ok":
                return {"key": cls + "-sent",
                        "detail": f"unrepresentable box ({cls}) {enc_box(items)[:80]} was written instead of refused; peer got {f['recv'][:160]}"}
            elif "partial-write" in st:
                return {"key": "refused-after-write", "detail": f"{cls}: {st}"}
        if f["recv"] != show_boxes(expect) or f["closed"] != "0":
            return {"key": "roundtrip", "detail": f"sent {show_boxes(expect)[:200]} cut {c['sizes'][:20]} received {f['recv'][:200]} closed={f['closed']}"}
        return None
    if op == "serialize":
        cls = _box_class(c["box"])
        if cls in (None, "empty-box"):
            # serialize alone may emit an empty box (AmpList rows); it must parse back to itself
            if out.startswith("!"):
                return {"key": "representable-refused", "detail": out}
            try:
                got = amp.parseString(unhx(out.replace("-", "")))
            except Exception as e:
                return {"key": "roundtrip", "detail": f"parseString of serialize() output raised {type(e).__name__}"}
            if [dict(b) for b in got] != [box_of(c["box"])]:
                return {"key": "roundtrip", "detail": f"serialize→parseString gave {show_boxes(got)[:200]}"}
        elif not out.startswith("!"):
            return {"key": cls + "-sent", "detail": f"serialize accepted an unrepresentable box ({cls})"}
        return None
    if op == "refuse":
        if out != "sent=ok,TypeError,ok recv=6f6b:31;6f6b:32 closed=0":
            return {"key": "nonbytes-" + c["bad"], "detail": out[:200]}
        return None
    if op == "enc":
        ty = c["ty"]
        ok = representable(ty, c["val"])
        if out.startswith("!"):
            if ok:
                return {"key": "arg-refused-" + ty.lstrip("L"), "detail": f"{ty} value refused: {out}"}
            return None
        if not ok:
            return {"key": "arg-unrepresentable-encoded-" + ty.lstrip("L"), "detail": f"{ty} {str(c['val'])[:80]} encoded as {out[:80]}"}
        try:
            back = mk_arg(ty).fromString(unhx(out.replace("-", "")))
        except Exception as e:
            return {"key": "arg-roundtrip-" + ty.lstrip("L"), "detail": f"decoding own encoding raised {type(e).__name__}"}
        if py_tokens(ty, back) != val_tokens(ty, c["val"]):
            return {"key": "arg-roundtrip-" + ty.lstrip("L"), "detail": f"{ty} {str(c['val'])[:80]} came back as {' '.join(py_tokens(ty, back))[:120]}"}
        return None
    if op == "arg":
        kind = c["kind"]
        if kind in ("amplist", "command"):
            exp = canon_rows(amplist_objs(c["val"] if kind == "amplist" else [c["val"]]))
        else:
            exp = mk_other(kind, c["val"])[2]
        if isinstance(exp, tuple):      # DateTime: equal up to the minute resolution of the offset (either rounding)
            exp = out if out in exp else exp[0]
        if out != exp:
            return {"key": "arg-roundtrip-" + kind, "detail": f"{kind} {str(c['val'])[:100]}: got {out[:160]} expected {exp[:160]}"}
        return None
    return None


def _lenclass(n):
    for b in (0, 1, 2, 16, 254, 255, 256, 4096, 65534, 65535, 65536):
        if n <= b:
            return b
    return 99999


def tag(c, out):
    op = c["op"]
    if op == "stream":
        ks = sorted({_lenclass(len(k) // 2) for b in c["boxes"] for k, v in b})
        vs = sorted({_lenclass(len(v) // 2) for b in c["boxes"] for k, v in b})
        sz = c["sizes"]
        style = "one" if not sz else "bytewise" if all(s == 1 for s in sz) else "empty-chunk" if 0 in sz else "cut"
        sent = out.split(" ")[0] if out else ""
        return f"stream:n{min(len(c['boxes']), 3)}:k{ks[-1:] }:v{vs[-1:]}:{style}:{','.join(sorted(set(sent[5:].split(','))))}"
    if op == "feed":
        return f"feed:{len(c['chunks']) > 1}:{out[-8:]}:{min(out.count(';') + (0 if 'recv=.' in out else 1), 3)}"
    if op == "serialize":
        return "serialize:" + (out if out.startswith("!") else f"ok{min(len(c['box']), 3)}")
    if op == "enc":
        return f"enc:{c['ty']}:" + (out if out.startswith("!") else f"ok{_lenclass(len(out) // 2)}")
    if op == "dec":
        return f"dec:{c['ty']}:" + (out if out.startswith("!") else "ok")
    if op == "refuse":
        return "refuse:" + c["bad"]
    return "arg:" + c["kind"] + (":raised" if out.startswith("!") else "")


def shrink(c):
    op = c["op"]
    if op == "stream":
        boxes, sizes = c["boxes"], c["sizes"]
        for i in range(len(boxes)):
            yield {"op": op, "boxes": boxes[:i] + boxes[i + 1:], "sizes": sizes}
        if sizes:
            yield {"op": op, "boxes": boxes, "sizes": []}
            for i in range(len(sizes)):
                yield {"op": op, "boxes": boxes, "sizes": sizes[:i] + sizes[i + 1:]}
        for i, b in enumerate(boxes):
            for j in range(len(b)):
                yield {"op": op, "boxes": boxes[:i] + [b[:j] + b[j + 1:]] + boxes[i + 1:], "sizes": sizes}
            for j, (k, v) in enumerate(b):
                for k2, v2 in ((k[: len(k) // 4 * 2], v), (k, v[: len(v) // 4 * 2]), (k[2:], v), (k, v[2:])):
                    if (k2, v2) != (k, v) and k2 not in [x[0] for x in b]:
                        yield {"op": op, "boxes": boxes[:i] + [b[:j] + [[k2, v2]] + b[j + 1:]] + boxes[i + 1:], "sizes": sizes}
    elif op == "feed":
        ch = c["chunks"]
        for i in range(len(ch)):
            yield {"op": op, "chunks": ch[:i] + ch[i + 1:]}
        for i in range(len(ch) - 1):
            yield {"op": op, "chunks": ch[:i] + [ch[i] + ch[i + 1]] + ch[i + 2:]}
        for i, x in enumerate(ch):
            if len(x) >= 2:
                yield {"op": op, "chunks": ch[:i] + [x[:-2]] + ch[i + 1:]}
                yield {"op": op, "chunks": ch[:i] + [x[2:]] + ch[i + 1:]}
    elif op == "serialize":
        b = c["box"]
        for j in range(len(b)):
            yield {"op": op, "box": b[:j] + b[j + 1:]}
    elif op == "dec":
        h = c["hex"]
        for i in range(0, len(h), 2):
            yield {"op": op, "ty": c["ty"], "hex": h[:i] + h[i + 2:]}
    elif op == "enc" and isinstance(c["val"], list):
        v = c["val"]
        for i in range(len(v)):
            yield {"op": op, "ty": c["ty"], "val": v[:i] + v[i + 1:]}


def search(rng, tier, disagreeing):
    """Property-directed search: every single cut point and every pair-of-adjacent cut of the disagreeing streams,
    the corpus witnesses, then fresh random cases."""
    for c in disagreeing[:20]:
        if c["op"] == "stream":
            total = _ideal_wire_len(c["boxes"])
            for p in range(0, min(total, 600) + 1):
                yield {"op": "stream", "boxes": c["boxes"], "sizes": [p]}
            if total <= 300:
                yield {"op": "stream", "boxes": c["boxes"], "sizes": [1] * total}
        elif c["op"] == "feed":
            whole = "".join(c["chunks"])
            for p in range(0, min(len(whole), 1200) + 1, 2):
                yield {"op": "feed", "chunks": [whole[:p], whole[p:]]}
    yield from corpus()
    for _ in range(1500 if tier == "quick" else 20000):
        yield _gen_stream(rng)
