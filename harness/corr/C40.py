"""C40 — SMTP transfers message bodies transparently.

End to end on the real code: `SMTPClient` (with the real `FileSender`) talks to a real `SMTP`/`ESMTP`
server over an in-memory pump (`StringTransport` on both sides).  The client's reads of the message
file are chunked as the case says (a file object with scheduled short reads, or `FileSender.CHUNK_SIZE`
patched small); the client's DATA stream is cut as the case says before it reaches the server's
`dataReceived`.  The DATA phase is compared event by event with the Lean model
(TwistedModel/Mail/SmtpData.lean); the property oracle looks at the whole session of the real code only."""
import io
import json

from twisted.internet import defer
from twisted.internet.error import ConnectionDone
from twisted.internet.testing import StringTransport
from twisted.mail import smtp
from twisted.protocols import basic
from twisted.python.failure import Failure
from zope.interface import implementer

HEADLINE = "TwistedProps.C40.body_transparent"
RULE = ("e2e: bodies of 0..7 lines drawn from a pool rich in '.', '..', '.x', SMTP command words, header-like and empty "
        "lines (a minority unterminated / with CR / with over-long lines: tie only), client reads chunked by CHUNK_SIZE 1.. or by "
        "scheduled short reads, the DATA stream cut into one piece / single bytes / random pieces (empty pieces included), server "
        "MAX_LENGTH at the default or at the longest wire line -2..+2, SMTP and ESMTP servers, 1-2 recipients, with/without a "
        "Received header, sometimes as the second message of a session (after an unterminated one); srv: raw streams (bare CR/LF, dots, long lines) randomly segmented into a server in DATA mode; "
        "distinct = (op, server, dot at message start, dot after a read boundary, lone-dot line, read style, cut style, "
        "event kinds, final mode)")
ASSUMES = [
    "the body has no CR and every line ends with LF (the property's own precondition)",
    "every line, after dot-stuffing, is at most the server's LineOnlyReceiver.MAX_LENGTH (default 16384) bytes long and MAX_LENGTH >= 1: "
    "a longer line makes the server reply '500 Line too long' and leave DATA mode (documented line-length limit, not transparency)",
    "IMessage.lineReceived does not raise (the server's `datafailed` path is not modelled)",
    "the server's replies reach the client after it has written its terminator (the server sends nothing during DATA when the property holds)",
    "every read of the message file returns at least one byte until EOF (an empty read is EOF for FileSender)",
]
TRUSTED = [
    "twisted.internet.testing.StringTransport as both transports (write/writeSequence concatenate; pull producer driven by the harness)",
    "bytes.replace / bytes.split semantics as transcribed (left to right, non-overlapping)",
]
MANIFEST = {
    "text": "Lean theorems (TwistedProps/C40.lean): for every body of LF-terminated CR-free lines (dot lines anywhere), every "
            "chunking of the client's reads and every segmentation of the DATA stream (stuffed lines at most MAX_LENGTH bytes), the server hands the message exactly the "
            "body's lines (after the blank-line insertion of dataLineReceived), ends the transfer exactly at the client's "
            "terminator and hands no line to the command interpreter. Model of FileSender/transformChunk/finishedFileTransfer and "
            "LineOnlyReceiver.dataReceived/SMTP.dataLineReceived tied to the code by end-to-end differential runs.",
    "note": "trusts Lean kernel, the hand-written model (differentially tied), StringTransport, CPython bytes.replace/split",
    "technique": "Lean 4 proof (byte transducer for the sender, split compositionality for the receiver, induction over chunks/segments) + differential tie",
    "design_ref": "DESIGN.md §7 C40",
}

DEFAULT_MAX = 16384
FROM = b"a@example.org"
RCPTS = [b"r1@example.org", b"r2@example.org"]
HDR = b"Received: from harness"


def hx(b):
    return bytes(b).hex() if b else "-"


# ---------------------------------------------------------------------------------------
# the real code

@implementer(smtp.IMessage)
class _Msg:
    def __init__(self, log, i):
        self.log, self.i = log, i

    def lineReceived(self, line):
        self.log.append(("L", self.i, bytes(line)))

    def eomReceived(self):
        self.log.append(("E", self.i))
        return defer.succeed(None)

    def connectionLost(self):
        self.log.append(("D", self.i))


@implementer(smtp.IMessageDelivery)
class _Delivery:
    def __init__(self, log, hdr):
        self.log, self.hdr, self.n = log, hdr, 0

    def receivedHeader(self, helo, origin, recipients):
        return self.hdr

    def validateFrom(self, helo, origin):
        return origin

    def validateTo(self, user):
        i = self.n
        self.n += 1
        return lambda: _Msg(self.log, i)


def _mkserver(name, log, hdr):
    cls = smtp.ESMTP if name == "ESMTP" else smtp.SMTP

    class Srv(cls):
        noisy = False
        timeout = None

        def state_COMMAND(self, line):
            log.append(("C", bytes(line)))
            return cls.state_COMMAND(self, line)

        def lineLengthExceeded(self, line):
            log.append(("X",))
            return cls.lineLengthExceeded(self, line)

    s = Srv()
    s.delivery = _Delivery(log, hdr)
    return s


class _Client(smtp.SMTPClient):
    debug = False

    def __init__(self, fobjs, rcpts):
        smtp.SMTPClient.__init__(self, b"client.example")
        self.fobjs, self.rcpts, self.calls, self.sent = fobjs, rcpts, 0, []

    def getMailFrom(self):
        self.calls += 1
        return FROM if self.calls <= len(self.fobjs) else None

    def getMailTo(self):
        return list(self.rcpts)

    def getMailData(self):
        return self.fobjs[self.calls - 1]

    def sentMail(self, code, resp, numOk, addresses, log):
        self.sent.append((code, numOk))


class _ShortReads:
    """A file whose read(n) returns the scheduled pieces (short reads are legal for file objects)."""

    def __init__(self, pieces):
        self.pieces = list(pieces)

    def read(self, n):
        if not self.pieces:
            return b""
        p = self.pieces.pop(0)
        assert 0 < len(p) <= n
        return p


def chunks_of(case):
    """the reads FileSender will see"""
    body = bytes.fromhex(case["body"])
    if case.get("reads") is not None:
        out, i = [], 0
        for n in case["reads"]:
            if i >= len(body):
                break
            out.append(body[i:i + n])
            i += n
        if i < len(body):
            out.append(body[i:])
        return out
    k = case["chunk"]
    return [body[i:i + k] for i in range(0, len(body), k)]


def _cut(w, sizes):
    out, i = [], 0
    for n in sizes:
        out.append(w[i:i + n])
        i += n
    if i < len(w):
        out.append(w[i:])
    return out


def _show_phase(log, server, base=0):
    evs = []
    cmd = False
    for e in log:
        if e[0] == "C":
            evs.append("C" + hx(e[1]))
            cmd = True
            break
        if e[0] == "X":
            evs.append("X")
        elif e[1] == base:
            evs.append(e[0] + (hx(e[2]) if e[0] == "L" else ""))
    s = "ev=" + (",".join(evs) if evs else "-")
    if cmd:
        return s + " mode=? buf=?"
    return s + f" mode={server.mode} buf={hx(server._buffer)}"


def _session(case):
    """Run one complete client/server session; returns a dict of what was observed."""
    log = []
    hdr = HDR if case.get("hdr") else None
    rcpts = RCPTS[:case.get("rcpts", 1)]
    server = _mkserver(case["server"], log, hdr)
    if case.get("reads") is not None:
        fobj = _ShortReads(chunks_of(case))
    else:
        fobj = io.BytesIO(bytes.fromhex(case["body"]))
    # an earlier message of the same session (sent whole): the carry state must not leak into the next one
    prev = [io.BytesIO(bytes.fromhex(p)) for p in case.get("prev", [])]
    client = _Client(prev + [fobj], rcpts)
    res_n = 0
    st, ct = StringTransport(), StringTransport()
    old_chunk = basic.FileSender.CHUNK_SIZE
    res = {"log": log, "phase": None, "wire": None}
    try:
        server.makeConnection(st)
        client.makeConnection(ct)
        for _ in range(400):
            moved = False
            if ct.producer is not None and res_n < len(prev):
                # an earlier message: default chunking, delivered whole
                res_n += 1
                for _ in range(100000):
                    if ct.producer is None:
                        break
                    ct.producer.resumeProducing()
                server.dataReceived(ct.value())
                ct.clear()
                moved = True
            elif ct.producer is not None and res["wire"] is None:
                # DATA phase: let the pull producer run dry, then deliver the stream as cut by the case
                if case.get("reads") is None:
                    basic.FileSender.CHUNK_SIZE = case["chunk"]
                for _ in range(100000):
                    if ct.producer is None:
                        break
                    ct.producer.resumeProducing()
                wire = ct.value()
                ct.clear()
                res["wire"] = wire
                start = len(log)
                server.MAX_LENGTH = case.get("max", DEFAULT_MAX)
                for piece in _cut(wire, case["segs"]):
                    server.dataReceived(piece)
                res["phase"] = _show_phase(log[start:], server, len(prev) * len(rcpts))
                basic.FileSender.CHUNK_SIZE = old_chunk
                server.MAX_LENGTH = DEFAULT_MAX
                moved = True
            else:
                w = ct.value()
                ct.clear()
                if w and not st.disconnecting:
                    server.dataReceived(w)
                    moved = True
            r = st.value()
            st.clear()
            if r and not ct.disconnecting:
                client.dataReceived(r)
                moved = True
            if not moved:
                break
    finally:
        basic.FileSender.CHUNK_SIZE = old_chunk
        try:
            server.connectionLost(Failure(ConnectionDone()))
            client.connectionLost(Failure(ConnectionDone()))
        except Exception:
            pass
    res["sent"] = client.sent
    res["rcpts"] = rcpts
    res["hdr"] = hdr
    return res


def _srv_run(case):
    log = []
    server = _mkserver(case["server"], log, None)
    st = StringTransport()
    server.makeConnection(st)
    try:
        server.dataReceived(b"HELO x\r\nMAIL FROM:<" + FROM + b">\r\nRCPT TO:<" + RCPTS[0] + b">\r\nDATA\r\n")
        assert server.mode == smtp.DATA and st.value().endswith(b"354 Continue\r\n"), st.value()
        start = len(log)
        server.MAX_LENGTH = case["max"]
        for seg in case["segs"]:
            server.dataReceived(bytes.fromhex(seg))
        return _show_phase(log[start:], server)
    finally:
        server.MAX_LENGTH = DEFAULT_MAX
        server.connectionLost(Failure(ConnectionDone()))


_last = [None, None]


def run_impl(case):
    _last[0] = _last[1] = None
    if case["op"] == "srv":
        return _srv_run(case)
    res = _session(case)
    _last[0], _last[1] = json.dumps(case, sort_keys=True), res
    if res["wire"] is None:
        return "no-data-phase"
    return "wire=" + hx(res["wire"]) + " " + res["phase"]


def model_line(case):
    if case["op"] == "srv":
        return f"srv {case['max']} " + (";".join(s if s else "-" for s in case["segs"]) if case["segs"] else "_")
    cs = chunks_of(case)
    return (f"e2e {case.get('max', DEFAULT_MAX)} " + (";".join(hx(c) for c in cs) if cs else "_") + " "
            + (",".join(str(n) for n in case["segs"]) if case["segs"] else "_"))


# ---------------------------------------------------------------------------------------
# the property, evaluated on the real code only

def wire_len(line):
    return len(line) + (1 if line[:1] == b"." else 0)


def in_scope(case):
    """the property's preconditions"""
    body = bytes.fromhex(case["body"])
    if b"\r" in body or (body and not body.endswith(b"\n")):
        return False
    m = case.get("max", DEFAULT_MAX)
    lines = body.split(b"\n")[:-1]
    return m >= 1 and all(wire_len(l) <= m for l in lines)


def header_handling(lines):
    """SMTP.dataLineReceived's documented blank line between the generated Received header and a body
    that comes without headers: inserted before the first line iff that line is non-empty and has no ':'."""
    if lines and lines[0] and b":" not in lines[0]:
        return [b""] + lines
    return lines


def oracle(case, impl_out):
    if case["op"] != "e2e" or not in_scope(case):
        return None
    if impl_out.startswith("!raised"):
        return {"key": "raised", "detail": impl_out}
    res = _last[1] if _last[0] == json.dumps(case, sort_keys=True) else _session(case)
    body = bytes.fromhex(case["body"])
    lines = body.split(b"\n")[:-1]
    log, rcpts = res["log"], res["rcpts"]
    nprev = len(case.get("prev", []))
    exp_cmds = ([b"HELO client.example"]
                + ([b"MAIL FROM:<" + FROM + b">"] + [b"RCPT TO:<" + r + b">" for r in rcpts] + [b"DATA", b"RSET"]) * (nprev + 1)
                + [b"QUIT"])
    cmds = [e[1] for e in log if e[0] == "C"]
    exp_msg = ([("L", res["hdr"])] if res["hdr"] else []) + [("L", l) for l in header_handling(lines)] + [("E",)]
    what = f"body={body!r} reads={[bytes(c) for c in chunks_of(case)]!r} wire={res['wire']!r}"
    if cmds != exp_cmds:
        extra = [c for c in cmds if c not in exp_cmds]
        return {"key": "body-run-as-command",
                "detail": f"server interpreted as commands {cmds!r}, the client's commands are {exp_cmds!r} (from the body: {extra!r}); {what}"}
    if any(e[0] == "X" for e in log):
        return {"key": "line-too-long", "detail": f"lineLengthExceeded within the limit; {what}"}
    for i in range(nprev * len(rcpts), (nprev + 1) * len(rcpts)):
        got = [(e[0],) + tuple(e[2:]) for e in log if e[0] in "LED" and e[1] == i]
        if got != exp_msg:
            gl = [g[1] for g in got if g[0] == "L"]
            el = [g[1] for g in exp_msg if g[0] == "L"]
            if body == b"":
                key = "empty-body-extra-line"
            elif len(gl) == len(el) and all(g == e or (e[:1] == b"." and g == e[1:]) for g, e in zip(gl, el)):
                key = "leading-dot-lost"
            elif ("E",) in got and got.index(("E",)) < len(got) - 1 or len(gl) < len(el):
                key = "ended-early"
            else:
                key = "lines-differ"
            return {"key": key, "detail": f"message {i} received {got!r}, expected {exp_msg!r}; {what}"}
    if res["sent"] != [(250, len(rcpts))] * (nprev + 1):
        return {"key": "not-accepted", "detail": f"sentMail calls {res['sent']!r}; {what}"}
    return None


# ---------------------------------------------------------------------------------------
# cases

POOL = [b".", b".", b".", b"..", b".x", b".RSET", b"x.", b"", b"", b"RSET", b"QUIT", b"NOOP", b"DATA", b"ab", b"a",
        b"Subject: hi", b"a:b", b":", b".:", b"MAIL FROM:<evil@example.org>", b"RCPT TO:<victim@example.org>", b"hello world",
        b"...", b". ", b" ."]


def _hexbody(lines, terminated=True):
    b = b"\n".join(lines) + (b"\n" if lines and terminated else b"")
    return b.hex()


def _e2e(body_hex, chunk=None, reads=None, segs=(), server="ESMTP", max_=DEFAULT_MAX, hdr=False, rcpts=1, prev=None):
    c = {"op": "e2e", "server": server, "body": body_hex, "segs": list(segs), "max": max_, "hdr": hdr, "rcpts": rcpts}
    if prev:
        c["prev"] = list(prev)
    if reads is not None:
        c["reads"] = list(reads)
    else:
        c["chunk"] = chunk if chunk else DEFAULT_MAX
    return c


def corpus():
    smuggle = [b"ab", b".", b"MAIL FROM:<evil@example.org>", b"RCPT TO:<victim@example.org>", b"DATA", b"Subject: forged", b"", b"hi"]
    return [
        # the witnesses: a dot line at the very start / right after a read boundary
        _e2e(_hexbody([b".", b"RSET", b"foo"])),
        _e2e(_hexbody([b".x", b"y"])),
        _e2e(_hexbody([b"ab", b".", b"NOOP"]), chunk=3),
        _e2e(_hexbody(smuggle), chunk=3, server="SMTP"),
        _e2e(_hexbody([b"ab", b"..", b"c"]), reads=[3, 1, 100], segs=[1] * 40),
        _e2e("", chunk=5),
        _e2e(_hexbody([b".", b"QUIT"]), prev=[b"Subject: x\n\nunterminated".hex()]),
        _e2e(_hexbody([b"x.y"]), chunk=1, prev=[_hexbody([b"first"])]),
        # plain ones
        _e2e(_hexbody([b"Subject: x", b"", b"hello", b".", b"RSET", b"foo"])),
        _e2e(_hexbody([b"hello", b".", b"bye"]), chunk=1, segs=[1] * 60, hdr=True, rcpts=2),
        _e2e(_hexbody([b"", b".", b""]), chunk=2, segs=[2, 0, 3]),
        _e2e(_hexbody([b"abc"], terminated=False), chunk=2),
        _e2e(_hexbody([b"a\rb", b".\r"]), chunk=2),
        _e2e(_hexbody([b"abcdef", b".bcdef"]), max_=7),
        _e2e(_hexbody([b"abcdef", b".bcdef"]), max_=7, segs=[1] * 40, chunk=2),
        _e2e(_hexbody([b"abcdef", b".bcdef"]), max_=7, segs=[16, 1]),
        _e2e(_hexbody([b"abcdef", b".bcdef", b"RSET"]), max_=6, segs=[1] * 40),
        _e2e(_hexbody([b"abcdef", b".bcdef"]), max_=8, segs=[7, 1, 1, 7]),
        _e2e(_hexbody([b"abcdefgh", b"x"]), max_=6),
        {"op": "srv", "server": "SMTP", "max": 5, "segs": ["6162630d", "0a2e2e0d0a2e0d0a52534554" + "0d0a"]},
        {"op": "srv", "server": "ESMTP", "max": 4, "segs": ["6162636465", "660d0a610d0a", "2e0d0a"]},
        {"op": "srv", "server": "SMTP", "max": 4, "segs": ["616263646566670d0a610d0a2e0d0a"]},
        {"op": "srv", "server": "SMTP", "max": 100, "segs": ["0d0d0a0a0d2e0d0a2e0a0d0a2e0d0a"]},
    ]


def _line(rng):
    r = rng.random()
    if r < 0.7:
        return rng.choice(POOL)
    return bytes(rng.choice(b"..ab: .x") for _ in range(rng.randint(0, 7)))


def _segs(rng, n):
    r = rng.random()
    if r < 0.25:
        return []
    if r < 0.45:
        return [1] * n
    if r < 0.55:
        return [2] * (n // 2 + 1)
    out, left = [], n
    while left > 0 and len(out) < 60:
        k = rng.choice([0, 1, 1, 2, 3, 5, 8, 13])
        out.append(k)
        left -= k
    return out


def _gen_e2e(rng):
    lines = [_line(rng) for _ in range(rng.choice([0, 1, 1, 2, 2, 3, 3, 4, 5, 7]))]
    terminated = True
    r = rng.random()
    if r < 0.06 and lines:
        terminated = False
    elif r < 0.12 and lines:
        i = rng.randrange(len(lines))
        lines[i] = lines[i] + b"\r" if rng.random() < 0.5 else b"\r" + lines[i]
    body = _hexbody(lines, terminated)
    n = len(body) // 2
    longest = max([wire_len(l) for l in lines] or [1])
    max_ = DEFAULT_MAX if rng.random() < 0.6 else max(1, longest + rng.choice([-2, -1, 0, 0, 1, 1, 2]))
    kw = dict(server=rng.choice(["ESMTP", "SMTP"]), max_=max_, hdr=rng.random() < 0.3, rcpts=rng.choice([1, 1, 2]))
    if rng.random() < 0.15:
        kw["prev"] = [rng.choice([b"x", b"Subject: s\n\nbody\n", b"a\n.", b".\n"]).hex()]
    wire_n = 2 * n + 8
    if rng.random() < 0.5:
        chunk = rng.choice([1, 2, 3, 4, 5, 7, n, n + 1, max(1, n - 1), DEFAULT_MAX]) or 1
        return _e2e(body, chunk=chunk, segs=_segs(rng, wire_n), **kw)
    reads, left = [], n
    while left > 0 and len(reads) < 40:
        k = rng.choice([1, 1, 2, 3, 4, 6])
        reads.append(k)
        left -= k
    return _e2e(body, reads=reads, segs=_segs(rng, wire_n), **kw)


RAW = [b"\r\n", b"\r\n", b".", b".", b"\r", b"\n", b"a", b"b:", b"..", b".\r\n", b"\r\n.\r\n", b"RSET", b"abcdefgh", b" "]


def _gen_srv(rng):
    stream = b"".join(rng.choice(RAW) for _ in range(rng.randint(1, 14)))
    segs, i = [], 0
    while i < len(stream):
        k = rng.choice([0, 1, 1, 2, 3, 5, 9, 30])
        segs.append(stream[i:i + k].hex())
        i += k
    return {"op": "srv", "server": rng.choice(["SMTP", "ESMTP"]), "max": rng.choice([1, 2, 3, 4, 5, 8, 9, 12, DEFAULT_MAX]), "segs": segs}


def generate(rng, tier):
    n = 1500 if tier == "quick" else 30000
    for i in range(n):
        yield _gen_srv(rng) if rng.random() < 0.3 else _gen_e2e(rng)


def search(rng, tier, disagreeing):
    """every read-chunk size and the extreme cuts, for a fixed family of dot-rich bodies and for the disagreeing cases"""
    bodies = [_hexbody(ls) for ls in ([b"."], [b".", b"x"], [b".x"], [b"a", b"."], [b"a", b".", b"RSET"], [b"ab", b"..", b"."],
                                      [b"Subject: s", b"", b".", b"."], [b"", b"."], [b"x", b".y", b"z"])]
    bodies += [c["body"] for c in disagreeing if c.get("op") == "e2e"]
    for b in bodies:
        n = len(b) // 2
        for k in range(1, n + 2):
            for segs in ([], [1] * (2 * n + 8), [3] * n):
                yield _e2e(b, chunk=k, segs=segs, server="ESMTP" if k % 2 else "SMTP")
    for _ in range(300 if tier == "quick" else 3000):
        yield _gen_e2e(rng)


def shrink(case):
    if case["op"] == "srv":
        segs = case["segs"]
        for i in range(len(segs)):
            yield dict(case, segs=segs[:i] + segs[i + 1:])
        return
    body = bytes.fromhex(case["body"])
    lines = body.split(b"\n")
    if case.get("segs"):
        yield dict(case, segs=[])
    if case.get("rcpts", 1) > 1:
        yield dict(case, rcpts=1)
    if case.get("hdr"):
        yield dict(case, hdr=False)
    if case.get("prev"):
        yield {k: v for k, v in case.items() if k != "prev"}
    if case.get("max", DEFAULT_MAX) != DEFAULT_MAX:
        yield dict(case, max=DEFAULT_MAX)
    for i in range(len(lines) - 1):
        yield dict(case, body=b"\n".join(lines[:i] + lines[i + 1:]).hex())
    for i, l in enumerate(lines):
        for j in range(len(l)):
            yield dict(case, body=b"\n".join(lines[:i] + [l[:j] + l[j + 1:]] + lines[i + 1:]).hex())
    if case.get("reads") is not None:
        c = {k: v for k, v in case.items() if k != "reads"}
        for k in (DEFAULT_MAX, 1, 2, 3):
            yield dict(c, chunk=k)
    elif case["chunk"] != DEFAULT_MAX:
        yield dict(case, chunk=DEFAULT_MAX)


def tag(case, out):
    kinds = "".join(sorted({e[:1] for e in out.split(" ev=")[-1].split(" ")[0].split(",")})) if " ev=" in out or out.startswith("ev=") else out[:12]
    mode = out.rsplit(" mode=", 1)[-1].split(" ")[0] if " mode=" in out else "?"
    if case["op"] == "srv":
        return f"srv:{case['server']}:{'small' if case['max'] < 100 else 'dflt'}:{kinds}:{mode}"
    body = bytes.fromhex(case["body"])
    cs = chunks_of(case)
    after_boundary = any(c[:1] == b"." and cs[i][-1:] == b"\n" for i, c in enumerate(cs[1:]))
    segs = case["segs"]
    cut = "one" if not segs else "bytes" if set(segs) == {1} else "mixed"
    return (f"e2e:{case['server']}:{'scope' if in_scope(case) else 'out'}:{'2nd:' if case.get('prev') else ''}start{int(body[:1] == b'.')}:bnd{int(after_boundary)}:"
            f"lone{int(b'.' in body.split(bytes([10])))}:{'reads' if case.get('reads') is not None else 'chunk'}:{cut}:"
            f"{'small' if case.get('max', DEFAULT_MAX) < 100 else 'dflt'}:{kinds}:{mode}")
