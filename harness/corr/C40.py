"""C40 — SMTP transfers message bodies transparently.

End to end on the real code: `SMTPClient` (with the real `FileSender`) talks to a real `SMTP`/`ESMTP`
server over an in-memory pump (`StringTransport` on both sides).  The client's reads of the message
file are chunked as the case says (a file object with scheduled short reads, or `FileSender.CHUNK_SIZE`
patched small); the client's DATA stream is cut as the case says before it reaches the server's
`dataReceived`.  The DATA phase is compared event by event with the Lean model
(TwistedModel/Mail/SmtpData.lean); the property oracle looks at the whole session of the real code only."""
import io
import json

from twisted.internet import defer
from twisted.internet.error import ConnectionDone
from twisted.internet.testing import StringTransport
from twisted.mail import smtp
from twisted.protocols import basic
from twisted.python.failure import Failure
from zope.interface import implementer

HEADLINE = "TwistedProps.C40.body_transparent"
RULE = ("e2e: bodies of 0..7 lines drawn from a pool rich in '.', '..', '.x', SMTP command words, header-like and empty "
        "lines, plus lines of arbitrary bytes other than CR/LF (NUL, controls, str.splitlines() separators, UTF-8, 8-bit; ~1/3 of bodies) "
        "(a minority unterminated / with CR / with over-long lines: tie only), client reads chunked by CHUNK_SIZE 1.. or by "
        "scheduled short reads or left at the class's CHUNK_SIZE, the DATA stream cut into one piece / single bytes / random pieces "
        "(empty pieces included), server MAX_LENGTH as the class defines it (40%) / set to 16384 / at the longest wire line -2..+2; "
        "~3.5% 'big' bodies with lines of 997..1002, 2048..8192, 16382..16384 bytes and a dot line exactly at the real 16384-byte read "
        "boundary, class limits untouched, stream cut around the ends of the long lines (before CR, between CR and LF, after LF); "
        "SMTP and ESMTP servers, 1-3 recipients, with/without a Received header; the client's transport either waits for the harness "
        "to call resumeProducing or (40%) calls it from inside registerProducer as FileDescriptor does; SMTP.noisy/SMTPClient.debug "
        "off or (35%) at the class defaults; 25% as the 2nd/3rd message of a session, after unterminated/empty/header-only messages "
        "and after messages refused by their IMessage (SMTPServerError on the first line: 550 at the end of DATA, or at the DATA "
        "command when a Received header is generated); srv: raw streams (bare CR/LF, dots, long lines) randomly segmented into a "
        "server in DATA mode; distinct = (op, server, scope, session history, dot at message start, dot after a read boundary, "
        "lone-dot line, read style, cut style, limit style, eager transport, default switches, 8-bit bytes, long lines, event kinds, final mode)")
ASSUMES = [
    "the body has no CR and every line ends with LF (the property's own precondition)",
    "every line, after dot-stuffing, is at most the server's LineOnlyReceiver.MAX_LENGTH (default 16384) bytes long and MAX_LENGTH >= 1: "
    "a longer line makes the server reply '500 Line too long' and leave DATA mode (documented line-length limit, not transparency)",
    "the IMessage of the message under test does not raise from lineReceived (the server's `datafailed` path is not modelled); "
    "EARLIER messages of the session may be refused that way - nothing of it may leak into the message under test",
    "the server's line limit is the documented LineOnlyReceiver.MAX_LENGTH = 16384 unless the case sets another one",
    "the server's replies reach the client after it has written its terminator (the server sends nothing during DATA when the property holds)",
    "every read of the message file returns at least one byte until EOF (an empty read is EOF for FileSender)",
]
TRUSTED = [
    "twisted.internet.testing.StringTransport as both transports (write/writeSequence concatenate; the pull producer is driven by the "
    "harness until it unregisters, with or without a first synchronous resumeProducing from registerProducer)",
    "bytes.replace / bytes.split semantics as transcribed (left to right, non-overlapping)",
]
MANIFEST = {
    "text": "Lean theorems (TwistedProps/C40.lean): for every body of LF-terminated CR-free lines (dot lines anywhere), every "
            "chunking of the client's reads and every segmentation of the DATA stream (stuffed lines at most MAX_LENGTH bytes), the server hands the message exactly the "
            "body's lines (after the blank-line insertion of dataLineReceived), ends the transfer exactly at the client's "
            "terminator and hands no line to the command interpreter. Model of FileSender/transformChunk/finishedFileTransfer and "
            "LineOnlyReceiver.dataReceived/SMTP.dataLineReceived tied to the code by end-to-end differential runs (arbitrary non-CR/LF "
            "bytes, lines up to the real 16384-byte limits, eager and lazy pull-producer transports, default logging switches). "
            "body_transparent_in_session: the same after any earlier in-scope messages of the session (do_DATA resets the server); "
            "sessions with earlier accepted and refused messages are run through the model (`sess`) and the code.",
    "note": "trusts Lean kernel, the hand-written model (differentially tied), StringTransport, CPython bytes.replace/split",
    "technique": "Lean 4 proof (byte transducer for the sender, split compositionality for the receiver, induction over chunks/segments) + differential tie",
    "design_ref": "DESIGN.md §7 C40",
}

DEFAULT_MAX = 16384
FROM = b"a@example.org"
RCPTS = [b"r1@example.org", b"r2@example.org", b"r3@example.org"]
REAL_CHUNK = 16384  # FileSender.CHUNK_SIZE as documented (2**14)
HDR = b"Received: from harness"


def hx(b):
    return bytes(b).hex() if b else "-"


# ---------------------------------------------------------------------------------------
# the real code

@implementer(smtp.IMessage)
class _Msg:
    def __init__(self, log, i, raise_at=None):
        self.log, self.i, self.raise_at, self.n = log, i, raise_at, 0

    def lineReceived(self, line):
        self.log.append(("L", self.i, bytes(line)))
        self.n += 1
        if self.raise_at is not None and self.n > self.raise_at:
            # only ever an EARLIER message of the session (the property assumes the message under test accepts its lines)
            raise smtp.SMTPServerError(550, b"message refused")

    def eomReceived(self):
        self.log.append(("E", self.i))
        return defer.succeed(None)

    def connectionLost(self):
        self.log.append(("D", self.i))


@implementer(smtp.IMessageDelivery)
class _Delivery:
    def __init__(self, log, hdr, nrcpts=1, raise_at=()):
        self.log, self.hdr, self.n, self.nrcpts, self.raise_at = log, hdr, 0, nrcpts, list(raise_at)

    def receivedHeader(self, helo, origin, recipients):
        return self.hdr

    def validateFrom(self, helo, origin):
        return origin

    def validateTo(self, user):
        i = self.n
        self.n += 1
        mail = i // self.nrcpts
        ra = self.raise_at[mail] if mail < len(self.raise_at) else None
        return lambda: _Msg(self.log, i, ra)


def _mkserver(name, log, hdr, nrcpts=1, raise_at=(), defaults=False):
    cls = smtp.ESMTP if name == "ESMTP" else smtp.SMTP

    class Srv(cls):
        noisy = cls.noisy if defaults else False   # `defaults`: the class's own setting (log.msg has no observer here)
        timeout = None

        def state_COMMAND(self, line):
            log.append(("C", bytes(line)))
            try:
                return cls.state_COMMAND(self, line)
            except UnicodeDecodeError:
                # SMTP.lookupMethod decodes the command word as ASCII; a non-ASCII line here is already recorded as
                # `C` (a violation when in scope) and the interpretation of commands is not part of the comparison
                return None

        def lineLengthExceeded(self, line):
            log.append(("X",))
            return cls.lineLengthExceeded(self, line)

    s = Srv()
    s.delivery = _Delivery(log, hdr, nrcpts, raise_at)
    return s


class _Client(smtp.SMTPClient):
    def __init__(self, fobjs, rcpts, chunk=None, defaults=False):
        smtp.SMTPClient.__init__(self, b"client.example")
        self.fobjs, self.rcpts, self.calls, self.sent = fobjs, rcpts, 0, []
        self.chunk, self.data_started = chunk, 0
        if not defaults:
            self.debug = False   # `defaults`: the class's own setting (debug = True: every sendLine is logged)

    def getMailFrom(self):
        self.calls += 1
        return FROM if self.calls <= len(self.fobjs) else None

    def getMailTo(self):
        return list(self.rcpts)

    def getMailData(self):
        if self.calls == len(self.fobjs) and self.chunk is not None:
            # the message under test: its reads are chunked as the case says (an eager transport reads the
            # first chunk from inside registerProducer, so the size has to be in place before beginFileTransfer)
            basic.FileSender.CHUNK_SIZE = self.chunk
        return self.fobjs[self.calls - 1]

    def smtpState_data(self, code, resp):
        self.data_mail = self.calls - 1   # which of the session's messages this DATA phase belongs to
        self.data_started += 1
        return smtp.SMTPClient.smtpState_data(self, code, resp)

    def sentMail(self, code, resp, numOk, addresses, log):
        self.sent.append((code, numOk))


class _EagerTransport(StringTransport):
    """StringTransport which treats a pull producer the way `abstract.FileDescriptor.registerProducer` does:
    `if not streaming: producer.resumeProducing()` synchronously, from inside `registerProducer`."""

    def registerProducer(self, producer, streaming):
        StringTransport.registerProducer(self, producer, streaming)
        if not streaming:
            producer.resumeProducing()


class _ShortReads:
    """A file whose read(n) returns the scheduled pieces (short reads are legal for file objects)."""

    def __init__(self, pieces):
        self.pieces = list(pieces)

    def read(self, n):
        if not self.pieces:
            return b""
        p = self.pieces.pop(0)
        assert 0 < len(p) <= n
        return p


def chunks_of(case):
    """the reads FileSender will see"""
    body = bytes.fromhex(case["body"])
    if case.get("reads") is not None:
        out, i = [], 0
        for n in case["reads"]:
            if i >= len(body):
                break
            out.append(body[i:i + n])
            i += n
        while i < len(body):
            # the schedule is used up: full reads from here on (read(n) never returns more than n = CHUNK_SIZE bytes)
            out.append(body[i:i + REAL_CHUNK])
            i += REAL_CHUNK
        return out
    k = case.get("chunk") or REAL_CHUNK
    return [body[i:i + k] for i in range(0, len(body), k)]


def _prev_body(p):
    return bytes.fromhex(p["body"] if isinstance(p, dict) else p)


def _prev_raise(p):
    return p.get("raise_at") if isinstance(p, dict) else None


def _prev_code(p, hdr):
    """the reply an earlier message must get: 250, or 550 when its IMessage refuses the first line it is handed
    (None: not predicted)"""
    ra = _prev_raise(p)
    if ra is None:
        return 250
    if ra == 0:
        return 550 if (hdr or _prev_body(p)) else 250
    return None


def _max(case):
    """the line-length limit in force: `max` absent/None = whatever the server class says, documented as 16384"""
    m = case.get("max", DEFAULT_MAX)
    return DEFAULT_MAX if m is None else m


def _cut(w, sizes):
    out, i = [], 0
    for n in sizes:
        out.append(w[i:i + n])
        i += n
    if i < len(w):
        out.append(w[i:])
    return out


def _show_phase(log, server, base=0):
    evs = []
    cmd = False
    for e in log:
        if e[0] == "C":
            evs.append("C" + hx(e[1]))
            cmd = True
            break
        if e[0] == "X":
            evs.append("X")
        elif e[1] == base:
            evs.append(e[0] + (hx(e[2]) if e[0] == "L" else ""))
    s = "ev=" + (",".join(evs) if evs else "-")
    if cmd:
        return s + " mode=? buf=?"
    return s + f" mode={server.mode} buf={hx(server._buffer)}"


def _session(case):
    """Run one complete client/server session; returns a dict of what was observed."""
    log = []
    hdr = HDR if case.get("hdr") else None
    rcpts = RCPTS[:case.get("rcpts", 1)]
    prevs = case.get("prev", [])
    defaults = bool(case.get("defaults"))
    server = _mkserver(case["server"], log, hdr, len(rcpts), [_prev_raise(p) for p in prevs], defaults)
    if case.get("reads") is not None:
        fobj = _ShortReads(chunks_of(case))
    else:
        fobj = io.BytesIO(bytes.fromhex(case["body"]))
    # earlier messages of the same session (sent whole; some are refused by their IMessage): no state of the
    # client (carry byte, FileSender) or of the server (header flags, datafailed) may leak into the next one
    prev = [io.BytesIO(_prev_body(p)) for p in prevs]
    client = _Client(prev + [fobj], rcpts, case.get("chunk") if case.get("reads") is None else None, defaults)
    handled = 0
    st = StringTransport()
    ct = _EagerTransport() if case.get("eager") else StringTransport()
    old_chunk = basic.FileSender.CHUNK_SIZE
    res = {"log": log, "phase": None, "wire": None}
    try:
        server.makeConnection(st)
        client.makeConnection(ct)
        for _ in range(400):
            moved = False
            if client.data_started > handled:
                # a DATA phase: let the pull producer run dry (the eager transport has already asked once)
                idx = client.data_mail
                handled += 1
                for _ in range(1000000):
                    if ct.producer is None:
                        break
                    ct.producer.resumeProducing()
                basic.FileSender.CHUNK_SIZE = old_chunk
                wire = ct.value()
                ct.clear()
                if idx < len(prev):
                    # an earlier message: default chunking, delivered whole
                    server.dataReceived(wire)
                else:
                    # the message under test: deliver the stream as cut by the case
                    res["wire"] = wire
                    start = len(log)
                    if case.get("max", DEFAULT_MAX) is not None:
                        server.MAX_LENGTH = case.get("max", DEFAULT_MAX)
                    for piece in _cut(wire, case["segs"]):
                        server.dataReceived(piece)
                    res["phase"] = _show_phase(log[start:], server, len(prev) * len(rcpts))
                    server.__dict__.pop("MAX_LENGTH", None)
                moved = True
            else:
                w = ct.value()
                ct.clear()
                if w and not st.disconnecting:
                    server.dataReceived(w)
                    moved = True
            r = st.value()
            st.clear()
            if r and not ct.disconnecting:
                client.dataReceived(r)
                moved = True
            if not moved:
                break
    finally:
        basic.FileSender.CHUNK_SIZE = old_chunk
        try:
            server.connectionLost(Failure(ConnectionDone()))
            client.connectionLost(Failure(ConnectionDone()))
        except Exception:
            pass
    res["sent"] = client.sent
    res["rcpts"] = rcpts
    res["hdr"] = hdr
    return res


def _srv_run(case):
    log = []
    server = _mkserver(case["server"], log, None)
    st = StringTransport()
    server.makeConnection(st)
    try:
        server.dataReceived(b"HELO x\r\nMAIL FROM:<" + FROM + b">\r\nRCPT TO:<" + RCPTS[0] + b">\r\nDATA\r\n")
        assert server.mode == smtp.DATA and st.value().endswith(b"354 Continue\r\n"), st.value()
        start = len(log)
        server.MAX_LENGTH = case["max"]
        for seg in case["segs"]:
            server.dataReceived(bytes.fromhex(seg))
        return _show_phase(log[start:], server)
    finally:
        server.MAX_LENGTH = DEFAULT_MAX
        server.connectionLost(Failure(ConnectionDone()))


_last = [None, None]


def run_impl(case):
    _last[0] = _last[1] = None
    if case["op"] == "srv":
        return _srv_run(case)
    res = _session(case)
    _last[0], _last[1] = json.dumps(case, sort_keys=True), res
    if res["wire"] is None:
        return "no-data-phase"
    return "wire=" + hx(res["wire"]) + " " + res["phase"]


def model_line(case):
    if case["op"] == "srv":
        return f"srv {case['max']} " + (";".join(s if s else "-" for s in case["segs"]) if case["segs"] else "_")
    cs = chunks_of(case)
    if case.get("prev"):
        # the model runs the earlier messages too (those whose DATA command was accepted: an IMessage which refuses
        # the generated Received header makes do_DATA reply 550 and no stream is sent) and models do_DATA's reset
        ps = [_prev_body(p) for p in case["prev"] if not (_prev_raise(p) == 0 and case.get("hdr"))]
        return (f"sess {_max(case)} " + (";".join(hx(b) for b in ps) if ps else "_") + " "
                + (";".join(hx(c) for c in cs) if cs else "_") + " "
                + (",".join(str(n) for n in case["segs"]) if case["segs"] else "_"))
    return (f"e2e {_max(case)} " + (";".join(hx(c) for c in cs) if cs else "_") + " "
            + (",".join(str(n) for n in case["segs"]) if case["segs"] else "_"))


# ---------------------------------------------------------------------------------------
# the property, evaluated on the real code only

def wire_len(line):
    return len(line) + (1 if line[:1] == b"." else 0)


def in_scope(case):
    """the property's preconditions"""
    body = bytes.fromhex(case["body"])
    if b"\r" in body or (body and not body.endswith(b"\n")):
        return False
    m = _max(case)
    lines = body.split(b"\n")[:-1]
    return m >= 1 and all(wire_len(l) <= m for l in lines)


def header_handling(lines):
    """SMTP.dataLineReceived's documented blank line between the generated Received header and a body
    that comes without headers: inserted before the first line iff that line is non-empty and has no ':'."""
    if lines and lines[0] and b":" not in lines[0]:
        return [b""] + lines
    return lines


def oracle(case, impl_out):
    if case["op"] != "e2e" or not in_scope(case):
        return None
    if impl_out.startswith("!raised"):
        return {"key": "raised", "detail": impl_out}
    res = _last[1] if _last[0] == json.dumps(case, sort_keys=True) else _session(case)
    body = bytes.fromhex(case["body"])
    lines = body.split(b"\n")[:-1]
    log, rcpts = res["log"], res["rcpts"]
    nprev = len(case.get("prev", []))
    exp_cmds = ([b"HELO client.example"]
                + ([b"MAIL FROM:<" + FROM + b">"] + [b"RCPT TO:<" + r + b">" for r in rcpts] + [b"DATA", b"RSET"]) * (nprev + 1)
                + [b"QUIT"])
    cmds = [e[1] for e in log if e[0] == "C"]
    exp_msg = ([("L", res["hdr"])] if res["hdr"] else []) + [("L", l) for l in header_handling(lines)] + [("E",)]
    if len(body) <= 300:
        what = f"body={body!r} reads={[bytes(c) for c in chunks_of(case)]!r} wire={res['wire']!r}"
    else:
        what = (f"body of {len(body)} bytes, lines of {[len(l) for l in lines][:12]!r} bytes, reads of "
                f"{[len(c) for c in chunks_of(case)][:12]!r} bytes, wire of {len(res['wire'] or b'')} bytes")
    if cmds != exp_cmds:
        extra = [c for c in cmds if c not in exp_cmds]
        return {"key": "body-run-as-command",
                "detail": f"server interpreted as commands {cmds!r}, the client's commands are {exp_cmds!r} (from the body: {extra!r}); {what}"}
    if any(e[0] == "X" for e in log):
        return {"key": "line-too-long", "detail": f"lineLengthExceeded within the limit; {what}"}
    for i in range(nprev * len(rcpts), (nprev + 1) * len(rcpts)):
        got = [(e[0],) + tuple(e[2:]) for e in log if e[0] in "LED" and e[1] == i]
        if got != exp_msg:
            gl = [g[1] for g in got if g[0] == "L"]
            el = [g[1] for g in exp_msg if g[0] == "L"]
            if body == b"":
                key = "empty-body-extra-line"
            elif len(gl) == len(el) and all(g == e or (e[:1] == b"." and g == e[1:]) for g, e in zip(gl, el)):
                key = "leading-dot-lost"
            elif ("E",) in got and got.index(("E",)) < len(got) - 1 or len(gl) < len(el):
                key = "ended-early"
            else:
                key = "lines-differ"
            return {"key": key, "detail": f"message {i} received {got!r}, expected {exp_msg!r}; {what}"}
    exp_sent = [(_prev_code(p, res["hdr"]), len(rcpts)) for p in case.get("prev", [])] + [(250, len(rcpts))]
    if len(res["sent"]) != len(exp_sent) or any(g != e and e[0] is not None for g, e in zip(res["sent"], exp_sent)):
        return {"key": "not-accepted", "detail": f"sentMail calls {res['sent']!r}, expected {exp_sent!r}; {what}"}
    return None


# ---------------------------------------------------------------------------------------
# cases

POOL = [b".", b".", b".", b"..", b".x", b".RSET", b"x.", b"", b"", b"RSET", b"QUIT", b"NOOP", b"DATA", b"ab", b"a",
        b"Subject: hi", b"a:b", b":", b".:", b"MAIL FROM:<evil@example.org>", b"RCPT TO:<victim@example.org>", b"hello world",
        b"...", b". ", b" ."]


def _hexbody(lines, terminated=True):
    b = b"\n".join(lines) + (b"\n" if lines and terminated else b"")
    return b.hex()


def _e2e(body_hex, chunk=None, reads=None, segs=(), server="ESMTP", max_=DEFAULT_MAX, hdr=False, rcpts=1, prev=None,
         eager=False, defaults=False, real_chunk=False):
    """`max_` None: the server's MAX_LENGTH is left as the class defines it; `real_chunk`: FileSender.CHUNK_SIZE is left
    as the class defines it; `eager`: the client's transport asks the pull producer for the first chunk from inside
    registerProducer (as FileDescriptor does); `defaults`: SMTP.noisy / SMTPClient.debug as the classes define them;
    `prev` items: hex body, or {"body": hex, "raise_at": 0} = that earlier message's IMessage refuses its first line."""
    c = {"op": "e2e", "server": server, "body": body_hex, "segs": list(segs), "max": max_, "hdr": hdr, "rcpts": rcpts}
    if prev:
        c["prev"] = list(prev)
    if eager:
        c["eager"] = True
    if defaults:
        c["defaults"] = True
    if reads is not None:
        c["reads"] = list(reads)
    elif real_chunk:
        c["chunk"] = None
    else:
        c["chunk"] = chunk if chunk else DEFAULT_MAX
    return c


def _refused(body):
    return {"body": bytes(body).hex(), "raise_at": 0}


def corpus():
    smuggle = [b"ab", b".", b"MAIL FROM:<evil@example.org>", b"RCPT TO:<victim@example.org>", b"DATA", b"Subject: forged", b"", b"hi"]
    return [
        # the witnesses: a dot line at the very start / right after a read boundary
        _e2e(_hexbody([b".", b"RSET", b"foo"])),
        _e2e(_hexbody([b".x", b"y"])),
        _e2e(_hexbody([b"ab", b".", b"NOOP"]), chunk=3),
        _e2e(_hexbody(smuggle), chunk=3, server="SMTP"),
        _e2e(_hexbody([b"ab", b"..", b"c"]), reads=[3, 1, 100], segs=[1] * 40),
        _e2e("", chunk=5),
        _e2e(_hexbody([b".", b"QUIT"]), prev=[b"Subject: x\n\nunterminated".hex()]),
        _e2e(_hexbody([b"x.y"]), chunk=1, prev=[_hexbody([b"first"])]),
        # plain ones
        _e2e(_hexbody([b"Subject: x", b"", b"hello", b".", b"RSET", b"foo"])),
        _e2e(_hexbody([b"hello", b".", b"bye"]), chunk=1, segs=[1] * 60, hdr=True, rcpts=2),
        _e2e(_hexbody([b"", b".", b""]), chunk=2, segs=[2, 0, 3]),
        _e2e(_hexbody([b"abc"], terminated=False), chunk=2),
        _e2e(_hexbody([b"a\rb", b".\r"]), chunk=2),
        _e2e(_hexbody([b"abcdef", b".bcdef"]), max_=7),
        _e2e(_hexbody([b"abcdef", b".bcdef"]), max_=7, segs=[1] * 40, chunk=2),
        _e2e(_hexbody([b"abcdef", b".bcdef"]), max_=7, segs=[16, 1]),
        _e2e(_hexbody([b"abcdef", b".bcdef", b"RSET"]), max_=6, segs=[1] * 40),
        _e2e(_hexbody([b"abcdef", b".bcdef"]), max_=8, segs=[7, 1, 1, 7]),
        _e2e(_hexbody([b"abcdefgh", b"x"]), max_=6),
        # --- classes added by the mutation audit (harness/mutants/C40) ---
        # the line-length limit and the read size as the classes define them, lines near 1000 / 16384 bytes
        _e2e(_hexbody([b"Subject: long", b"", b"x" * 999, b"." + b"y" * 1000, b"."]), max_=None, real_chunk=True),
        _e2e(_hexbody([b"x" * 16384, b"." + b"y" * 16382, b".", b"RSET"]), max_=None, real_chunk=True,
             segs=[16384, 1, 1, 16384, 1, 1]),
        _e2e(_hexbody([b"a" * 16383, b".", b"QUIT", b"." * 9]), max_=None, real_chunk=True, segs=[16385, 5], eager=True),
        # bytes outside ASCII, with the classes' own logging switches
        _e2e(_hexbody([b"\xff\xfe", b".\x00", b"\x80:", b".", b"caf\xc3\xa9 \x0b\x0c\x85"]), chunk=3, defaults=True),
        _e2e(_hexbody([b"\x00"]), defaults=True, server="SMTP", segs=[1] * 12),
        # a transport that asks the pull producer from inside registerProducer (as FileDescriptor does)
        _e2e("", eager=True),
        _e2e(_hexbody([b".", b"RSET"]), eager=True, prev=[b"x".hex()]),
        _e2e(_hexbody([b".x"]), eager=True, chunk=1, prev=[b"a\n.".hex()], server="SMTP"),
        # an earlier message of the session was refused by its IMessage (in DATA / at the DATA command)
        _e2e(_hexbody([b"hello", b".", b"bye"]), prev=[_refused(b"Subject: s\n\nbody\n")]),
        _e2e(_hexbody([b".", b"NOOP"]), prev=[_refused(b"x\n")], hdr=True, rcpts=2, server="SMTP"),
        _e2e("", prev=[b"x".hex()], rcpts=3),
        {"op": "srv", "server": "SMTP", "max": 5, "segs": ["6162630d", "0a2e2e0d0a2e0d0a52534554" + "0d0a"]},
        {"op": "srv", "server": "ESMTP", "max": 4, "segs": ["6162636465", "660d0a610d0a", "2e0d0a"]},
        {"op": "srv", "server": "SMTP", "max": 4, "segs": ["616263646566670d0a610d0a2e0d0a"]},
        {"op": "srv", "server": "SMTP", "max": 100, "segs": ["0d0d0a0a0d2e0d0a2e0a0d0a2e0d0a"]},
    ]


def _line(rng):
    r = rng.random()
    if r < 0.62:
        return rng.choice(POOL)
    if r < 0.74:
        return rng.choice(BPOOL)
    if r < 0.82:
        # any byte but CR and LF (NUL, C1 controls, str.splitlines() separators, UTF-8, 8-bit), dots first
        return bytes(rng.choice(BYTES) for _ in range(rng.randint(1, 6)))
    return bytes(rng.choice(b"..ab: .x") for _ in range(rng.randint(0, 7)))


BYTES = b".." + bytes([0, 1, 9, 11, 12, 28, 29, 30, 32, 58, 127, 128, 133, 160, 194, 195, 169, 226, 254, 255])
BPOOL = [b"\x00", b".\x00", b"\xff", b".\xff", b"\x80:", b"\xc3\xa9t\xc3\xa9", b"\x0b", b"\x0c.", b".\x85", b"\x1c\x1d\x1e",
         b"\xe2\x80\xa8", b"RSET\x00", b"\xa0.", b"Subject: caf\xe9"]


def _segs(rng, n):
    r = rng.random()
    if r < 0.25:
        return []
    if r < 0.45:
        return [1] * n
    if r < 0.55:
        return [2] * (n // 2 + 1)
    out, left = [], n
    while left > 0 and len(out) < 60:
        k = rng.choice([0, 1, 1, 2, 3, 5, 8, 13])
        out.append(k)
        left -= k
    return out


PREVS = [b"x", b"Subject: s\n\nbody\n", b"a\n.", b".\n", b"", b"no colon\n"]


def _session_kw(rng):
    kw = dict(server=rng.choice(["ESMTP", "SMTP"]), hdr=rng.random() < 0.3, rcpts=rng.choice([1, 1, 1, 2, 2, 3]),
              eager=rng.random() < 0.4, defaults=rng.random() < 0.35)
    if rng.random() < 0.25:
        prev = []
        for _ in range(rng.choice([1, 1, 1, 2])):
            b = rng.choice(PREVS)
            prev.append(_refused(b) if rng.random() < 0.4 else b.hex())
        kw["prev"] = prev
    return kw


def _gen_e2e(rng, big=0.035):
    if rng.random() < big:
        return _gen_big(rng)
    lines = [_line(rng) for _ in range(rng.choice([0, 1, 1, 2, 2, 3, 3, 4, 5, 7]))]
    terminated = True
    r = rng.random()
    if r < 0.06 and lines:
        terminated = False
    elif r < 0.12 and lines:
        i = rng.randrange(len(lines))
        lines[i] = lines[i] + b"\r" if rng.random() < 0.5 else b"\r" + lines[i]
    body = _hexbody(lines, terminated)
    n = len(body) // 2
    longest = max([wire_len(l) for l in lines] or [1])
    r = rng.random()
    # the limit: left as the class defines it / set to the documented default / at the longest wire line -2..+2
    max_ = None if r < 0.4 else DEFAULT_MAX if r < 0.6 else max(1, longest + rng.choice([-2, -1, 0, 0, 1, 1, 2]))
    kw = _session_kw(rng)
    kw["max_"] = max_
    wire_n = 2 * n + 8
    if rng.random() < 0.5:
        chunk = rng.choice([1, 2, 3, 4, 5, 7, n, n + 1, max(1, n - 1), DEFAULT_MAX, None])
        if chunk is None:
            return _e2e(body, real_chunk=True, segs=_segs(rng, wire_n), **kw)   # FileSender.CHUNK_SIZE as the class has it
        return _e2e(body, chunk=chunk or 1, segs=_segs(rng, wire_n), **kw)
    reads, left = [], n
    while left > 0 and len(reads) < 40:
        k = rng.choice([1, 1, 2, 3, 4, 6])
        reads.append(k)
        left -= k
    return _e2e(body, reads=reads, segs=_segs(rng, wire_n), **kw)


LONG = [997, 998, 999, 1000, 1001, 1002, 2048, 4096, 8191, 8192, 16382, 16383, 16384]


def _gen_big(rng):
    """bodies with lines near the documented limits (1000 = RFC 5321's text line, 16384 = MAX_LENGTH = CHUNK_SIZE), the
    server's limit and the client's read size as the classes define them; dots right at the real read boundary; the
    stream cut around the ends of the long lines (few pieces: the model run is quadratic in pieces x length)"""
    lines = []
    for _ in range(rng.choice([1, 1, 2, 3])):
        k = rng.choice(LONG)
        fill = bytes([rng.choice(b"xy z\xe9")])
        l = (b"." + fill * (k - 1)) if rng.random() < 0.35 else fill * k
        if wire_len(l) > DEFAULT_MAX and rng.random() < 0.85:
            l = l[:-1]
        lines.append(l)
        if rng.random() < 0.6:
            lines.append(_line(rng))
    if rng.random() < 0.5:
        # pad so that a line starts exactly at a multiple of the real read size
        first = rng.choice([b".", b"..", b".RSET", b"x"])
        lines = [b"p" * (REAL_CHUNK - 1), first] + lines
    if rng.random() < 0.3:
        lines.insert(0, _line(rng))
    body = b"\n".join(lines) + b"\n"
    wire = b"".join((b"." + l if l[:1] == b"." else l) + b"\r\n" for l in lines)
    # cut points around the ends of the long lines: before CR, between CR and LF, after LF
    pts, pos = set(), 0
    for l in lines:
        pos += wire_len(l) + 2
        if len(l) >= 900 and rng.random() < 0.7:
            pts.update(rng.sample([pos - 3, pos - 2, pos - 1, pos, pos + 1], rng.choice([1, 2, 2, 3])))
    pts = sorted(x for x in pts if 0 < x < len(wire))[:8]
    segs, last = [], 0
    for x in pts:
        segs.append(x - last)
        last = x
    kw = _session_kw(rng)
    kw.pop("prev", None)
    r = rng.random()
    if r < 0.75:
        return _e2e(body.hex(), real_chunk=True, segs=segs, max_=None, **kw)
    if r < 0.9:
        return _e2e(body.hex(), chunk=rng.choice([1000, 4097, 16383, 16385]), segs=segs, max_=None, **kw)
    return _e2e(body.hex(), reads=[rng.choice([1, 999, 16384, 16383, 5000]) for _ in range(6)], segs=segs, max_=None, **kw)


RAW = [b"\r\n", b"\r\n", b".", b".", b"\r", b"\n", b"a", b"b:", b"..", b".\r\n", b"\r\n.\r\n", b"RSET", b"abcdefgh", b" "]


def _gen_srv(rng):
    stream = b"".join(rng.choice(RAW) for _ in range(rng.randint(1, 14)))
    segs, i = [], 0
    while i < len(stream):
        k = rng.choice([0, 1, 1, 2, 3, 5, 9, 30])
        segs.append(stream[i:i + k].hex())
        i += k
    return {"op": "srv", "server": rng.choice(["SMTP", "ESMTP"]), "max": rng.choice([1, 2, 3, 4, 5, 8, 9, 12, DEFAULT_MAX]), "segs": segs}


def generate(rng, tier):
    n = 1500 if tier == "quick" else 30000
    big = 0.035 if tier == "quick" else 0.012   # ~37 resp. ~250 bodies of 1..50 kB
    for i in range(n):
        yield _gen_srv(rng) if rng.random() < 0.3 else _gen_e2e(rng, big)


def search(rng, tier, disagreeing):
    """every read-chunk size and the extreme cuts, for a fixed family of dot-rich bodies and for the disagreeing cases"""
    bodies = [_hexbody(ls) for ls in ([b"."], [b".", b"x"], [b".x"], [b"a", b"."], [b"a", b".", b"RSET"], [b"ab", b"..", b"."],
                                      [b"Subject: s", b"", b".", b"."], [b"", b"."], [b"x", b".y", b"z"])]
    # (the sweep is quadratic in the body: only small disagreeing bodies, and at most a handful of them)
    bodies += [c["body"] for c in disagreeing if c.get("op") == "e2e" and len(c["body"]) <= 120][:12]
    for b in bodies:
        n = len(b) // 2
        for k in range(1, n + 2):
            for segs in ([], [1] * (2 * n + 8), [3] * n):
                yield _e2e(b, chunk=k, segs=segs, server="ESMTP" if k % 2 else "SMTP")
            yield _e2e(b, chunk=k, eager=True, defaults=True, max_=None, prev=[b"x".hex()])
            yield _e2e(b, chunk=k, eager=True, prev=[_refused(b"a\n.")], rcpts=2)
    for _ in range(300 if tier == "quick" else 3000):
        yield _gen_e2e(rng)


def shrink(case):
    if case["op"] == "srv":
        segs = case["segs"]
        for i in range(len(segs)):
            yield dict(case, segs=segs[:i] + segs[i + 1:])
        return
    body = bytes.fromhex(case["body"])
    lines = body.split(b"\n")
    if case.get("segs"):
        yield dict(case, segs=[])
    if case.get("rcpts", 1) > 1:
        yield dict(case, rcpts=1)
    if case.get("hdr"):
        yield dict(case, hdr=False)
    if case.get("prev"):
        yield {k: v for k, v in case.items() if k != "prev"}
        if len(case["prev"]) > 1:
            yield dict(case, prev=case["prev"][1:])
            yield dict(case, prev=case["prev"][:1])
        if any(isinstance(p, dict) for p in case["prev"]):
            yield dict(case, prev=[p["body"] if isinstance(p, dict) else p for p in case["prev"]])
    for flag in ("eager", "defaults"):
        if case.get(flag):
            yield {k: v for k, v in case.items() if k != flag}
    for i, l in enumerate(lines):
        if len(l) > 64:
            for m in (len(l) // 2, len(l) - 1):
                yield dict(case, body=b"\n".join(lines[:i] + [l[:m]] + lines[i + 1:]).hex())
    if case.get("max", DEFAULT_MAX) not in (DEFAULT_MAX, None):
        yield dict(case, max=DEFAULT_MAX)
    for i in range(len(lines) - 1):
        yield dict(case, body=b"\n".join(lines[:i] + lines[i + 1:]).hex())
    for i, l in enumerate(lines):
        for j in range(min(len(l), 64)):
            yield dict(case, body=b"\n".join(lines[:i] + [l[:j] + l[j + 1:]] + lines[i + 1:]).hex())
    if case.get("reads") is not None:
        c = {k: v for k, v in case.items() if k != "reads"}
        for k in (DEFAULT_MAX, 1, 2, 3):
            yield dict(c, chunk=k)
    elif case["chunk"] not in (DEFAULT_MAX, None):
        yield dict(case, chunk=DEFAULT_MAX)


def tag(case, out):
    kinds = "".join(sorted({e[:1] for e in out.split(" ev=")[-1].split(" ")[0].split(",")})) if " ev=" in out or out.startswith("ev=") else out[:12]
    mode = out.rsplit(" mode=", 1)[-1].split(" ")[0] if " mode=" in out else "?"
    if case["op"] == "srv":
        return f"srv:{case['server']}:{'small' if case['max'] < 100 else 'dflt'}:{kinds}:{mode}"
    body = bytes.fromhex(case["body"])
    cs = chunks_of(case)
    after_boundary = any(c[:1] == b"." and cs[i][-1:] == b"\n" for i, c in enumerate(cs[1:]))
    segs = case["segs"]
    cut = "one" if not segs else "bytes" if set(segs) == {1} else "mixed"
    prevs = case.get("prev", [])
    hist = ("2nd" + ("r" if any(isinstance(p, dict) for p in prevs) else "") + ":") if prevs else ""
    m = case.get("max", DEFAULT_MAX)
    longest = max([len(l) for l in body.split(bytes([10]))] or [0])
    return (f"e2e:{case['server']}:{'scope' if in_scope(case) else 'out'}:{hist}start{int(body[:1] == b'.')}:bnd{int(after_boundary)}:"
            f"lone{int(b'.' in body.split(bytes([10])))}:{'reads' if case.get('reads') is not None else 'chunk'}:{cut}:"
            f"{'cls' if m is None else 'small' if m < 100 else 'dflt'}:{'eager:' if case.get('eager') else ''}"
            f"{'defaults:' if case.get('defaults') else ''}{'8bit:' if any(b > 126 or b < 9 for b in body) else ''}"
            f"{'long:' if longest >= 900 else ''}{kinds}:{mode}")
