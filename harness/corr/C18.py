"""C18 — HTTP/1.1 server parsing does not depend on segmentation: real HTTPChannel (via server.Site on
StringTransport) vs the Lean model of Http/Channel.lean + oracle (split run == one-piece run on the real code)."""
import hashlib
import re

from corr import _httpchan as H

HEADLINE = "TwistedProps.C18.http_seg_invariant"
RULE = ("request streams generated from the HTTP/1.1 grammar (request line, header variants, obs-fold, Expect, Connection, "
        "Content-Length / chunked bodies with extensions and trailers, 1-4 pipelined requests, IE blank lines, tails), a malformed "
        "stream (bad request lines / header lines / chunk framing, byte mutations, truncation), streams at the limits named in "
        "the code (16384-byte lines and header blocks, 500 headers, 4300-digit lengths, 1024-byte chunk lines, 64 KiB trailers, "
        "16 KiB eager read) and pipelines in which one request carries a body larger than those limits (16-66 KiB, Content-Length, "
        "one large chunk or a run of large chunks); each delivered in random pieces, in pieces that end at the CRITICAL offsets "
        "(just before / inside / just after every line ending, one byte into the next line, where a line reaches 1024 / 16384-16386 "
        "bytes without a delimiter, the last bytes), in one of three structured segmentations (a delivery per line, a cut after "
        "every CR, a cut before every CR), optionally with empty deliveries in between, against a scripted resource (answers at "
        "once / in pieces / later / never); every limit-sized stream is, in the quick tier too, delivered cut at all its critical "
        "offsets; the oracle re-runs the real code on the one-piece stream and, for streams up to 96 bytes, on every two-piece "
        "split and byte by byte, for longer streams on the two-piece split at the critical offsets (up to 64 for limit-sized and "
        "big-body streams, a spread of 16 otherwise) and on the three structured segmentations; distinct = (features of the stream "
        "incl. the segmentation class, #requests handed over, closed, raised, #pieces bucket)")
ASSUMES = [
    "the application is deterministic: what it writes and when it finishes depends only on the request and its index on the connection; "
    "requests it postpones are finished after the whole stream has been delivered",
    "a real transport delivers nothing after loseConnection() (the harness stops feeding at transport.disconnecting)",
    "requests do not trigger form parsing in Request.requestReceived (no Content-Type request header in generated streams)",
    "transport.producerState is not an observable of the property (it is compared in the tie only)",
    "the state theorem (http_seg_state) identifies channels up to the attribute `length` of a _ChunkedTransferDecoder while that "
    "attribute is dead (after the end of a chunk, until the next chunk-size line overwrites it): the real attribute does differ "
    "between a split and a one-piece delivery (TwistedProps.C18.chunked_length_attr_differs, reproduced on the real class), it is "
    "never read in that window (TwistedProps.C18.outc_lenEq, D_rel)",
]
TRUSTED = ["twisted.internet.testing.StringTransport(lenient=True) as the transport; task.Clock as the reactor",
           "server.version / server.datetimeToString patched to constants (fixed banner and clock)"]
MANIFEST = {
    "text": "Lean theorems (TwistedProps/C18.lean) over the HTTPChannel model for every application, byte stream and segmentation "
            "(http_seg_invariant: requests handed over, bytes written, closing and escaping exception equal those of the one-piece delivery; "
            "http_seg_state: same receive buffer and same channel state up to a dead decoder attribute; proof: receive loop commutes with "
            "appending, channel invariant, and the splitting property of BOTH body decoders — identity_decoder_splits, chunked_decoder_splits "
            "(the chunked decoder's dataReceived commutes with splitting its input for every decoder state and every byte string, "
            "including the _MalformedChunkedDataError cases: same exception after the same callbacks); no hypothesis left); "
            "model tied to web/http.py + protocols/basic.py by differential runs of the real channel on grammar-generated, mutated and "
            "limit-sized streams under random segmentations and under segmentations that end deliveries at / inside / after every line "
            "ending and at the limit offsets (every limit-sized stream in both tiers), big-body pipelines, empty deliveries; oracle "
            "compares every split run (the case's, all two-piece splits of short streams, the critical two-piece splits and three "
            "structured segmentations of long ones) with the one-piece run on the real code.",
    "note": "trusts Lean kernel, the hand-written model of HTTPChannel/LineReceiver/decoders (differentially tied), StringTransport as transport",
    "technique": "Lean 4 proof (loop-commutes-with-append invariant) + differential tie + all-splits oracle",
    "design_ref": "DESIGN.md §7 C18",
}

_W = lambda s: s.encode().hex()


def _case(stream, cuts, script, feats=(), empty=()):
    c = {"stream": H.hx(stream), "cuts": sorted(set(cuts)), "script": script, "feats": sorted(feats)}
    if empty:
        c["empty"] = sorted(set(empty))      # indices of the pieces preceded by an empty delivery
    return c


DEFAULT_SCRIPT = [[0, 0, [_W("ok")]]]
MIX_SCRIPT = [[2, 0, [_W("later")]], [0, 0, [_W("now")]], [1, 0, [_W("p1"), "-", _W("p22")]], [3, 0, []]]


def corpus():
    cs = []
    s = b"GET / HTTP/1.1\r\nHost: x\r\n\r\n"
    cs.append(_case(s, [5, 16, 17, 25], DEFAULT_SCRIPT))
    s = (b"POST /a HTTP/1.1\r\nContent-Length: 5\r\nExpect: 100-continue\r\n\r\nhelloGET /b HTTP/1.1\r\nX: a\r\n b\r\n\r\n"
         b"PUT /c HTTP/1.1\r\nTransfer-Encoding: chunked\r\n\r\n3;x=y\r\nabc\r\n0\r\nT: v\r\n\r\nHEAD /d HTTP/1.0\r\n\r\n")
    cs.append(_case(s, list(range(1, len(s), 7)), MIX_SCRIPT))
    cs.append(_case(s, list(range(1, len(s))), DEFAULT_SCRIPT))
    cs.append(_case(b"\r\nGET / HTTP/1.1\r\n\r\n\r\n\r\nGET / HTTP/1.1\r\n\r\n", [1, 3], DEFAULT_SCRIPT))
    cs.append(_case(b"GET / HTTP/1.1\r\nConnection: close\r\n\r\nGET /2 HTTP/1.1\r\n\r\n", [20], MIX_SCRIPT))
    cs.append(_case(b"POST / HTTP/1.1\r\nTransfer-Encoding: chunked\r\n\r\n3\r\nabcXY\r\n", [49, 50], DEFAULT_SCRIPT))
    s = b"POST /a HTTP/1.1\r\nTransfer-Encoding: chunked\r\n\r\n3;x\r\nabc\r\n0\r\nT: v\r\n\r\nGET /b HTTP/1.1\r\n\r\n"
    cs.append(_case(s, [s.index(b"3;x\r") + 4, s.index(b"T: v\r") + 5, s.index(b"T: v\r\n\r") + 7], DEFAULT_SCRIPT, ["cut-after-cr"], [0, 1, 3]))
    for name, st in H.boundary_streams():
        n = len(st)
        cuts = [n // 3, n // 2, n - 3] if n > 10 else []
        cs.append(_case(st, cuts, _bscript(name), [name]))
    # limit-sized streams cut where the code holds a partial element (mutation audit: m02 m03 m04 m07 m11 m13 survived or
    # were killed by luck only, because the cuts above never fall next to a line ending)
    bs = dict(H.boundary_streams())
    h = len(b"POST / HTTP/1.1\r\nTransfer-Encoding: chunked\r\n\r\n")
    cs.append(_case(bs["chunkline1023"], [h + 1024], DEFAULT_SCRIPT, ["chunkline1023", "cut-after-cr"]))
    t = h + len(b"1\r\na\r\n0\r\n")
    for n in (65535, 65536):
        cs.append(_case(bs["trailer%d" % n], [t + n + 1], DEFAULT_SCRIPT, ["trailer%d" % n, "cut-in-final-crlf"]))
        cs.append(_case(bs["trailer%d" % n], [t + n - 1], DEFAULT_SCRIPT, ["trailer%d" % n, "cut-after-cr"]))
    for n in (16384, 16385, 16386):
        st = bs["longline%d" % n]
        cs.append(_case(st, [len(st) - 2], DEFAULT_SCRIPT, ["longline%d" % n, "cut-lines"]))
        cs.append(_case(st, [len(st) - 3], DEFAULT_SCRIPT, ["longline%d" % n, "cut-after-cr"]))
    for name in ("eager40000", "bigbody"):
        st = bs[name]
        for cut in (st.find(b"\r\n") + 2, st.find(b"\r\n") + 3, st.find(b"Content-Length") - 2, st.find(b"Content-Length") + 3):
            cs.append(_case(st, [cut], _bscript(name), [name, "cut-in-head"]))
    return cs


def _bscript(name):
    return [[2, 0, [_W("slow")]], [0, 0, [_W("ok")]]] if name.startswith("eager") else DEFAULT_SCRIPT


def boundary_cases(rng, tier):
    """every limit-sized stream delivered in pieces that end at its critical offsets (all of them at once: model-compared;
    the oracle adds the two-piece split at each of them and the three structured segmentations)"""
    for name, st in H.boundary_streams():
        cap = 48 if tier == "quick" else 160
        yield _case(st, crit_offsets(st, cap), _bscript(name), [name, "crit"])
        if tier == "thorough":
            for sname, cuts in structured_cuts(st):
                yield _case(st, cuts[:600], _script(rng), [name, sname])
            offs = crit_offsets(st)
            for _ in range(4):
                yield _case(st, sorted(set(rng.choice(offs) for _ in range(rng.choice([1, 1, 2])))), _script(rng), [name, "crit1"])


_EOL = re.compile(rb"[\r\n]")
_BOUNDARY = {name for name, _ in H.boundary_streams()}


def _pick(offs, cap):
    """at most `cap` of the sorted offsets: the first quarter, the last half, the rest evenly spaced from the middle"""
    if cap is None or len(offs) <= cap:
        return offs
    a, b = cap // 4, cap // 2
    mid = offs[a:len(offs) - b]
    k = cap - a - b
    return offs[:a] + [mid[(i * len(mid)) // k] for i in range(k)] + offs[len(offs) - b:]


def crit_offsets(stream, cap=None):
    """Delivery boundaries at which the code holds a partial element: just before / inside / just after every line
    ending (before the CR, between CR and LF, after the LF, one byte into the next line), the offsets at which a line
    that started after a CRLF reaches the limits named in the code (1024, 16384..16386 bytes without a delimiter),
    and the last bytes of the stream."""
    n = len(stream)
    offs = set()
    starts = [0]
    for m in _EOL.finditer(stream):
        p = m.start()
        offs.update((p, p + 1))
        if stream[p] == 10:
            offs.add(p + 2)
            if p and stream[p - 1] == 13 and len(starts) < 64:
                starts.append(p + 1)
    for q in starts:
        offs.update(q + d for d in (1023, 1024, 1025, 1026, 16384, 16385, 16386, 16387))
    offs.update((n - 3, n - 2, n - 1))
    return _pick(sorted(o for o in offs if 0 < o < n), cap)


def structured_cuts(stream):
    """three whole-stream segmentations: a delivery per line (cut after every CRLF), a cut after every CR, a cut before every CR"""
    crlf = [m.start() for m in re.finditer(rb"\r\n", stream)]
    cr = [m.start() for m in re.finditer(rb"\r", stream)]
    n = len(stream)
    out = []
    for name, cuts in (("lines", [p + 2 for p in crlf]), ("after-cr", [p + 1 for p in cr]), ("before-cr", cr)):
        cuts = [x for x in cuts if 0 < x < n]
        if cuts:
            out.append((name, cuts))
    return out


_BIG_SIZES = [16383, 16384, 16385, 16386, 20000, 32767, 32768, 32769, 33000, 50000, 66000]
_BIG_FILL = [b"z", b"abc\r\n", b"0\r\n\r\nGET /x HTTP/1.1\r\n\r\n", b"\r\n\r", b"5\r\nhello\r\n"]


def gen_big(rng):
    """A pipelined stream in which one request has a body larger than the limits named in the code (16 KiB line /
    header block / eager read, 32 KiB, 64 KiB): Content-Length, one large chunk, or a run of large chunks; ordinary
    grammar requests before and after it.  → (stream, feats, offsets inside the heads)"""
    feats = {"big"}
    pre = b""
    if rng.random() < 0.6:
        pre, f = H.gen_request(rng, 0.0)
        feats |= f
    n = rng.choice(_BIG_SIZES)
    fill = rng.choice(_BIG_FILL)
    body = (fill * (n // len(fill) + 1))[:n]
    hs = b"".join(k + b": " + v + b"\r\n" for k, v in (rng.choice(H.PLAIN_HEADERS) for _ in range(rng.choice([0, 1, 2, 4]))))
    if rng.random() < 0.2:
        hs += b"Expect: 100-continue\r\n"
        feats.add("expect")
    kind = rng.choice(["cl", "cl", "chunk1", "chunks"])
    feats.add("big-" + kind)
    line = rng.choice([b"POST", b"PUT"]) + b" /big HTTP/1.1\r\n"
    if kind == "cl":
        head = line + hs + b"Content-Length: %d\r\n\r\n" % n
        wire = body
    else:
        head = line + hs + b"Transfer-Encoding: chunked\r\n\r\n"
        wire = b""
        i = 0
        while i < n:
            k = n if kind == "chunk1" else min(n - i, rng.choice([17, 255, 256, 1024, 4096, 16384, 16385]))
            wire += b"%x" % k + rng.choice([b"", b"", b";e=1"]) + b"\r\n" + body[i:i + k] + b"\r\n"
            i += k
        wire += b"0\r\n" + rng.choice([b"", b"", b"T: v\r\n"]) + b"\r\n"
    post = b""
    for _ in range(rng.choice([0, 1, 1, 2])):
        r, f = H.gen_request(rng, 0.0)
        post += r
        feats |= f
    stream = pre + head + wire + post
    a, b = len(pre), len(pre) + len(head)
    heads = [o for o in crit_offsets(stream) if o <= b + 2 or o >= b + len(wire) - 8]
    return stream, feats, heads


def _script(rng):
    out = []
    for _ in range(rng.choice([1, 1, 2, 3, 4])):
        mode = rng.choice([0, 0, 0, 0, 1, 1, 2, 2, 2, 3])
        pieces = [rng.choice(["-", _W("a"), _W("hello world"), _W("x" * 20), "0d0a"]) for _ in range(rng.choice([0, 1, 1, 2, 3]))]
        out.append([mode, 0, pieces])
    return out


def _cuts(rng, n, stream=None):
    if n <= 1:
        return []
    r = rng.random()
    if stream is not None and rng.random() < 0.3:
        # deliveries that end at / inside / just after line endings
        offs = crit_offsets(stream)
        if offs:
            if r < 0.2:
                return offs if len(offs) <= 200 else sorted(rng.sample(offs, 200))
            if r < 0.4:
                return list(rng.choice(structured_cuts(stream) or [("", [rng.choice(offs)])])[1])[:400]
            return sorted(set(rng.choice(offs) for _ in range(rng.choice([1, 1, 2, 3]))))
    if r < 0.15:
        return list(range(1, n)) if n <= 400 else sorted(rng.sample(range(1, n), 200))
    if r < 0.3:
        return [rng.randrange(1, n)]
    k = rng.choice([2, 3, 5, 8])
    return sorted(set(rng.randrange(1, n) for _ in range(k)))


def generate(rng, tier):
    n = 700 if tier == "quick" else 5000
    yield from boundary_cases(rng, tier)
    for i in range(16 if tier == "quick" else 120):
        stream, feats, heads = gen_big(rng)
        r = rng.random()
        if r < 0.6 and heads:
            cuts = sorted(set(rng.choice(heads) for _ in range(rng.choice([1, 1, 2, 3]))))
        elif r < 0.8:
            cuts = _pick(heads, 40)
        else:
            cuts = _cuts(rng, len(stream))
        yield _case(stream, cuts, _script(rng), feats)
    for i in range(n):
        stream, feats = H.gen_stream(rng, malformed=0.15 if i % 3 else 0.5)
        cuts = _cuts(rng, len(stream), stream)
        empty = ()
        if rng.random() < 0.06:
            # a split may contain empty deliveries (the theorems quantify over every list of pieces)
            k = len(H.chunks_of(stream, cuts))
            empty = [rng.randrange(k) for _ in range(rng.choice([1, 2, 5]))] if k else ()
            feats = set(feats) | {"empty-delivery"}
        yield _case(stream, cuts, _script(rng), feats, empty)
    if tier == "thorough":
        for name, st in H.boundary_streams():
            for _ in range(6):
                k = len(st)
                cuts = sorted(set(min(k - 1, max(1, p + rng.randint(-3, 3)))
                                  for p in [16384, 16385, 16386, k - 2, k - 1, rng.randrange(1, k)]))
                yield _case(st, cuts, _script(rng), [name])


def _ops(c, cuts=None):
    return H.ops_for(H.unhx(c["stream"]), c["cuts"] if cuts is None else cuts, c.get("empty", ()) if cuts is None else ())


def model_line(c):
    if c.get("oracle_only"):
        return None          # search() candidates over the limit-sized streams: judged on the real code only
    return "run " + H.enc_script(c["script"]) + " " + H.enc_ops(_ops(c))


def run_impl(c):
    return H.enc_state(H.run_ops(c["script"], _ops(c)))


_PAUSED = re.compile(r" paused=[01]")


def _obs(c, cuts):
    return H.enc_state(H.run_ops(c["script"], _ops(c, cuts)), paused=False)


def _brief(s):
    return s if len(s) < 400 else s[:200] + "…" + s[-150:]


_TRIALS = {}     # (stream, script) → verdict of the split trials, which do not depend on the case's own cuts


def oracle(c, out):
    got = _PAUSED.sub("", out)
    whole = _obs(c, [])
    if got != whole:
        return {"key": "segmentation", "detail": f"cuts {c['cuts'][:12]}: {_brief(got)} BUT in one piece: {_brief(whole)}"}
    if c.get("own"):
        return None          # search() candidates: one segmentation each, the search itself enumerates the splits
    key = hashlib.sha1((c["stream"] + "|" + H.enc_script(c["script"]) + "|" + str(_limit(c))).encode()).digest()
    if key not in _TRIALS:
        if len(_TRIALS) > 20000:
            _TRIALS.clear()
        _TRIALS[key] = _trials(c, whole)
    return _TRIALS[key]


def _limit(c):
    return bool(_BOUNDARY.intersection(c.get("feats", ()))) or "big" in c.get("feats", ())


def _trials(c, whole):
    stream = H.unhx(c["stream"])
    n = len(stream)
    if n <= 96:
        trials = [[cut] for cut in range(1, n)] + [list(range(1, n))]
    else:
        # longer streams: the two-piece split at the critical offsets (all of them for the limit-sized streams, a spread of
        # them otherwise) and the three structured segmentations
        cap = (24 if n > 50000 else 64) if _limit(c) else 16
        trials = [[o] for o in crit_offsets(stream, cap)] + [cuts for _, cuts in structured_cuts(stream)]
    for cuts in trials:
        o = _obs(c, cuts)
        if o != whole:
            return {"key": "segmentation", "detail": f"cuts {cuts[:12]}: {_brief(o)} BUT in one piece: {_brief(whole)}"}
    return None


def tag(c, out):
    nreq = 0 if "reqs=none" in out else out.split("reqs=")[1].count(";") + 1 if "reqs=" in out else -1
    closed = out[7:8] if out.startswith("closed=") else "?"
    raised = re.search(r"raised=(\S+)", out)
    k = len(c["cuts"])
    return (",".join(c.get("feats", [])) + f"|r{min(nreq, 4)}|c{closed}|{raised.group(1) if raised else out[:20]}"
            + f"|k{0 if k == 0 else 1 if k == 1 else 2 if k < 10 else 3}")


def shrink(c):
    s = H.unhx(c["stream"])
    cuts = c["cuts"]
    if len(s) > 4096:        # long streams: try to drop big blocks first, every candidate is expensive
        for size in (len(s) // 2, len(s) // 4):
            for i in range(0, len(s), size):
                t = s[:i] + s[i + size:]
                yield dict(c, stream=H.hx(t), cuts=sorted(set(min(len(t), x if x <= i else max(i, x - size)) for x in cuts)))
    if c.get("empty"):
        yield {k: v for k, v in c.items() if k != "empty"}
    for size in (len(cuts) // 2, len(cuts) // 4):
        if size > 1:
            for i in range(0, len(cuts), size):
                yield dict(c, cuts=cuts[:i] + cuts[i + size:])
    for i in range(len(cuts)):
        yield dict(c, cuts=cuts[:i] + cuts[i + 1:])
    if len(c["script"]) > 1:
        for i in range(len(c["script"])):
            yield dict(c, script=c["script"][:i] + c["script"][i + 1:])
    n = len(s)
    for size in (n // 2, n // 4, 16, 4, 1):
        if size < 1:
            continue
        for i in range(0, n, size):
            t = s[:i] + s[i + size:]
            yield dict(c, stream=H.hx(t), cuts=sorted(set(min(len(t), x if x <= i else max(i, x - size)) for x in cuts)))


def search(rng, tier, disagreeing):
    """every two-piece split (and byte-by-byte) of the disagreeing streams — of long ones: the two-piece split at every
    critical offset, judged on the real code only — and of fresh short streams"""
    for c in sorted(disagreeing, key=lambda c: len(c["stream"]))[:5]:
        stream = H.unhx(c["stream"])
        n = len(stream)
        extra = {"own": 1, "oracle_only": 1} if n > 4096 else {"own": 1}
        base = {k: v for k, v in c.items() if k != "empty"}
        for cut in (range(1, n) if n <= 400 else crit_offsets(stream, 128)):
            yield dict(base, cuts=[cut], **extra)
        for _, cuts in structured_cuts(stream):
            yield dict(base, cuts=cuts[:600], **extra)
    for _ in range(200 if tier == "quick" else 2000):
        stream, feats = H.gen_stream(rng, malformed=0.3)
        if len(stream) <= 200:
            yield _case(stream, list(range(1, len(stream))), _script(rng), feats)
