"""C18 — HTTP/1.1 server parsing does not depend on segmentation: real HTTPChannel (via server.Site on
StringTransport) vs the Lean model of Http/Channel.lean + oracle (split run == one-piece run on the real code)."""
import re

from corr import _httpchan as H

HEADLINE = "TwistedProps.C18.http_seg_invariant"
RULE = ("request streams generated from the HTTP/1.1 grammar (request line, header variants, obs-fold, Expect, Connection, "
        "Content-Length / chunked bodies with extensions and trailers, 1-4 pipelined requests, IE blank lines, tails), a malformed "
        "stream (bad request lines / header lines / chunk framing, byte mutations, truncation) and streams at the limits named in "
        "the code (16384-byte lines and header blocks, 500 headers, 4300-digit lengths, 1024-byte chunk lines, 64 KiB trailers, "
        "16 KiB eager read); each delivered in random pieces against a scripted resource (answers at once / in pieces / later / "
        "never); the oracle re-runs the real code on the one-piece stream and, for streams up to 96 bytes, on every two-piece "
        "split and byte by byte; distinct = (features of the stream, #requests handed over, closed, raised, #pieces bucket)")
ASSUMES = [
    "the application is deterministic: what it writes and when it finishes depends only on the request and its index on the connection; "
    "requests it postpones are finished after the whole stream has been delivered",
    "a real transport delivers nothing after loseConnection() (the harness stops feeding at transport.disconnecting)",
    "requests do not trigger form parsing in Request.requestReceived (no Content-Type request header in generated streams)",
    "transport.producerState is not an observable of the property (it is compared in the tie only)",
    "the state theorem (http_seg_state) identifies channels up to the attribute `length` of a _ChunkedTransferDecoder while that "
    "attribute is dead (after the end of a chunk, until the next chunk-size line overwrites it): the real attribute does differ "
    "between a split and a one-piece delivery (TwistedProps.C18.chunked_length_attr_differs, reproduced on the real class), it is "
    "never read in that window (TwistedProps.C18.outc_lenEq, D_rel)",
]
TRUSTED = ["twisted.internet.testing.StringTransport(lenient=True) as the transport; task.Clock as the reactor",
           "server.version / server.datetimeToString patched to constants (fixed banner and clock)"]
MANIFEST = {
    "text": "Lean theorems (TwistedProps/C18.lean) over the HTTPChannel model for every application, byte stream and segmentation "
            "(http_seg_invariant: requests handed over, bytes written, closing and escaping exception equal those of the one-piece delivery; "
            "http_seg_state: same receive buffer and same channel state up to a dead decoder attribute; proof: receive loop commutes with "
            "appending, channel invariant, and the splitting property of BOTH body decoders — identity_decoder_splits, chunked_decoder_splits "
            "(the chunked decoder's dataReceived commutes with splitting its input for every decoder state and every byte string, "
            "including the _MalformedChunkedDataError cases: same exception after the same callbacks); no hypothesis left); "
            "model tied to web/http.py + protocols/basic.py by differential runs of the real channel on grammar-generated, mutated and "
            "limit-sized streams under random segmentations; oracle compares every split run with the one-piece run on the real code.",
    "note": "trusts Lean kernel, the hand-written model of HTTPChannel/LineReceiver/decoders (differentially tied), StringTransport as transport",
    "technique": "Lean 4 proof (loop-commutes-with-append invariant) + differential tie + all-splits oracle",
    "design_ref": "DESIGN.md §7 C18",
}

_W = lambda s: s.encode().hex()


def _case(stream, cuts, script, feats=()):
    return {"stream": H.hx(stream), "cuts": sorted(set(cuts)), "script": script, "feats": sorted(feats)}


DEFAULT_SCRIPT = [[0, 0, [_W("ok")]]]
MIX_SCRIPT = [[2, 0, [_W("later")]], [0, 0, [_W("now")]], [1, 0, [_W("p1"), "-", _W("p22")]], [3, 0, []]]


def corpus():
    cs = []
    s = b"GET / HTTP/1.1\r\nHost: x\r\n\r\n"
    cs.append(_case(s, [5, 16, 17, 25], DEFAULT_SCRIPT))
    s = (b"POST /a HTTP/1.1\r\nContent-Length: 5\r\nExpect: 100-continue\r\n\r\nhelloGET /b HTTP/1.1\r\nX: a\r\n b\r\n\r\n"
         b"PUT /c HTTP/1.1\r\nTransfer-Encoding: chunked\r\n\r\n3;x=y\r\nabc\r\n0\r\nT: v\r\n\r\nHEAD /d HTTP/1.0\r\n\r\n")
    cs.append(_case(s, list(range(1, len(s), 7)), MIX_SCRIPT))
    cs.append(_case(s, list(range(1, len(s))), DEFAULT_SCRIPT))
    cs.append(_case(b"\r\nGET / HTTP/1.1\r\n\r\n\r\n\r\nGET / HTTP/1.1\r\n\r\n", [1, 3], DEFAULT_SCRIPT))
    cs.append(_case(b"GET / HTTP/1.1\r\nConnection: close\r\n\r\nGET /2 HTTP/1.1\r\n\r\n", [20], MIX_SCRIPT))
    cs.append(_case(b"POST / HTTP/1.1\r\nTransfer-Encoding: chunked\r\n\r\n3\r\nabcXY\r\n", [49, 50], DEFAULT_SCRIPT))
    for name, st in H.boundary_streams():
        n = len(st)
        cuts = [n // 3, n // 2, n - 3] if n > 10 else []
        cs.append(_case(st, cuts, [[2, 0, [_W("slow")]], [0, 0, [_W("ok")]]] if name.startswith("eager") else DEFAULT_SCRIPT, [name]))
    return cs


def _script(rng):
    out = []
    for _ in range(rng.choice([1, 1, 2, 3, 4])):
        mode = rng.choice([0, 0, 0, 0, 1, 1, 2, 2, 2, 3])
        pieces = [rng.choice(["-", _W("a"), _W("hello world"), _W("x" * 20), "0d0a"]) for _ in range(rng.choice([0, 1, 1, 2, 3]))]
        out.append([mode, 0, pieces])
    return out


def _cuts(rng, n):
    if n <= 1:
        return []
    r = rng.random()
    if r < 0.15:
        return list(range(1, n)) if n <= 400 else sorted(rng.sample(range(1, n), 200))
    if r < 0.3:
        return [rng.randrange(1, n)]
    k = rng.choice([2, 3, 5, 8])
    return sorted(set(rng.randrange(1, n) for _ in range(k)))


def generate(rng, tier):
    n = 700 if tier == "quick" else 5000
    for i in range(n):
        stream, feats = H.gen_stream(rng, malformed=0.15 if i % 3 else 0.5)
        yield _case(stream, _cuts(rng, len(stream)), _script(rng), feats)
    if tier == "thorough":
        for name, st in H.boundary_streams():
            for _ in range(6):
                k = len(st)
                cuts = sorted(set(min(k - 1, max(1, p + rng.randint(-3, 3)))
                                  for p in [16384, 16385, 16386, k - 2, k - 1, rng.randrange(1, k)]))
                yield _case(st, cuts, _script(rng), [name])


def _ops(c, cuts=None):
    return H.ops_for(H.unhx(c["stream"]), c["cuts"] if cuts is None else cuts)


def model_line(c):
    return "run " + H.enc_script(c["script"]) + " " + H.enc_ops(_ops(c))


def run_impl(c):
    return H.enc_state(H.run_ops(c["script"], _ops(c)))


_PAUSED = re.compile(r" paused=[01]")


def _obs(c, cuts):
    return H.enc_state(H.run_ops(c["script"], _ops(c, cuts)), paused=False)


def _brief(s):
    return s if len(s) < 400 else s[:200] + "…" + s[-150:]


def oracle(c, out):
    got = _PAUSED.sub("", out)
    whole = _obs(c, [])
    if got != whole:
        return {"key": "segmentation", "detail": f"cuts {c['cuts'][:12]}: {_brief(got)} BUT in one piece: {_brief(whole)}"}
    n = len(H.unhx(c["stream"]))
    if n <= 96:
        for cut in list(range(1, n)) + [None]:
            cuts = list(range(1, n)) if cut is None else [cut]
            o = _obs(c, cuts)
            if o != whole:
                return {"key": "segmentation", "detail": f"cuts {cuts[:12]}: {_brief(o)} BUT in one piece: {_brief(whole)}"}
    return None


def tag(c, out):
    nreq = 0 if "reqs=none" in out else out.split("reqs=")[1].count(";") + 1 if "reqs=" in out else -1
    closed = out[7:8] if out.startswith("closed=") else "?"
    raised = re.search(r"raised=(\S+)", out)
    k = len(c["cuts"])
    return (",".join(c.get("feats", [])) + f"|r{min(nreq, 4)}|c{closed}|{raised.group(1) if raised else out[:20]}"
            + f"|k{0 if k == 0 else 1 if k == 1 else 2 if k < 10 else 3}")


def shrink(c):
    s = H.unhx(c["stream"])
    cuts = c["cuts"]
    for i in range(len(cuts)):
        yield dict(c, cuts=cuts[:i] + cuts[i + 1:])
    if len(c["script"]) > 1:
        for i in range(len(c["script"])):
            yield dict(c, script=c["script"][:i] + c["script"][i + 1:])
    n = len(s)
    for size in (n // 2, n // 4, 16, 4, 1):
        if size < 1:
            continue
        for i in range(0, n, size):
            t = s[:i] + s[i + size:]
            yield dict(c, stream=H.hx(t), cuts=sorted(set(min(len(t), x if x <= i else max(i, x - size)) for x in cuts)))


def search(rng, tier, disagreeing):
    """every two-piece split (and byte-by-byte) of the disagreeing streams and of fresh short streams"""
    seen = 0
    for c in disagreeing[:5]:
        n = len(H.unhx(c["stream"]))
        for cut in range(1, min(n, 400)):
            yield dict(c, cuts=[cut])
        seen += 1
    for _ in range(200 if tier == "quick" else 2000):
        stream, feats = H.gen_stream(rng, malformed=0.3)
        if len(stream) <= 200:
            yield _case(stream, list(range(1, len(stream))), _script(rng), feats)
