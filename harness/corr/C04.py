"""C04 — DeferredList / gatherResults / race fire once with correctly ordered results.

Real `twisted.internet.defer.DeferredList`, `gatherResults`, `race` over real `Deferred`s, driven
through a history (fire input i / cancel the aggregate / cancel input i) vs the Lean model
`TwistedModel/Defer/Aggregate.lean`, plus an oracle that evaluates the clauses of the property
statement on what the real objects did, from the observed firing order (independent of the model).
"""
import collections.abc
import itertools
import re

from twisted.internet.defer import (AlreadyCalledError, CancelledError, Deferred, DeferredList, FailureGroup,
                                    FirstError, gatherResults, getDebugging, race, setDebugging)
from twisted.logger import globalLogBeginner
from twisted.python.failure import Failure

try:  # DeferredList.cancel / race log the exception of a raising canceller; keep it off stderr
    globalLogBeginner.beginLoggingTo([lambda event: None], redirectStandardIO=False, discardBuffer=True)
except Exception:  # pragma: no cover
    pass

HEADLINE = "TwistedProps.C04.dl_fires_spec"
RULE = ("aggregate kind {DeferredList x 8 flag combinations, gatherResults x consumeErrors, race} x n inputs, each unfired, "
        "already fired (success/failure) or called-but-waiting on an inner Deferred (`w`) at construction and with a "
        "canceller kind {none, returns, fires callback, fires errback, raises an Exception, raises a BaseException outside "
        "Exception} x the container the inputs are handed over in {the caller's list, tuple, one-shot generator (not race), "
        "a Sequence that is a live view of the caller's list} x a history over {fire input i with success/failure, cancel "
        "the aggregate, cancel input i, the caller mutates the list it passed: clear / pop / append / insert at 0 / reverse} "
        "x Deferred debugging on/off x how the flags are passed {all by keyword, positionally, only the set ones so that "
        "the defaults are exercised} (rotating / random). "
        "quick: EVERY firing permutation x outcome assignment x pre-fired subset x flag combination for n <= 3 "
        "(canceller-less; container kind rotating; each followed by a twin with a rotating non-empty subset of the unfired "
        "inputs waiting), cancellation of the aggregate inserted at every prefix of every schedule for n <= 2 with each "
        "canceller kind on each input (rotating: that input waiting 1 in 3, a mutation of the passed list before the "
        "cancellation 5 in 7, the container kind), + 2500 random histories with n <= 12 over all of the above (15% waiting "
        "inputs, 1/6 BaseException cancellers, half of the list/view cases mutated, 10% with Deferred debugging on); "
        "thorough: the same for n <= 4 (n <= 5 for race/gather), cancellation for n <= 3, + 40000 random; "
        "distinct = (kind, flags, n, #pre-fired, any waiting, shape of the aggregate result, canceller kinds present, "
        "op kinds present, container kind, call style, debugging)")
ASSUMES = [
    "the inputs are distinct Deferreds; the only callback ahead of the aggregate's is the probe's pass-through (for a waiting "
    "input also the one that returned the inner Deferred); no input given twice",
    "the aggregate's callbacks only ever see plain values / Failures; an input may have been fired before construction and be "
    "waiting on an inner unfired Deferred (it then delivers when the inner one fires); no explicit pause()/unpause()",
    "cancellers are one of: absent, returns, fires callback(v), fires errback(e), raises an Exception subclass, raises a "
    "BaseException subclass outside Exception; a canceller only touches its own Deferred",
    "the user does not call callback/errback on the aggregate itself; callbacks added to the aggregate or to the inputs do "
    "not call back into the aggregate or the inputs (no user-level re-entrancy; re-entrancy through cancellers IS covered)",
    "race is given a Sequence (list, tuple, or a Sequence view), DeferredList / gatherResults any Iterable incl. one-shot ones",
]
TRUSTED = ["the probe callbacks (a pass-through first callback on every input recording the firing order; "
           "an addBoth recorder added after the aggregate exists; an addBoth recorder on the aggregate, which also marks the "
           "moment of its firing in the firing order) and the cancel()-counting Deferred subclass",
           "the identification, made in the Lean driver, of a called-but-waiting input with an unfired one whose canceller is "
           "the inner Deferred's, and of a canceller raising outside Exception with one raising an Exception (both tied "
           "differentially: the implementation really runs the chained / BaseException variants)"]
MANIFEST = {
    "text": "Lean theorems (TwistedProps/C04.lean) over ALL input lists (each input unfired or pre-fired, any canceller kind), "
            "flag combinations and histories of any length (invariants of every reachable state of the model). DeferredList / "
            "gatherResults, complete: fires at most once and exactly once when all inputs are in; fires exactly as the firing "
            "order dictates — first trigger (fireOnOneCallback success -> (value, index); fireOnOneErrback failure -> "
            "FirstError) else, when the last input is in, the (success, result) pairs in input order; consumeErrors leaves "
            "None for later callbacks; gatherResults gives the values in input order or the first failure; cancelling an "
            "unfired DeferredList calls cancel() once on every input. race, complete: fires at most once; every input is "
            "delivered to succeeded/failed at most once (counting invariant); a success result is the first success's "
            "(index, value), and once a first success (i, v) exists the race HAS fired exactly once with (i, v) — a "
            "FailureGroup is impossible then — unless it was cancelled before (CancelledError, only possible if the history "
            "cancels the race); the first success cancels every other input exactly once and never the winner (also when a "
            "canceller raises — repaired code); when all n inputs were delivered and none succeeded it HAS fired exactly "
            "once with a FailureGroup of exactly n failures, the i-th being input i's (or CancelledError, cancelled before); "
            "cancelling an unfired race calls cancel() on every input exactly once from the race's canceller (fired inputs "
            "too, past raising cancellers too), plus the one cancel() each non-winner gets from succeeded when a canceller "
            "turns its input into the first success during that cancellation. "
            "Model tied to defer.py by differential runs incl. exhaustive small schedules; the runs also vary what the model "
            "abstracts from and the aggregate must be indifferent to: the container the inputs arrive in (list / tuple / "
            "one-shot generator / live Sequence view), later mutation of that list by the caller, inputs that are called "
            "but still waiting on an inner Deferred, cancellers raising outside the Exception hierarchy, Deferred debugging; "
            "the oracle additionally checks that DeferredList / gatherResults fire AT the triggering delivery.",
    "note": "trusts Lean kernel, the hand model of DeferredList/_cbDeferred/cancel, gatherResults, race and of the part of "
            "Deferred they use on their inputs (differentially tied); race theorems complete (race_first_success, "
            "race_all_fail, race_cancel_unfired_cancels_inputs)",
    "technique": "Lean 4 proof (invariants over histories) + differential tie",
    "design_ref": "DESIGN.md §7 C04",
}

CANCS = ["n", "p", "k7", "f3", "r", "R"]
CALLS = ["kw", "min", "pos"]
SEQS = {"dl": ["list", "gen", "tuple", "view"], "gather": ["list", "gen", "tuple", "view"], "race": ["list", "view", "tuple"]}
MUTS = ["Mc", "Mp", "Ma", "Mi", "Mr"]


class UserError(Exception):
    pass


class CancellerBoom(Exception):
    pass


class CancellerBoomBase(BaseException):
    """raised by canceller kind `R`: outside the `Exception` hierarchy (like KeyboardInterrupt / SystemExit / GeneratorExit)"""


_BOOMS = (CancellerBoom, CancellerBoomBase)


class LiveSeq(collections.abc.Sequence):
    """a `Sequence` that is a live view of a list its owner keeps (and may go on mutating)"""

    def __init__(self, backing):
        self._backing = backing

    def __getitem__(self, i):
        return self._backing[i]

    def __len__(self):
        return len(self._backing)


class CountingDeferred(Deferred):
    ncancel = 0

    def cancel(self):
        self.ncancel += 1
        Deferred.cancel(self)


def show(r):
    if r is None:
        return "N"
    if isinstance(r, Failure):
        if r.check(UserError):
            return f"e{r.value.args[0]}"
        if r.check(CancelledError):
            return "c"
        if r.check(AlreadyCalledError):
            return "A"
        return "X" + type(r.value).__name__
    if isinstance(r, bool) or not isinstance(r, int):
        return "X" + type(r).__name__
    return f"v{r}"


def _slot(x):
    if x is None:
        return "?"
    return ("1" if x[0] else "0") + show(x[1])


def show_agg(kind, r):
    if isinstance(r, Failure):
        if r.check(FirstError):
            return f"FE({show(r.value.subFailure)}@{r.value.index})"
        if r.check(FailureGroup):
            return "FG[" + ";".join(show(f) for f in r.value.failures) + "]"
        if r.check(CancelledError):
            return "CE"
        if r.check(AssertionError):
            return "AE"
        return "X" + type(r.value).__name__
    if kind == "dl":
        if isinstance(r, list):
            return "L[" + ";".join(_slot(x) for x in r) + "]"
        if isinstance(r, tuple) and len(r) == 2:
            return f"O({show(r[0])}@{r[1]})"
    elif kind == "gather":
        if isinstance(r, list):
            return "V[" + ";".join(show(x) for x in r) + "]"
    elif kind == "race":
        if isinstance(r, tuple) and len(r) == 2:
            return f"W({r[0]}@{show(r[1])})"
    return "X" + type(r).__name__


def _mk_input(i, pre, canc, trace, counts):
    """-> (the input Deferred handed to the aggregate, the Deferred that `F<i>…` fires).  They are the same object
    unless pre == "w": then the input has ALREADY been fired (`.called` is true) but its first callback returned the
    still unfired inner Deferred (which carries the canceller), so the input is waiting on it: the aggregate's
    callback has not run, `.result` is the inner Deferred, `cancel()` is forwarded to the inner Deferred."""
    def wrap(body):
        def canceller(d):
            counts[i] += 1
            body(d)
        return canceller

    def boom(d):
        raise CancellerBoom()

    def boom_base(d):
        raise CancellerBoomBase()

    cls = Deferred if pre == "w" else CountingDeferred
    if canc == "n":
        d = cls()
    elif canc == "p":
        d = cls(wrap(lambda d: None))
    elif canc == "r":
        d = cls(wrap(boom))
    elif canc == "R":
        d = cls(wrap(boom_base))
    elif canc[0] == "k":
        v = int(canc[1:])
        d = cls(wrap(lambda d: d.callback(v)))
    elif canc[0] == "f":
        e = int(canc[1:])
        d = cls(wrap(lambda d: d.errback(UserError(e))))
    else:
        raise ValueError(canc)

    def passthru(r):
        trace.append(f"{i}={show(r)}")
        return r

    if pre == "w":
        inner, d = d, CountingDeferred()
        d.addCallback(lambda _: inner)
        d.addBoth(passthru)
        d.callback(None)
        return d, inner
    d.addBoth(passthru)
    return d, d


def _fire(d, tok):
    try:
        if tok[0] == "v":
            d.callback(int(tok[1:]))
        else:
            d.errback(UserError(int(tok[1:])))
    except AlreadyCalledError:
        pass


_OP = re.compile(r"^F(\d+)([ve]\d+)$")


def run_impl(c):
    if not c.get("dbg"):
        return _run_impl(c)
    was = getDebugging()
    setDebugging(True)
    try:
        return _run_impl(c)
    finally:
        setDebugging(was)


def _run_impl(c):
    kind, ins, ops = c["kind"], c["inputs"], c["ops"]
    n = len(ins)
    trace, counts, seen, aggres = [], [0] * n, [None] * n, []
    made = [_mk_input(i, pre, canc, trace, counts) for i, (pre, canc) in enumerate(ins)]
    ds, targets = [m[0] for m in made], [m[1] for m in made]
    for d, (pre, canc) in zip(ds, ins):
        if pre not in ("u", "w"):
            _fire(d, pre)
    # how the caller hands the inputs over: its own list (which it may go on mutating: ops `M…`), a tuple, a one-shot
    # generator (DeferredList / gatherResults take any Iterable), or a Sequence that is a live view of the caller's list
    seq = c.get("seq", "list")
    backing = list(ds)
    if seq == "list":
        arg = backing
    elif seq == "tuple":
        arg = tuple(backing)
    elif seq == "gen":
        arg = (d for d in backing)
    elif seq == "view":
        arg = LiveSeq(backing)
    else:
        raise ValueError(seq)
    # how the flags are passed: every one by keyword / positionally / only the ones that are set (defaults for the rest)
    call = c.get("call", "kw")
    if kind == "dl":
        foc, foe, ce = (b == "1" for b in c["flags"])
        if call == "kw":
            agg = DeferredList(arg, fireOnOneCallback=foc, fireOnOneErrback=foe, consumeErrors=ce)
        elif call == "pos":
            agg = DeferredList(arg, foc, foe, ce)
        elif call == "min":
            kw = {k: True for k, v in (("fireOnOneCallback", foc), ("fireOnOneErrback", foe), ("consumeErrors", ce)) if v}
            agg = DeferredList(arg, **kw)
        else:
            raise ValueError(call)
    elif kind == "gather":
        ce = c["flags"] == "1"
        if call == "kw":
            agg = gatherResults(arg, consumeErrors=ce)
        elif call == "pos":
            agg = gatherResults(arg, ce)
        elif call == "min":
            agg = gatherResults(arg, consumeErrors=True) if ce else gatherResults(arg)
        else:
            raise ValueError(call)
    else:
        agg = race(arg)

    def rec_agg(r):
        aggres.append(show_agg(kind, r))
        trace.append("A")

    agg.addBoth(rec_agg)

    def add_recorders():
        for i, d in enumerate(ds):
            def rec(r, i=i):
                seen[i] = show(r)
            d.addBoth(rec)

    if c.get("obs") == "early":
        add_recorders()
    for op in ops:
        if op == "C":
            trace.append("C")
            try:
                agg.cancel()
            except _BOOMS:
                trace.append("!")
            trace.append("c")
        elif op[0] == "I":
            try:
                ds[int(op[1:])].cancel()
            except _BOOMS:
                pass
        elif op[0] == "M":                 # the caller mutates the list it passed (no effect on tuple / generator)
            if op == "Mc":
                del backing[:]
            elif op == "Mp":
                if backing:
                    backing.pop()
            elif op == "Ma":
                backing.append(Deferred())
            elif op == "Mi":
                backing.insert(0, Deferred())
            elif op == "Mr":
                backing.reverse()
            else:
                raise ValueError(op)
        else:
            m = _OP.match(op)
            _fire(targets[int(m.group(1))], m.group(2))
    if c.get("obs") != "early":
        add_recorders()
    # "fired" = its callbacks have run (for a waiting input `.called` is true all along)
    inp = ";".join(f"{seen[i] if seen[i] is not None else 'u'}/{ds[i].ncancel}/{counts[i]}" for i in range(n)) or "-"
    return f"agg={','.join(aggres) or '-'} log={','.join(trace) or '-'} in={inp}"


def model_line(c):
    """the model has no notion of the container the inputs came in, of the caller's later mutations of it (ops `M…`
    are dropped: the aggregate must be indifferent to them) nor of Deferred debugging; `w` (called-but-waiting) and `R`
    (canceller raising outside Exception) are passed on and decoded by the driver as unfired / raises"""
    ins = ";".join(f"{p}:{k}" for p, k in c["inputs"]) or "-"
    ops = ",".join(o for o in c["ops"] if o[0] != "M") or "-"
    if c["kind"] == "race":
        return f"race {ins} {ops}"
    return f"{c['kind']} {c['flags']} {ins} {ops}"


_LINE = re.compile(r"^agg=(\S+) log=(\S+) in=(\S+)$")


def _parse(out):
    m = _LINE.match(out)
    if not m:
        return None
    agg = [] if m.group(1) == "-" else m.group(1).split(",")
    log = [] if m.group(2) == "-" else m.group(2).split(",")
    ins = [] if m.group(3) == "-" else [x.split("/") for x in m.group(3).split(";")]
    return agg, log, ins


def compare(c, io, mo):
    """the impl line carries the `C`/`!`/`c` markers of aggregate cancellation in its firing log (for the oracle);
    for race the log is the firing order on the impl side but the order of the callbacks' invocations in the model
    (they differ for inputs cancelled while race() is still attaching callbacks), so it is not compared"""
    a, b = _parse(io), _parse(mo)
    if a is None or b is None:
        return io == mo
    la = [t for t in a[1] if t not in ("C", "c", "!", "A")]
    if c["kind"] == "race":
        return a[0] == b[0] and a[2] == b[2] and sorted(la) == sorted(b[1])
    return a[0] == b[0] and la == b[1] and a[2] == b[2]


def _is_fail(tok):
    return tok[0] in "ecA"


def oracle(c, out):
    p = _parse(out)
    if p is None:
        return {"key": "crash", "detail": out[:200]}
    agg, log, ins = p
    kind, n = c["kind"], len(c["inputs"])
    if len(agg) > 1:
        return {"key": "fires-twice", "detail": out[:300]}
    if n == 0:
        return None                      # the statement is about non-empty lists
    flags = c.get("flags", "")
    foc = kind == "dl" and flags[0] == "1"
    foe = (kind == "dl" and flags[1] == "1") or kind == "gather"
    ce = (kind == "dl" and flags[2] == "1") or (kind == "gather" and flags == "1")
    fired, winner, order, cancels = None, None, {}, [0] * n
    escaped = False
    # DeferredList / gatherResults fire AT the triggering delivery: between it and the aggregate's firing (`A`) no
    # other input may be delivered, except that inputs fired before construction were all delivered to the probe first
    nprefired = sum(1 for q, _ in c["inputs"] if q not in ("u", "w"))
    due_at, fired_at = None, None
    for ev in log:
        if ev == "A":
            fired_at = len(order)
            continue
        if ev == "C":
            if fired is None:
                cancels = [k + 1 for k in cancels]     # cancelling an unfired aggregate cancels its inputs
            continue
        if ev == "!":
            escaped = True
            continue
        if ev == "c":
            if kind == "race" and fired is None:
                fired = "CE"                           # Deferred.cancel: nothing fired it -> CancelledError
            continue
        i, r = ev.split("=")
        i = int(i)
        if i in order:
            return {"key": "input-fired-twice", "detail": out[:300]}
        order[i] = r
        if kind == "race":
            if not _is_fail(r):
                if winner is None:
                    winner = i
                    cancels = [k + (1 if j != i else 0) for j, k in enumerate(cancels)]
                    if fired is None:
                        fired = f"W({i}@{r})"
            elif sum(1 for x in order.values() if _is_fail(x)) == n and fired is None:
                fired = "FG[" + ";".join(order[j] for j in range(n)) + "]"
        elif fired is None:
            if foc and not _is_fail(r):
                fired = f"O({r}@{i})"
            elif foe and _is_fail(r):
                fired = f"FE({r}@{i})"
            elif len(order) == n:
                if kind == "gather":
                    fired = "V[" + ";".join(order[j] for j in range(n)) + "]"
                else:
                    fired = "L[" + ";".join(("0" if _is_fail(order[j]) else "1") + order[j] for j in range(n)) + "]"
            if fired is not None:
                due_at = max(len(order), nprefired)
    for op in c["ops"]:
        if op[0] == "I":
            cancels[int(op[1:])] += 1
    rk = any(k in ("r", "R") for _, k in c["inputs"])
    sfx = "-raising-canceller" if rk else ""
    if escaped:
        return {"key": f"{kind}-cancel-raised{sfx}", "detail": f"aggregate.cancel() let an exception escape: {out[:300]}"}
    exp = [fired] if fired else []
    if agg != exp:
        return {"key": f"{kind}-result{sfx}", "detail": f"aggregate fired {agg} expected {exp}; firing order {log}"}
    if kind != "race" and fired is not None and fired_at != due_at:
        return {"key": f"{kind}-firing-time{sfx}", "detail": f"aggregate fired after {fired_at} deliveries, due after {due_at}; {out[:300]}"}
    got = [int(x[1]) for x in ins]
    if got != cancels:
        return {"key": f"{kind}-cancel-count{sfx}", "detail": f"cancel() calls per input {got} expected {cancels}; {out[:300]}"}
    for i in range(n):
        if i not in order:
            if ins[i][0] != "u":
                return {"key": "unfired-input-has-result", "detail": out[:300]}
            continue
        if kind != "race":
            want = "N" if (ce and _is_fail(order[i])) else order[i]
            if ins[i][0] != want:
                return {"key": f"{kind}-later-callback-result", "detail": f"input {i} fired {order[i]}, later callback saw {ins[i][0]}, expected {want}"}
    return None


def tag(c, out):
    p = _parse(out)
    shape = "?"
    if p:
        shape = (p[0][0].split("(")[0].split("[")[0] if p[0] else "none")
    pre = sum(1 for q, _ in c["inputs"] if q not in ("u", "w"))
    wait = "w" if any(q == "w" for q, _ in c["inputs"]) else ""
    cs = "".join(sorted({k[0] for _, k in c["inputs"]}))
    ops = "".join(sorted({o[0] for o in c["ops"]}))
    return (f"{c['kind']}:{c.get('flags', '')}:n{len(c['inputs'])}:p{pre}{wait}:{shape}:{cs}:{ops}:"
            f"{c.get('seq', 'list')}:{c.get('call', 'kw')}{':dbg' if c.get('dbg') else ''}")


def corpus():
    u = ["u", "n"]
    return [
        {"kind": "dl", "flags": "000", "inputs": [u, u, u], "ops": ["F2v1", "F0e2", "F1v3"], "obs": "late"},
        {"kind": "dl", "flags": "101", "inputs": [u, ["e4", "n"], u], "ops": ["F2v1", "F0e2"], "obs": "early"},
        {"kind": "dl", "flags": "011", "inputs": [u, u], "ops": ["F1e5", "F0v2"], "obs": "late"},
        {"kind": "dl", "flags": "100", "inputs": [], "ops": [], "obs": "late"},
        {"kind": "dl", "flags": "000", "inputs": [], "ops": ["C"], "obs": "late"},
        {"kind": "dl", "flags": "000", "inputs": [["u", "r"], ["u", "k7"], ["u", "p"]], "ops": ["C", "F0v1"], "obs": "late"},
        {"kind": "gather", "flags": "1", "inputs": [u, u, ["v9", "n"]], "ops": ["F1v1", "F0v2"], "obs": "late"},
        {"kind": "gather", "flags": "0", "inputs": [u, u], "ops": ["F1e1", "F0e2"], "obs": "early"},
        {"kind": "race", "inputs": [u, u, u], "ops": ["F1e1", "F2v2", "F0v3"], "obs": "late"},
        {"kind": "race", "inputs": [u, ["e1", "n"], u], "ops": ["F2e2", "F0e3"], "obs": "late"},
        {"kind": "race", "inputs": [["v1", "n"], ["u", "k7"], ["v2", "n"]], "ops": [], "obs": "late"},
        {"kind": "race", "inputs": [["u", "p"], ["u", "k7"], ["u", "n"], ["u", "f3"]], "ops": ["C"], "obs": "late"},
        # witnesses of the defect repaired in race (a canceller that raises): kept first
        {"kind": "race", "inputs": [u, ["u", "r"], u], "ops": ["F0v1"], "obs": "late"},
        {"kind": "race", "inputs": [u, ["u", "r"], u], "ops": ["C"], "obs": "late"},
        {"kind": "race", "inputs": [["u", "r"], u], "ops": ["C", "F0v1"], "obs": "late"},
        # the concrete examples next to race_first_success / race_all_fail / race_cancel_unfired_cancels_inputs
        {"kind": "race", "inputs": [["u", "r"]], "ops": ["C", "F0v1"], "obs": "late"},
        {"kind": "race", "inputs": [["u", "r"]], "ops": ["C", "F0e1"], "obs": "late"},
        {"kind": "race", "inputs": [u, ["u", "k7"], u], "ops": ["C"], "obs": "late"},
        {"kind": "race", "inputs": [u, u, u], "ops": ["F1e1", "F2e2", "F0e0"], "obs": "late"},
        # witnesses of the blind spots found by the white-box mutation audit (harness/mutants/C04): one-shot iterable,
        # the caller mutating the list it passed, cancellers raising outside Exception, called-but-waiting inputs
        {"kind": "dl", "flags": "000", "inputs": [u, u], "ops": ["F0v1", "F1v2"], "obs": "late", "seq": "gen"},
        {"kind": "gather", "flags": "0", "inputs": [u, u], "ops": ["F1v1", "F0v2"], "obs": "late", "seq": "gen"},
        {"kind": "dl", "flags": "000", "inputs": [["u", "p"], ["u", "p"]], "ops": ["Mc", "C"], "obs": "late", "seq": "list"},
        {"kind": "dl", "flags": "000", "inputs": [["u", "p"], ["u", "p"]], "ops": ["Mi", "C"], "obs": "late", "seq": "list"},
        {"kind": "dl", "flags": "000", "inputs": [["u", "R"], ["u", "p"]], "ops": ["C"], "obs": "late"},
        {"kind": "gather", "flags": "1", "inputs": [["u", "R"], ["u", "p"]], "ops": ["C"], "obs": "late", "seq": "tuple"},
        {"kind": "race", "inputs": [u, ["u", "R"], ["u", "p"]], "ops": ["F0v5"], "obs": "late"},
        {"kind": "race", "inputs": [["u", "R"], ["u", "p"]], "ops": ["C"], "obs": "late", "seq": "view"},
        {"kind": "race", "inputs": [["u", "p"], ["u", "p"]], "ops": ["Mp", "F0e1"], "obs": "late", "seq": "list"},
        {"kind": "race", "inputs": [["u", "p"], ["u", "p"], ["u", "p"]], "ops": ["Mr", "F0v1"], "obs": "late", "seq": "view"},
        {"kind": "race", "inputs": [["u", "p"], ["u", "p"]], "ops": ["Mc", "F1v1"], "obs": "late", "seq": "list"},
        {"kind": "gather", "flags": "0", "inputs": [["w", "n"], ["v2", "n"]], "ops": ["F0v1"], "obs": "late"},
        {"kind": "gather", "flags": "0", "inputs": [u, u], "ops": ["F0e1", "F1e2"], "obs": "late", "call": "min"},
        {"kind": "dl", "flags": "000", "inputs": [u, u], "ops": ["F0e1", "F1v2"], "obs": "early", "call": "min"},
        {"kind": "dl", "flags": "011", "inputs": [u, u], "ops": ["F0e1", "F1v2"], "obs": "early", "call": "pos"},
        {"kind": "dl", "flags": "000", "inputs": [["w", "p"], u], "ops": ["C"], "obs": "late"},
        {"kind": "race", "inputs": [u, ["w", "p"]], "ops": ["F0v1"], "obs": "late", "dbg": 1},
        {"kind": "race", "inputs": [["w", "k7"], ["w", "n"], u], "ops": ["C"], "obs": "early", "seq": "tuple"},
    ]


def _exhaustive(nmax_dl, nmax_other, nmax_wait):
    """every permutation x outcome x pre-fired subset x flags (canceller-less inputs); the container kind rotates over
    the cases; for n <= nmax_wait each case is followed by a twin in which a (rotating, non-empty) subset of the
    unfired inputs is called-but-waiting, passed in another container kind"""
    k = 0
    for kind, flagset, nmax in (("dl", ["".join(b) for b in itertools.product("01", repeat=3)], nmax_dl),
                                ("gather", ["0", "1"], nmax_other), ("race", [""], nmax_other)):
        for n in range(1, nmax + 1):
            for outcome in itertools.product("ve", repeat=n):
                for pre in itertools.product([False, True], repeat=n):
                    rest = [i for i in range(n) if not pre[i]]
                    ins = [[f"{outcome[i]}{i + 1}" if pre[i] else "u", "n"] for i in range(n)]
                    for perm in itertools.permutations(rest):
                        ops = [f"F{i}{outcome[i]}{i + 1}" for i in perm]
                        for fl in flagset:
                            k += 1
                            seqs = SEQS[kind]
                            c = {"kind": kind, "inputs": ins, "ops": ops, "obs": "late" if (n + len(ops)) % 2 else "early",
                                 "seq": seqs[k % len(seqs)]}
                            if kind != "race":
                                c["flags"] = fl
                                c["call"] = CALLS[k % 3]
                            yield c
                            if rest and n <= nmax_wait:
                                mask = (k // len(seqs)) % (2 ** len(rest) - 1) + 1
                                waiting = {i for b, i in enumerate(rest) if mask >> b & 1}
                                ins2 = [["w", "n"] if i in waiting else list(x) for i, x in enumerate(ins)]
                                c2 = dict(c, inputs=ins2, seq=seqs[(k + 1) % len(seqs)])
                                if kind != "race":
                                    c2["call"] = CALLS[(k + 1) % 3]
                                yield c2


def _cancel_everywhere(nmax):
    """cancellation of the aggregate inserted at every prefix of every schedule, every canceller kind on one input;
    rotating over the cases: the container kind, that input called-but-waiting (1 in 3), and (5 in 7, container a
    list or a live view) a mutation of the passed list by the caller somewhere before the cancellation"""
    k = 0
    for kind, flagset in (("dl", ["000", "100", "010", "111"]), ("gather", ["0"]), ("race", [""])):
        for n in range(1, nmax + 1):
            for outcome in itertools.product("ve", repeat=n):
                for perm in itertools.permutations(range(n)):
                    fires = [f"F{i}{outcome[i]}{i + 1}" for i in perm]
                    for cut in range(n + 1):
                        for ck in CANCS:
                            for where in range(n):
                                for fl in flagset:
                                    k += 1
                                    ins = [["w" if k % 3 == 0 else "u", ck] if j == where else ["u", "p"] for j in range(n)]
                                    ops = fires[:cut] + ["C"] + fires[cut:]
                                    mut = (MUTS + [None, None])[k % 7]
                                    if mut:
                                        ops.insert((k // 7) % (cut + 1), mut)
                                        seq = ("list", "view")[(k // 7) % 2]
                                    else:
                                        seq = SEQS[kind][(k // 7) % len(SEQS[kind])]
                                    c = {"kind": kind, "inputs": ins, "ops": ops, "obs": "late", "seq": seq}
                                    if kind != "race":
                                        c["flags"] = fl
                                        c["call"] = CALLS[(k // 2) % 3]
                                    yield c


def _random_case(rng, nmax=12):
    kind = rng.choice(["dl", "dl", "gather", "race", "race"])
    n = rng.choice([1, 1, 2, 2, 3, 3, 4, 5, 6, 8, nmax])
    plain = rng.random() < 0.3
    ins = []
    for i in range(n):
        x = rng.random()
        pre = "u" if x < 0.6 else "w" if x < 0.75 else rng.choice("ve") + str(rng.randint(0, 9))
        ins.append([pre, "n" if plain else rng.choice(CANCS)])
    ops = []
    order = list(range(n))
    rng.shuffle(order)
    for i in order:
        if rng.random() < 0.85:
            ops.append(f"F{i}{rng.choice('ve') if rng.random() < 0.8 else 'e'}{rng.randint(0, 9)}")
    for _ in range(rng.choice([0, 0, 1, 1, 2, 3])):
        extra = rng.choice(["C", "C", f"I{rng.randrange(n)}", f"F{rng.randrange(n)}{rng.choice('ve')}{rng.randint(0, 9)}"])
        ops.insert(rng.randint(0, len(ops)), extra)
    seq = rng.choice(SEQS[kind] + ["list"])
    if seq in ("list", "view") and rng.random() < 0.5:
        for _ in range(rng.choice([1, 1, 2])):
            ops.insert(rng.randint(0, len(ops)), rng.choice(MUTS))
    c = {"kind": kind, "inputs": ins, "ops": ops, "obs": rng.choice(["early", "late"]), "seq": seq}
    if rng.random() < 0.1:
        c["dbg"] = 1
    if kind == "dl":
        c["flags"] = "".join(rng.choice("01") for _ in range(3))
        c["call"] = rng.choice(CALLS)
    elif kind == "gather":
        c["flags"] = rng.choice("01")
        c["call"] = rng.choice(CALLS)
    return c


def generate(rng, tier):
    quick = tier == "quick"
    yield from _exhaustive(3 if quick else 4, 3 if quick else 5, 3)
    yield from _cancel_everywhere(2 if quick else 3)
    for _ in range(2500 if quick else 40000):
        yield _random_case(rng)


def search(rng, tier, disagreeing):
    for c in disagreeing[:20]:
        yield from shrink(c)
    yield from _cancel_everywhere(3)
    for _ in range(20000):
        yield _random_case(rng, 6)


def _reindex(ops, drop):
    out = []
    for op in ops:
        if op == "C" or op[0] == "M":
            out.append(op)
            continue
        m = re.match(r"^([FI])(\d+)(.*)$", op)
        i = int(m.group(2))
        if i == drop:
            continue
        out.append(f"{m.group(1)}{i - 1 if i > drop else i}{m.group(3)}")
    return out


def shrink(c):
    ins, ops = c["inputs"], c["ops"]
    for k in range(len(ops)):
        yield dict(c, ops=ops[:k] + ops[k + 1:])
    for i in range(len(ins)):
        if len(ins) > 1:
            yield dict(c, inputs=ins[:i] + ins[i + 1:], ops=_reindex(ops, i))
    for i, (pre, canc) in enumerate(ins):
        if canc != "n":
            yield dict(c, inputs=ins[:i] + [[pre, "n"]] + ins[i + 1:])
        if pre != "u":
            yield dict(c, inputs=ins[:i] + [["u", canc]] + ins[i + 1:])
    if c.get("dbg"):
        yield {k: v for k, v in c.items() if k != "dbg"}
    if c.get("seq", "list") != "list" and not any(op[0] == "M" for op in ops):
        yield dict(c, seq="list")
    if c.get("call", "kw") != "kw":
        yield dict(c, call="kw")
