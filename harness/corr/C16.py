"""C16 — framed-message receivers (LineOnlyReceiver, LineReceiver, NetstringReceiver, Int8/16/32StringReceiver):
real protocol classes on StringTransport vs the Lean model, plus the property oracle on the real code
(segmentation invariance, independent reference framing, exact limits, send/receive round trip)."""
from twisted.internet.testing import StringTransport
from twisted.protocols import basic

HEADLINE = "TwistedProps.C16.line_seg_invariant"
RULE = ("per receiver (int8/16/32, netstring, lineonly, line): grammar-built streams (valid frames with lengths around "
        "MAX_LENGTH, delimiters at every offset, invalid netstrings, over-long lines/prefixes) cut at random points, "
        "at every single cut point, and around delimiter/prefix boundaries; handler scripts that close, pause and "
        "switch line/raw mode on the k-th message — or pause and are resumed synchronously, re-entering dataReceived from "
        "inside the callback (~1 act in 6 for IntN / LineReceiver); resumeProducing interleaved; empty deliveries; "
        "configuration space (white-box mutation audit, harness/mutants/C16): MAX_LENGTH from 0 (IntN/line receivers; ~8% of "
        "cases) through small values to the sizes named in the code (int8 127/128/254..300; corpus + a few generated "
        "cases per run at the int16 sign bit 32767/32768, the prefix capacity 65535/65536, 4- and 5-digit netstring "
        "lengths, 16384-byte lines); IntN length prefixes drawn from the whole prefix range (top bit set, all ones, "
        "around 2**(8n-1); ~12% of frames); line delimiters from a grammar in ~45% of line cases (1-5 bytes; regex/format "
        "metacharacters alone, doubled and mixed with letters; self-overlapping such as abab / CRLFCRLF; long random) with "
        "line bodies over all delimiter bytes; every run case is additionally replayed with a SECOND live connection of "
        "the same protocol class executing the same schedule one operation behind (oracle clause `interference`); "
        "distinct = (receiver, sorted set of event kinds, #steps bucket, script features, closed?, kind of case, "
        "configuration class: MAX 0/large, delimiter usual/metacharacter/4+ bytes/other)")
ASSUMES = [
    "lineLengthExceeded / lengthLimitExceeded are the default implementations (they call transport.loseConnection())",
    "message callbacks return None; an application is a script of (close, pause, pause-and-synchronous-resume, raw-byte-count) "
    "per message index; the raw handler keeps the counted bytes and then calls setLineMode(rest)",
    "the Lean machines have no re-entrancy: a callback that pauses and is resumed before it returns (script flag r: "
    "resumeProducing() re-enters dataReceived(b'') from inside the callback) is sent to the model as a callback that does "
    "neither — which is what a receiver whose re-entrant dataReceived only buffers (LineReceiver._busyReceiving, and "
    "IntNStringReceiver since the fix found by this audit) does; the oracle judges those cases from the statement alone",
    "delimiter is non-empty; NetstringReceiver.MAX_LENGTH >= 1 (MAX_LENGTH = 0 raises ValueError from math.log10 in the code); "
    "the Lean theorems themselves hold for the models at every delimiter / MAX_LENGTH",
    "the transport stops delivering after the first loseConnection() (schedules are played up to the first close request)",
    "pausable receivers (IntN, LineReceiver): the compared schedules end quiescent (closed, or not paused) — a receiver left "
    "paused has by design not delivered yet",
    "line receivers are observed with the lineLengthExceeded argument erased (it is documented to depend on buffering); "
    "LineReceiver additionally with adjacent rawDataReceived chunks joined (raw chunking is the segmentation)",
    "line_send_receive is stated for applications that stay in line mode (script never asks for raw bytes)",
    "applications do not assign the deprecated IntNStringReceiver.recvd attribute",
    "MAX_LENGTH and delimiter are fixed for the life of a connection (set on the class before makeConnection)",
    "connections of one class are independent: the statement's 'reference framing of the stream' is read per connection, so "
    "another live connection of the same class must not change what a connection delivers (oracle clause `interference`; "
    "in the model this is pair_independent — machines are pure functions of their own state)",
    "cases whose model line would exceed 140000 hex characters (messages of >= 64 KiB) are judged by the oracle only",
]
TRUSTED = ["twisted.internet.testing.StringTransport as the transport fake",
           "CPython bytes.split / re / struct semantics as transcribed in Framing/*.lean (tied differentially on every run)"]
MANIFEST = {
    "text": "Lean theorems (TwistedProps/C16.lean), each for ALL FOUR receiver families — Int8/16/32StringReceiver (intN_*), "
            "LineOnlyReceiver (lineOnly_*), NetstringReceiver (netstring_*) and LineReceiver with pause/resume and line/raw mode "
            "switches requested by the callbacks (line_*): for every stream and every schedule of deliveries (and resumeProducing "
            "calls) the events up to the first close request equal the reference framing of the concatenated stream "
            "(*_matches_reference) — hence are independent of the segmentation (*_seg_invariant, incl. versus the stream delivered "
            "at once); strings/lines within MAX_LENGTH are never rejected and what sendString/sendLine writes is received as exactly "
            "that message (*_send_receive; netstring: decimal length round trip and _maxLengthSize bound proved), longer ones are "
            "never delivered anywhere in a run (*_over_limit_never_delivered); split_join: the model of bytes.split satisfies the "
            "join law; pair_independent: in any interleaving of the schedules of two live connections each delivers exactly "
            "what its own schedule delivers alone. All theorems are for every MAX_LENGTH (0 included) and every non-empty "
            "delimiter, which is the configuration space the generator now samples (see RULE). Proof shape: per-receiver splitting lemma (one delivery, then the reference on the rest = the reference on "
            "everything: resumption of a partial length/payload for netstrings, the line/raw/pause loop for LineReceiver) + the "
            "generic induction over schedules run_obs. Models of all six receiver classes are tied to protocols/basic.py by "
            "differential runs on structured streams with all single cuts.",
    "note": "trusts Lean kernel, the hand-written models of basic.py receivers (differentially tied), StringTransport, "
            "CPython bytes.split/re/struct",
    "technique": "Lean 4 proof (splitting lemma + generic induction over schedules) + differential tie + implementation oracle",
    "design_ref": "DESIGN.md §7.4 C16",
}

INTS = {"int8": (basic.Int8StringReceiver, 1), "int16": (basic.Int16StringReceiver, 2), "int32": (basic.Int32StringReceiver, 4)}
RECVS = ["int8", "int16", "int32", "netstring", "lineonly", "line"]


# ----------------------------------------------------------------------------------------
# real protocols with logging scripted handlers

def _act(script, k):
    if k < len(script):
        a = script[k]
        return "p" in a[0], "c" in a[0], a[1]
    return False, False, 0


_RUNAWAY = 20000        # no schedule here produces anywhere near this many events: an implementation that loops is stopped


class _Log(list):
    def append(self, x):
        if len(self) >= _RUNAWAY:
            raise RuntimeError("runaway receiver: more than %d events" % _RUNAWAY)
        list.append(self, x)


class _Mixin:
    def _setup(self, script):
        self.log = _Log()
        self.script = script
        self.k = 0
        self.rawLeft = 0

    def _message(self, kind, data):
        self.log.append(f"{kind}:{_hx(data)}")
        pause, close, raw = _act(self.script, self.k)
        self.sync = self.k < len(self.script) and "r" in self.script[self.k][0]
        self.k += 1
        return pause, close, raw

    def _sync_resume(self):
        """flag `r`: the callback pauses and is resumed synchronously, before it returns (a Deferred that has already
        fired, a consumer with room) — resumeProducing() re-enters dataReceived(b"") from inside the callback"""
        if self.sync:
            self.pauseProducing()
            self.resumeProducing()


def _mk_int(recv, mx, script):
    base, _ = INTS[recv]

    class P(_Mixin, base):
        MAX_LENGTH = mx

        def stringReceived(self, s):
            pause, close, _ = self._message("str", s)
            if close:
                self.transport.loseConnection()
            if pause:
                self.pauseProducing()
            self._sync_resume()

        def lengthLimitExceeded(self, length):
            self.log.append(f"big:{length}")
            base.lengthLimitExceeded(self, length)
    return P()


def _mk_netstring(mx, script):
    class P(_Mixin, basic.NetstringReceiver):
        MAX_LENGTH = mx

        def stringReceived(self, s):
            _, close, _ = self._message("str", s)
            if close:
                self.transport.loseConnection()
    return P()


def _mk_lineonly(mx, delim, script):
    class P(_Mixin, basic.LineOnlyReceiver):
        MAX_LENGTH = mx
        delimiter = delim

        def lineReceived(self, line):
            _, close, _ = self._message("line", line)
            if close:
                self.transport.loseConnection()

        def lineLengthExceeded(self, line):
            self.log.append(f"exc:{_hx(line)}")
            return basic.LineOnlyReceiver.lineLengthExceeded(self, line)
    return P()


def _mk_line(mx, delim, script):
    class P(_Mixin, basic.LineReceiver):
        MAX_LENGTH = mx
        delimiter = delim

        def lineReceived(self, line):
            pause, close, raw = self._message("line", line)
            if close:
                self.transport.loseConnection()
            if pause:
                self.pauseProducing()
            self._sync_resume()
            if raw > 0:
                self.rawLeft = raw
                self.setRawMode()

        def rawDataReceived(self, data):
            k = min(self.rawLeft, len(data))
            self.log.append(f"raw:{_hx(data[:k])}")
            self.rawLeft -= k
            if self.rawLeft == 0:
                self.setLineMode(data[k:])

        def lineLengthExceeded(self, line):
            self.log.append(f"exc:{_hx(line)}")
            return basic.LineReceiver.lineLengthExceeded(self, line)
    return P()


def _hx(b):
    return bytes(b).hex() if b else "-"


class _Transport(StringTransport):
    """StringTransport refuses pause/resumeProducing once loseConnection was called (a strictness of the fake,
    real transports accept it); the schedules here may pause or resume after a close request."""

    plog = None

    def _checkState(self):
        pass

    def loseConnection(self):
        self.plog.append("close")          # the close request is observed at the transport
        StringTransport.loseConnection(self)


def _make(c):
    recv, mx, script = c["recv"], c["max"], c.get("script", [])
    delim = bytes.fromhex(c.get("delim", ""))
    if recv in INTS:
        p = _mk_int(recv, mx, script)
    elif recv == "netstring":
        p = _mk_netstring(mx, script)
    elif recv == "lineonly":
        p = _mk_lineonly(mx, delim, script)
    else:
        p = _mk_line(mx, delim, script)
    p._setup(script)
    t = _Transport()
    t.plog = p.log
    p.makeConnection(t)
    return p, t


def _play(c, ops, stop_at_close=True):
    """→ (steps: list of list of event strings, protocol, transport)"""
    p, t = _make(c)
    steps = []
    for op in ops:
        if stop_at_close and t.disconnecting:
            break
        before = len(p.log)
        if op == "R":
            if hasattr(p, "resumeProducing"):
                p.resumeProducing()
        else:
            p.dataReceived(bytes.fromhex(op))
        steps.append(p.log[before:])
    return steps, p, t


def _play_pair(c, ops):
    """two live connections of the SAME protocol class, the second one executing the same schedule one operation behind
    the first (so each works while the other holds a partial length / payload / line) → (events of 1st, events of 2nd)"""
    p1, t1 = _make(c)
    p2 = type(p1)()
    p2._setup(c.get("script", []))
    t2 = _Transport()
    t2.plog = p2.log
    p2.makeConnection(t2)

    def do(p, t, op):
        if t.disconnecting:
            return
        if op == "R":
            if hasattr(p, "resumeProducing"):
                p.resumeProducing()
        else:
            p.dataReceived(bytes.fromhex(op))
    prev = None
    for op in ops:
        do(p1, t1, op)
        if prev is not None:
            do(p2, t2, prev)
        prev = op
    if prev is not None:
        do(p2, t2, prev)
    return list(p1.log), list(p2.log)


def _show(steps):
    return "/".join("+".join(s) if s else "." for s in steps)


def _wire(c):
    """what the real sendString / sendLine writes for each message"""
    p, t = _make(c)
    out = []
    for m in c["msgs"]:
        t.clear()
        try:
            if c["recv"] in ("lineonly", "line"):
                p.sendLine(bytes.fromhex(m))
            else:
                p.sendString(bytes.fromhex(m))
            out.append(t.value())
        except basic.StringTooLongError:
            out.append(None)
    return out


# ----------------------------------------------------------------------------------------
# engine interface: model line, implementation run

def _script_txt(script):
    """the model has no re-entrancy: a callback that pauses and is resumed before it returns (`r`) leaves a receiver whose
    re-entrant dataReceived only buffers exactly where a callback that does neither leaves it → `r` is sent as `n`"""
    return ";".join(f"{a[0].replace('r', '') or 'n'}:{a[1]}" for a in script) if script else "-"


_MODEL_LINE_LIMIT = 140000     # hex characters; beyond this the compiled model costs seconds per case → oracle-only


def model_line(c):
    delim = c.get("delim") or "-"
    if c["kind"] == "send":
        ln = f"send {c['recv']} {c['max']} {delim} " + ",".join(m or "-" for m in c["msgs"])
    else:
        cmd = "runall" if c.get("after_close") else "run"
        ln = f"{cmd} {c['recv']} {c['max']} {delim} {_script_txt(c.get('script', []))} " + ",".join(o or "-" for o in c["ops"])
    return ln if len(ln) <= _MODEL_LINE_LIMIT else None


def run_impl(c):
    if c["kind"] == "send":
        return ",".join("!StringTooLongError" if w is None else _hx(w) for w in _wire(c))
    steps, _, _ = _play(c, c["ops"], stop_at_close=not c.get("after_close"))
    return _show(steps)


# ----------------------------------------------------------------------------------------
# independent reference framings (textbook definitions on the whole stream; python, not the Lean model)

def _ref_int(n, mx, script, b):
    ev, k, i = [], 0, 0
    while len(b) - i >= n:
        ln = int.from_bytes(b[i:i + n], "big")
        if ln > mx:
            return ev + [f"big:{ln}", "close"]
        if len(b) - i - n < ln:
            break
        ev.append("str:" + _hx(b[i + n:i + n + ln]))
        i += n + ln
        if _act(script, k)[1]:
            return ev + ["close"]
        k += 1
    return ev


def _ref_netstring(mx, script, b):
    ev, k, i = [], 0, 0
    maxdigits = len(str(mx)) + 1          # digit strings longer than this are refused unread (≥ 10*MAX anyway)
    while i < len(b):
        j = i
        while j < len(b) and 48 <= b[j] <= 57:
            j += 1
        ds = b[i:j]
        if not ds or (ds[0] == 48 and len(ds) > 1):
            return ev + ["close"]
        if int(ds) > mx:
            return ev + ["close"]
        if j == len(b):
            break                          # length not finished yet
        if b[j] != 58:
            if b[j] == 10 and j + 1 == len(b):
                break                      # quirk of the code's `$`: one final newline is not yet an error
            return ev + ["close"]
        ln = int(ds)
        if len(b) - (j + 1) < ln + 1:
            break
        if b[j + 1 + ln] != 44:
            return ev + ["close"]
        ev.append("str:" + _hx(b[j + 1:j + 1 + ln]))
        i = j + 1 + ln + 1
        if _act(script, k)[1]:
            return ev + ["close"]
        k += 1
    return ev


def _ref_lines(mx, delim, script, b, raw_ok):
    """line / raw reference: lines are cut at the leftmost delimiter; a complete line longer than MAX, or an
    unfinished one that can no longer end within MAX (len >= MAX + len(delim)), is reported and closes."""
    ev, k, i = [], 0, 0
    while i < len(b):
        j = b.find(delim, i)
        if j < 0:
            if len(b) - i >= mx + len(delim):
                return ev + ["exc", "close"]
            break
        if j - i > mx:
            return ev + ["exc", "close"]
        ev.append("line:" + _hx(b[i:j]))
        i = j + len(delim)
        _, close, raw = _act(script, k)
        k += 1
        if close:
            return ev + ["close"]
        if raw_ok and raw > 0:
            take = b[i:i + raw]
            if take:
                ev.append("raw:" + _hx(take))
            i += len(take)
            if len(take) < raw:
                break
    return ev


def _reference(c, stream):
    recv, mx, script = c["recv"], c["max"], c.get("script", [])
    if recv in INTS:
        return _ref_int(INTS[recv][1], mx, script, stream)
    if recv == "netstring":
        return _ref_netstring(mx, script, stream)
    return _ref_lines(mx, bytes.fromhex(c["delim"]), script, stream, recv == "line")


def _obs(events):
    """observable: through the first close; lineLengthExceeded's argument erased; adjacent raw chunks joined"""
    out = []
    for e in events:
        if e.startswith("exc:"):
            e = "exc"
        if e.startswith("raw:") and out and out[-1].startswith("raw:"):
            a = "" if out[-1] == "raw:-" else out[-1][4:]
            b = "" if e == "raw:-" else e[4:]
            out[-1] = "raw:" + ((a + b) or "-")
            continue
        out.append(e)
        if e == "close":
            break
    return out


def _stream(ops):
    return b"".join(bytes.fromhex(o) for o in ops if o != "R")


def oracle(c, impl_out):
    recv = c["recv"]
    if c["kind"] == "send":
        # every message sent with the protocol's send method is received as exactly that message (any cut)
        wires = _wire(c)
        msgs = [bytes.fromhex(m) for m in c["msgs"]]
        n = INTS[recv][1] if recv in INTS else None
        for m, w in zip(msgs, wires):
            if (w is None) != (n is not None and len(m) >= 256 ** n):
                return {"key": f"{recv}:send-refusal", "detail": f"sendString of {len(m)} bytes: refused={w is None}"}
        ok = [(m, w) for m, w in zip(msgs, wires) if w is not None]
        if recv in ("lineonly", "line"):
            d = bytes.fromhex(c["delim"])
            ok = [(m, w) for m, w in ok if d not in m + d[:-1]]       # sendable lines: no delimiter formed before the end
        wire = b"".join(w for _, w in ok)
        kind = "line" if recv in ("lineonly", "line") else "str"
        for cut in [None] + c.get("cuts", []):
            ops = [wire.hex()] if cut is None else [wire[:cut].hex(), wire[cut:].hex()]
            steps, _, _ = _play(dict(c, script=[]), ops)
            got = [e for s in steps for e in s]
            exp = []
            for m, _ in ok:
                if len(m) > c["max"]:
                    break
                exp.append(f"{kind}:{_hx(m)}")
            if got[:len(exp)] != exp:
                return {"key": f"{recv}:roundtrip", "detail": f"sent {[_hx(m) for m, _ in ok]} cut={cut} received {got}"}
            if len(exp) < len(ok) and any(e.startswith(kind + ":") for e in got[len(exp):]):
                return {"key": f"{recv}:limit", "detail": f"message longer than MAX_LENGTH={c['max']} delivered: {got}"}
            if len(exp) == len(ok) and got != exp:
                return {"key": f"{recv}:roundtrip", "detail": f"sent {[_hx(m) for m, _ in ok]} cut={cut} received {got}"}
        return None

    ops = c["ops"]
    stream = _stream(ops)
    steps, p, t = _play(c, ops)
    got = _obs([e for s in steps for e in s])
    quiescent = t.disconnecting or not getattr(p, "paused", False)
    # (1) exact limits, judged on the delivered events alone
    for e in got:
        if e[:4] in ("str:", "line") and e.split(":")[1] != "-" and len(e.split(":")[1]) // 2 > c["max"]:
            return {"key": f"{recv}:limit", "detail": f"message longer than MAX_LENGTH={c['max']} delivered: {e}"}
    # (2) segmentation invariance: the same stream delivered at once (then resumed until it stops pausing)
    once_ops = [stream.hex()] + ["R"] * (sum(1 for a in c.get("script", []) if "p" in a[0]) + 1 if hasattr(p, "resumeProducing") else 0)
    osteps, op_, ot = _play(c, once_ops)
    once = _obs([e for s in osteps for e in s])
    if quiescent and got != once:
        return {"key": f"{recv}:seg", "detail": f"max={c['max']} delim={c.get('delim')} script={c.get('script')} "
                f"ops={ops}: delivered {got}; at once: {once}"}
    if not quiescent and got != once[:len(got)] and not (got and got[-1].startswith("raw:") and got[:-1] == once[:len(got) - 1]
                                                          and once[len(got) - 1].startswith(got[-1])):
        return {"key": f"{recv}:seg", "detail": f"(still paused) ops={ops}: delivered {got} is not a prefix of at once: {once}"}
    # (3) reference framing of the whole stream
    ref = _obs(_reference(c, stream))
    if once != ref:
        return {"key": f"{recv}:ref", "detail": f"max={c['max']} delim={c.get('delim')} script={c.get('script')} "
                f"stream={stream.hex()[:400]}: at once {once}; reference framing {ref}"}
    # (4) the framing is a function of THIS connection's stream: a second live connection of the same class, fed the
    # same schedule one operation behind, changes nothing for either of them
    e1, e2 = _play_pair(c, ops)
    if _obs(e1) != got or _obs(e2) != got:
        return {"key": f"{recv}:interference", "detail": f"max={c['max']} delim={c.get('delim')} script={c.get('script')} ops={ops}: "
                f"alone {got}; with another live connection of the class interleaved: {_obs(e1)} and {_obs(e2)}"}
    return None


# ----------------------------------------------------------------------------------------
# generators

DELIMS = ["0d0a", "0d0a", "0d0a", "0a", "6161", "616261", "00"]
# bytes that mean something to re / fnmatch / printf-style formatting — a delimiter is data, never a pattern
_META = b"|.$^*+?()[]{}\\%-"
_OVERLAP = [b"abab", b"aaa", b"\r\n\r\n", b"aabaa", b"\n\n", b"ababa", b"\r\r\n", b"a\x00a\x00"]


def _delim(rng):
    """a delimiter: the usual ones, or drawn from a grammar — 1 to 5 bytes, regex metacharacters (alone, repeated, mixed
    with letters: b"|", b"$$", b"a|b", b"\\n" ...), self-overlapping ones (b"abab", CRLFCRLF) and long random ones"""
    r = rng.random()
    if r < 0.55:
        return bytes.fromhex(rng.choice(DELIMS))
    if r < 0.70:
        return bytes([rng.choice(_META)]) * rng.choice([1, 1, 1, 2])
    if r < 0.80:
        n = rng.randint(2, 4)
        return bytes(rng.choice(_META + b"abn\r\n") for _ in range(n))
    if r < 0.90:
        return rng.choice(_OVERLAP)
    return bytes(rng.choice(b"ab\r\n\x00\xff") for _ in range(rng.randint(3, 5)))


def _rand_bytes(rng, n, alphabet=None):
    alphabet = alphabet or b"ab\r\n:,0159\x00\xff"
    return bytes(rng.choice(alphabet) for _ in range(n))


def _script(rng, recv, nmsgs):
    if rng.random() < 0.35:
        return []
    out = []
    for _ in range(rng.randint(1, max(1, nmsgs))):
        r = rng.random()
        flags = "n"
        if r < 0.12:
            flags = "c"
        elif r < 0.4 and recv in INTS or r < 0.4 and recv == "line":
            flags = "p"
        elif r < 0.45 and (recv in INTS or recv == "line"):
            flags = "pc"
        raw = 0
        if recv == "line" and rng.random() < 0.3:
            raw = rng.choice([1, 2, 3, 5, 8])
        if (recv in INTS or recv == "line") and flags in ("n", "c") and rng.random() < 0.2:
            flags = "r" if flags == "n" else "rc"       # paused and resumed synchronously inside the callback
        out.append([flags, raw])
    return out


def _len_near(rng, mx):
    return max(0, rng.choice([0, 1, 2, mx - 1, mx, mx, mx + 1, mx + 2, rng.randint(0, mx + 3)]))


def _stream_for(rng, recv, mx, delim, script):
    parts = []
    nm = rng.randint(1, 5)
    if recv in INTS:
        n = INTS[recv][1]
        for _ in range(nm):
            if rng.random() < 0.12:
                # a length prefix from anywhere in the prefix's range: sign bit set, all ones, just below/above 2**(8n-1)
                top = 256 ** n
                ln = rng.choice([top // 2, top // 2 - 1, top // 2 + 1, top - 1, top - 2, top - 256 if n > 1 else top - 3,
                                 rng.randrange(top // 2, top), rng.randrange(top)])
                body = _rand_bytes(rng, ln if ln <= min(mx, 300) else rng.randint(0, 6))
                parts.append(ln.to_bytes(n, "big") + body)
                continue
            ln = _len_near(rng, mx)
            if ln >= 256 ** n:
                ln = 256 ** n - 1
            body = _rand_bytes(rng, ln if rng.random() < 0.85 else rng.randint(0, ln))
            parts.append(ln.to_bytes(n, "big") + body)
        if rng.random() < 0.2:
            parts.append(_rand_bytes(rng, rng.randint(1, n)))
    elif recv == "netstring":
        for _ in range(nm):
            r = rng.random()
            ln = _len_near(rng, mx)
            body = _rand_bytes(rng, ln)
            if r < 0.7:
                parts.append(str(ln).encode() + b":" + body + b",")
            elif r < 0.75:
                parts.append(b"0" + str(ln).encode() + b":" + body + b",")      # leading zero
            elif r < 0.8:
                parts.append(str(ln).encode() + b":" + body + b";")             # missing comma
            elif r < 0.85:
                parts.append(str(ln).encode() + rng.choice([b"\n", b"\n:", b"\n\n", b" :", b"x"]) + body)
            elif r < 0.9:
                parts.append(str(mx * rng.choice([1, 9, 10, 11, 100, 1000]) + rng.randint(0, 2)).encode() + rng.choice([b"", b":"]) + body)
            elif r < 0.95:
                parts.append(str(ln).encode() + b":" + body[:rng.randint(0, len(body))])
            else:
                parts.append(_rand_bytes(rng, rng.randint(1, 4)))
    else:
        k = 0
        for _ in range(nm):
            ln = _len_near(rng, mx)
            alphabet = bytes(sorted(set(b"ab\r\n\x00" + delim)))
            body = _rand_bytes(rng, ln, alphabet)
            r = rng.random()
            if r < 0.8:
                parts.append(body + delim)
            elif r < 0.9:
                parts.append(body + delim[:-1])
            else:
                parts.append(body + _rand_bytes(rng, rng.randint(0, len(delim) + 1), alphabet))
            raw = _act(script, k)[2] if recv == "line" else 0
            k += 1
            if raw:
                parts.append(_rand_bytes(rng, rng.choice([raw, raw, raw - 1, raw + 1, 0])))
    return b"".join(parts)


def _cut(rng, stream, style):
    n = len(stream)
    if style == "once" or n == 0:
        cuts = []
    elif style == "bytes":
        cuts = list(range(1, n))
    elif style == "one":
        cuts = [rng.randint(0, n)]
    else:
        cuts = sorted(rng.randint(0, n) for _ in range(rng.randint(1, 5)))
    pieces, last = [], 0
    for x in cuts:
        pieces.append(stream[last:x])
        last = x
    pieces.append(stream[last:])
    return [p.hex() for p in pieces]


def _with_resumes(rng, recv, ops, script):
    if recv not in INTS and recv != "line":
        return ops
    out = []
    for o in ops:
        out.append(o)
        while rng.random() < 0.3:
            out.append("R")
    npause = sum(1 for a in script if "p" in a[0])
    if rng.random() < 0.85:
        out += ["R"] * (npause + 1)
    return out


def _case(rng, recv=None, style=None):
    recv = recv or rng.choice(RECVS)
    mx = rng.choice([1, 2, 3, 4, 5, 9, 10, 11, 12, 20, 99, 100, 101])
    if recv == "int8":
        mx = rng.choice([mx, 127, 128, 254, 255, 256, 300])
    if recv != "netstring" and rng.random() < 0.08:
        mx = 0                              # legal: only the empty message is within the limit
    delim = _delim(rng) if recv in ("lineonly", "line") else b""
    script = _script(rng, recv, 4)
    stream = _stream_for(rng, recv, mx, delim, script)
    style = style or rng.choice(["once", "one", "one", "few", "few", "few", "bytes"])
    ops = _with_resumes(rng, recv, _cut(rng, stream, style), script)
    c = {"kind": "run", "recv": recv, "max": mx, "script": script, "ops": ops}
    if delim:
        c["delim"] = delim.hex()
    if rng.random() < 0.1:
        c["after_close"] = True
    return c


def _send_case(rng, tier="quick"):
    recv = rng.choice(RECVS)
    if rng.random() < (0.03 if tier == "quick" else 0.004):     # a handful per run: each costs seconds in the model
        return _big_send_case(rng, recv)
    mx = rng.choice([1, 2, 5, 10, 100, 255, 256, 300])
    if recv != "netstring" and rng.random() < 0.08:
        mx = 0
    c = {"kind": "send", "recv": recv, "max": mx}
    delim = b""
    if recv in ("lineonly", "line"):
        delim = _delim(rng)
        c["delim"] = delim.hex()
    msgs = []
    for _ in range(rng.randint(1, 4)):
        ln = _len_near(rng, mx)
        if recv == "int8" and rng.random() < 0.3:
            ln = rng.choice([254, 255, 256, 257])
        msgs.append(_rand_bytes(rng, ln, b"ab\r\n,:0\x00" + delim).hex())
    c["msgs"] = msgs
    total = sum(len(m) // 2 + 6 for m in msgs)
    c["cuts"] = sorted({rng.randint(0, total) for _ in range(4)})
    return c


def _big_send_case(rng, recv):
    """one large message at the sizes named in the code: the int16 sign bit and prefix capacity, five-digit netstring
    lengths, the default MAX_LENGTHs"""
    if recv in INTS:
        recv, sizes, mx = "int16", [32767, 32768, 32769, 40000, 65535, 65536], rng.choice([65535, 70000, 99999])
    elif recv == "netstring":
        sizes, mx = [999, 1000, 9999, 10000, 99999], 99999
    else:
        sizes, mx = [16383, 16384, 16385], 16384
    n = rng.choice(sizes)
    body = bytes(rng.choice(b"ab,:0") for _ in range(64)) * (n // 64 + 1)
    c = {"kind": "send", "recv": recv, "max": mx, "msgs": [body[:n].hex(), "61"]}
    if recv in ("lineonly", "line"):
        c["delim"] = rng.choice(["0d0a", "0a"])
    c["cuts"] = sorted({1, rng.randint(0, n), n, n + 2})
    return c


def all_single_cuts(c):
    """every 2-delivery split of the case's stream (resumes appended where supported)"""
    stream = _stream(c["ops"])
    tail = ["R"] * (sum(1 for a in c.get("script", []) if "p" in a[0]) + 1) if (c["recv"] in INTS or c["recv"] == "line") else []
    for i in range(len(stream) + 1):
        d = dict(c)
        d.pop("after_close", None)
        d["ops"] = [stream[:i].hex(), stream[i:].hex()] + tail
        yield d


def corpus():
    cr = "0d0a"
    a10 = "61" * 10
    return [
        # the LineOnlyReceiver defect of the pinned tree: a MAX_LENGTH line whose CRLF is split after the CR
        {"kind": "run", "recv": "lineonly", "max": 10, "delim": cr, "script": [], "ops": [a10 + "0d", "0a"]},
        {"kind": "run", "recv": "lineonly", "max": 10, "delim": cr, "script": [], "ops": [a10 + "0d0a"]},
        {"kind": "run", "recv": "line", "max": 10, "delim": cr, "script": [], "ops": [a10 + "0d", "0a"]},
        {"kind": "run", "recv": "lineonly", "max": 3, "delim": cr, "script": [], "ops": ["61626364", "0d0a"]},
        {"kind": "run", "recv": "lineonly", "max": 3, "delim": cr, "script": [["c", 0]], "ops": ["610d0a620d0a", "630d0a"]},
        {"kind": "run", "recv": "lineonly", "max": 3, "delim": cr, "script": [], "ops": ["6161616161", "61", "0d0a"], "after_close": True},
        {"kind": "run", "recv": "line", "max": 5, "delim": cr, "script": [["n", 3], ["p", 0]],
         "ops": ["610d0a58", "5958", "620d0a630d0a", "R", "R"]},
        {"kind": "run", "recv": "line", "max": 5, "delim": "0a", "script": [["p", 2], ["c", 0]], "ops": ["610a5859620a630a", "R", "R"]},
        {"kind": "run", "recv": "int8", "max": 3, "script": [["p", 0], ["n", 0], ["c", 0]],
         "ops": ["0161", "026262", "R", "00", "0100", "R"]},
        {"kind": "run", "recv": "int16", "max": 3, "script": [], "ops": ["00", "0361626300", "04"]},
        {"kind": "run", "recv": "int16", "max": 3, "script": [], "ops": ["000161000461", "0001"], "after_close": True},
        {"kind": "run", "recv": "int32", "max": 2, "script": [], "ops": ["000000", "026161", "00000003"]},
        {"kind": "run", "recv": "netstring", "max": 12, "script": [], "ops": ["333a6162632c", "31", "323a" + "61" * 12 + "2c"]},
        {"kind": "run", "recv": "netstring", "max": 12, "script": [], "ops": ["31320a"]},
        {"kind": "run", "recv": "netstring", "max": 12, "script": [], "ops": ["31320a", "3a"]},
        {"kind": "run", "recv": "netstring", "max": 12, "script": [], "ops": ["3031", "3a"]},
        {"kind": "run", "recv": "netstring", "max": 100, "script": [], "ops": ["313031"]},
        {"kind": "run", "recv": "netstring", "max": 100, "script": [], "ops": ["31303030"]},
        {"kind": "run", "recv": "netstring", "max": 5, "script": [["c", 0]], "ops": ["313a612c313a622c"]},
        {"kind": "run", "recv": "netstring", "max": 5, "script": [], "ops": ["323a6162", "3b"], "after_close": True},
        {"kind": "send", "recv": "int8", "max": 300, "msgs": ["61" * 255, "61" * 256, ""], "cuts": [1, 2]},
        {"kind": "send", "recv": "netstring", "max": 12, "msgs": ["", "61" * 10, "2c3a"], "cuts": [1, 3, 5]},
        {"kind": "send", "recv": "lineonly", "max": 4, "delim": cr, "msgs": ["61626364", "0d", "6162636465"], "cuts": [5, 6, 7]},
        {"kind": "send", "recv": "line", "max": 4, "delim": cr, "msgs": ["61626364", "0d", ""], "cuts": [5, 6, 7]},
        # --- classes added by the white-box mutation audit (harness/mutants/C16) ---
        # length prefixes with the top bit set / all ones (a signed struct format reads them as negative)
        {"kind": "run", "recv": "int16", "max": 10, "script": [], "ops": ["ff61" + "61" * 10]},
        {"kind": "run", "recv": "int16", "max": 10, "script": [], "ops": ["000161", "80", "00", "6161"]},
        {"kind": "run", "recv": "int32", "max": 10, "script": [], "ops": ["ffffffff" + "61" * 10]},
        {"kind": "run", "recv": "int32", "max": 10, "script": [], "ops": ["0000000161", "8000", "0000", "61"]},
        {"kind": "run", "recv": "int8", "max": 300, "script": [], "ops": ["80" + "62" * 128 + "ff" + "63" * 200, "63" * 55 + "0161"]},
        {"kind": "run", "recv": "int16", "max": 70000, "script": [], "ops": ["8000" + "61" * 20000, "61" * 12768 + "000162"]},
        {"kind": "send", "recv": "int16", "max": 70000, "msgs": ["61" * 32768, "62"], "cuts": [1, 2, 32770]},
        {"kind": "send", "recv": "int16", "max": 70000, "msgs": ["61" * 65535], "cuts": [65536]},
        {"kind": "send", "recv": "int16", "max": 70000, "msgs": ["61" * 65536, "62"], "cuts": [2]},
        {"kind": "send", "recv": "netstring", "max": 99999, "msgs": ["61" * 10000, "2c"], "cuts": [3, 5, 6, 10006]},
        # MAX_LENGTH = 0: only empty messages are within the limit
        {"kind": "run", "recv": "line", "max": 0, "delim": cr, "script": [], "ops": ["0d0a", "610d0a"]},
        {"kind": "run", "recv": "line", "max": 0, "delim": cr, "script": [], "ops": ["0d0a0d", "0a61"]},
        {"kind": "run", "recv": "lineonly", "max": 0, "delim": "0a", "script": [], "ops": ["0a0a", "610a"]},
        {"kind": "run", "recv": "int8", "max": 0, "script": [], "ops": ["0000", "0161"]},
        {"kind": "send", "recv": "line", "max": 0, "delim": cr, "msgs": ["", "", "61"], "cuts": [1, 2, 3]},
        # delimiters that are regex metacharacters, long, self-overlapping
        {"kind": "run", "recv": "lineonly", "max": 10, "delim": "7c", "script": [], "ops": ["61627c63647c"]},
        {"kind": "run", "recv": "line", "max": 10, "delim": "2e", "script": [], "ops": ["61622e63", "642e"]},
        {"kind": "run", "recv": "lineonly", "max": 10, "delim": "2424", "script": [], "ops": ["6124", "2462245e24", "24"]},
        {"kind": "run", "recv": "line", "max": 10, "delim": "0d0a0d0a", "script": [], "ops": ["780d0a0d", "0a790d0a", "0d0a"]},
        {"kind": "run", "recv": "lineonly", "max": 10, "delim": "0d0a0d0a", "script": [], "ops": ["780d0a0d", "0a790d0a", "0d0a"]},
        {"kind": "run", "recv": "line", "max": 3, "delim": "6162616261", "script": [], "ops": ["78797a61626162", "61", "6162616261"]},
        {"kind": "send", "recv": "lineonly", "max": 5, "delim": "5c6e", "msgs": ["610a", "5c", "6e"], "cuts": [2, 3, 4]},
        # re-entrant resumeProducing: the callback pauses and is resumed before it returns (IntNStringReceiver used to parse its
        # whole buffer again from the start in the nested dataReceived(b"") — the string being delivered was delivered again)
        {"kind": "run", "recv": "int8", "max": 5, "script": [["r", 0]], "ops": ["016101620163"]},
        {"kind": "run", "recv": "int16", "max": 5, "script": [["n", 0], ["r", 0]], "ops": ["00016100", "016200", "0163"]},
        {"kind": "run", "recv": "int32", "max": 5, "script": [["p", 0], ["r", 0], ["rc", 0]], "ops": ["0000000161000000016200000001630000000164", "R", "R"]},
        {"kind": "run", "recv": "line", "max": 5, "delim": "0a", "script": [["r", 0], ["r", 2]], "ops": ["610a620a5859630a"]},
        # two live connections: a partial netstring payload / line / prefix held by each while the other works
        {"kind": "run", "recv": "netstring", "max": 10, "script": [], "ops": ["333a6162", "632c313a", "782c"]},
    ]


def generate(rng, tier):
    n = 1400 if tier == "quick" else 30000
    for i in range(n):
        r = rng.random()
        if r < 0.08:
            yield _send_case(rng, tier)
        elif r < 0.16:
            # every single cut of a short structured stream
            c = _case(rng, style="once")
            if len(_stream(c["ops"])) <= (40 if tier == "quick" else 120):
                yield from all_single_cuts(c)
            else:
                yield c
        else:
            yield _case(rng)


def search(rng, tier, disagreeing):
    """every split of the disagreeing streams, then all single cuts of fresh boundary streams"""
    for c in disagreeing[:20]:
        if c["kind"] == "run" and len(_stream(c["ops"])) <= 400:
            yield from all_single_cuts(c)
    for _ in range(300 if tier == "quick" else 3000):
        c = _case(rng, style="once")
        if len(_stream(c["ops"])) <= 60:
            yield from all_single_cuts(c)


def shrink(c):
    if c["kind"] != "run":
        msgs = c["msgs"]
        for i in range(len(msgs)):
            if len(msgs) > 1:
                yield dict(c, msgs=msgs[:i] + msgs[i + 1:])
        return
    ops = c["ops"]
    if c.get("after_close"):
        d = dict(c)
        d.pop("after_close")
        yield d
    for i in range(len(ops)):
        if len(ops) > 1:
            yield dict(c, ops=ops[:i] + ops[i + 1:])
    for i in range(len(ops) - 1):
        if ops[i] != "R" and ops[i + 1] != "R":
            yield dict(c, ops=ops[:i] + [ops[i] + ops[i + 1]] + ops[i + 2:])
    if c.get("script"):
        yield dict(c, script=c["script"][:-1])
        for i, a in enumerate(c["script"]):
            if a != ["n", 0]:
                yield dict(c, script=c["script"][:i] + [["n", 0]] + c["script"][i + 1:])
    for i, o in enumerate(ops):
        if o != "R" and len(o) >= 2:
            for j in range(0, len(o), 2):
                yield dict(c, ops=ops[:i] + [o[:j] + o[j + 2:]] + ops[i + 1:])


def tag(c, out):
    if c["kind"] == "send":
        return f"send:{c['recv']}:{'refused' if '!' in out else 'ok'}:{len(c['msgs'])}:{_param_class(c)}"
    kinds = sorted({e.split(":")[0] for s in out.split("/") for e in s.split("+") if e != "."})
    sc = c.get("script", [])
    feats = "".join(sorted({"s" if f == "r" else f for a in sc for f in a[0] if f != "n"})) + ("r" if any(a[1] for a in sc) else "")
    nsteps = len(c["ops"])
    bucket = "1" if nsteps == 1 else "2" if nsteps == 2 else "3-6" if nsteps <= 6 else "7+"
    return (f"{c['recv']}:{','.join(kinds) or 'none'}:{bucket}:{feats or '-'}:{'R' if 'R' in c['ops'] else '-'}:"
            f"{'ac' if c.get('after_close') else ''}:{_param_class(c)}")


def _param_class(c):
    """class of the configuration: MAX_LENGTH 0 / small / large; delimiter usual / metacharacter / 4+ bytes / other"""
    mx = "z" if c["max"] == 0 else "L" if c["max"] > 1000 else ""
    d = c.get("delim")
    if not d:
        return mx
    b = bytes.fromhex(d)
    dc = "" if d in DELIMS else "m" if any(x in _META for x in b) else "l" if len(b) >= 4 else "o"
    return mx + dc
