"""C46 — endpoint description quoting: real quoteStringArgument/_parse/serverFromString/clientFromString vs Lean model + oracle."""
from twisted.internet import endpoints
from twisted.internet.endpoints import _parse, clientFromString, quoteStringArgument, serverFromString
from twisted.internet.protocol import Factory
from twisted.internet.testing import MemoryReactor

HEADLINE = "TwistedProps.C46.roundtrip"
RULE = ("texts over an alphabet rich in ':', '=', '\\\\', whitespace, shell/path/URL punctuation ('~', '[', ']', '%', '$', ...), "
        "non-ASCII (precomposed, combining sequences, compatibility characters that NFC/NFKC/case mapping change), astral code "
        "points and LONE SURROGATES (os.fsdecode of undecodable file names), plus realistic texts (Windows paths, IPv6 literals, "
        "URLs, '~/x'), one-character texts, texts beginning/ending in an operator or backslash, boundary lengths 63..4096 (and, "
        "oracle-only, 65537+ with escapes at odd and even offsets) and "
        "hazard pairs of adjacent arguments (one letter / trailing backslash, then a text starting with backslash / operator); "
        "descriptions of 1..6 arguments mixing positional and keyword positions, passed as str, as UTF-8 bytes or as a str "
        "SUBCLASS (the texts themselves optionally str-subclass instances), every description parsed TWICE with the first result "
        "consumed (args popped / kwargs cleared, as clientFromString does) in between; the same through the public entry points: "
        "serverFromString / clientFromString with a plugin parser (raw args/kwargs, any argument list) and with the built-in "
        "unix / tcp parsers (the text observed where the endpoint hands it to a MemoryReactor: listenUNIX address, listenTCP "
        "interface, connectUNIX path, connectTCP host / bindAddress; positional and keyword slots, decoy keyword arguments "
        "before and after), with a systematic sweep in both tiers of every EDGES member (what expanduser / expandvars / normpath / "
        "strip / bracketed-IPv6 / scheme / case-folding / IDNA / int() / C-string / shell-quoting code would rewrite) alone, leading "
        "and trailing in every built-in slot; plus raw descriptions parsed directly; "
        "distinct = (op, mode, observed slot, which special characters and text classes occur, #positional, #keyword, raised?)")
ASSUMES = ["descriptions are str, str subclasses or UTF-8 bytes; the bytes tokenizer is the same code through _matchingString / "
           "iterbytes and is tied to the character-level model by differential runs (':', '=', backslash are ASCII and never occur "
           "inside a multi-byte UTF-8 sequence)",
           "keyword names contain none of ':', '=', '\\\\' (they are Python identifiers in every endpoint parser)",
           "which positional index / keyword name of the parsed description reaches which reactor parameter is Python's call "
           "binding of parser(factory, *args[1:], **kw) for the generated templates (unix address/path, tcp interface/host/"
           "bindAddress); the model selects that index / name from its own parse (driver op `slot`)",
           "on the wire to the Lean driver a lone surrogate U+D800+i is renamed to the private-use scalar U+10F800+i (Lean Char has no "
           "surrogates; the model treats every character other than ':', '=', backslash alike and only asks 'is ASCII' of keys); the "
           "generator never produces U+10F800..U+10FFFF"]
TRUSTED = ["harness/py2lean.py (translator: endpoints.quoteStringArgument is regenerated into lean/Generated/Quote.lean on every run — "
           "str as List Char, the tuple unpacking of the literal as three characters, the for-loop of argument.replace(c, "
           "backslash + c) as List.foldl of the generated loop body, str.replace with a one-character pattern as the translator's "
           "fixed pyReplace1; translator-regenerated kernel proved equal to the model: TwistedProps.C46.gen_quote)",
           "twisted.internet.testing.MemoryReactor, subclassed so that listenUNIX/listenTCP/connectUNIX/connectTCP only record their arguments "
           "(the stock fakes also wrap them in IAddress objects, which reject paths os.fsencode cannot encode)",
           "endpoints.getPlugins is replaced in-process by a function returning two recording parsers (prefixes 'fake'/'cfake') "
           "for the duration of one case"]
MANIFEST = {
    "text": "Lean theorems (TwistedProps/C46.lean) for every list of arguments in every position: parsing the ':'-joined "
            "description built with quoteStringArgument returns exactly the positional texts in order and the keyword texts "
            "under their names (literal-consumption lemma for the tokenizer, induction over the argument list); stated per "
            "position as well (positional_at: the i-th positional text is args[i]; keyword_at: the text is kw[name] unless a later "
            "argument re-uses the name) and for what a plugin parser receives after the endpoint name is dropped (plugin_roundtrip); "
            "quoteStringArgument itself is regenerated from endpoints.py by the translator on every run and proved equal to the "
            "model's quote (gen_quote); model tied to endpoints.py by differential runs of quote/_parse/roundtrip on hostile texts "
            "(str, bytes and str-subclass descriptions, each parsed twice) and of serverFromString/clientFromString (plugin, unix, "
            "tcp) observed at a MemoryReactor.",
    "note": "trusts Lean kernel, the hand-written model of quoteStringArgument/_tokenize/_parse (differentially tied), CPython str.replace, "
            "MemoryReactor; the per-endpoint parsers (_parseUNIX, _parseTCP, _parseClientUNIX, _parseClientTCP) are not modelled beyond "
            "which parsed slot they pass through — they are judged by the oracle and by the model's slot selection",
    "technique": "Lean 4 proof (tokenizer consumption lemma + induction) + differential tie + translator-regenerated kernel "
                 "(quoteStringArgument) proved equal to the model",
    "design_ref": "DESIGN.md §7.6 C46",
}

OPS3 = [":", "=", "\\"]
ALPHA = [":", "=", "\\", "a", "b", "/", " ", "é", "€", "\U0001F600", "\x00", "\n", "0", "k"]
# legal-but-unusual characters: path/shell/URL punctuation, whitespace of every kind, characters changed by Unicode
# normalisation or case mapping, code points at encoding boundaries, lone surrogates
ALPHA2 = ["~", "[", "]", "%", "$", "{", "}", "*", "?", "#", ";", ",", "'", '"', "\t", "\r", "\x0b", "\x0c", "\x1c", "\x7f", "\x80",
          "\x85", "\xa0", "\xff", "\u2028", "\u3000", "\ufeff", "\u0130", "ß", "e\u0301", "\u0301", "\u212b", "\ufb01", "\u1e9e",
          "\ud800", "\udcff", "\udfff", "\ud83d\ude00", "\uffff", "\U0010f7ff", "\U00010000", "A", "Z", "C", "c", "z", "1", "-", "_",
          ".", "@", "+", "&", "|", "<", ">", "(", ")", "!", "^", "`", "\u0100", "\u07ff", "\u0800"]
REAL = ["", "C", "c", "Z", "~", "~/sock", "~user/x", "[::1]", "::1", "[", "]", "[x", "x]", "C:\\Program Files\\sock", "C:\\", "c:",
        "\\\\server\\share\\f", "/var/run/my socket ", " leading", "trailing\n", "trailing\r\n", "\tx\t", "\xa0x\xa0", "http://h:80/p?q=1&r=2",
        "tcp:80:interface=127.0.0.1", "unix:/tmp/s:mode=660", "a=b=c", "k=v:j=w", "=", "==", ":", "::", "\\", "\\\\", "\\:", "\\=", ":\\",
        "=\\", "\\x", "x\\", "%s", "%(path)s", "$HOME/x", "${x}", "*.sock", "caf\xe9", "cafe\u0301", "\u212bngstr\xf6m", "\ufb01le", "\u0130stanbul",
        "stra\xdfe", "\udcff/x", "x\udc80", "\ud800", "None", "0", "1", "-1", "666", "lockfile", "address", "path", "host", "fake", "unix", "tcp"]
LETTERS = ["a", "b", "C", "c", "Z", "k", "é", "\u0130"]
KEYS = ["k", "key", "interface", "privateKey", "a1", "K_"]
LENGTHS = [63, 64, 65, 255, 256, 257, 1000]
# what path / host / number handling code is tempted to rewrite, by group; placed at the start, at the end, at both ends of a
# text, or as the whole text (expanduser, expandvars, normpath, strip, bracketed IPv6, scheme prefixes, case folding, IDNA,
# int()/octal parsing, C strings, shell quoting)
EDGES = [
    ["~", "~/", "~user/", "~\\"],
    ["$HOME", "${x}", "%TEMP%", "%s", "%(p)s", "{0}", "$"],
    [".", "..", "./", "../", "/.", "/..", "..."],
    ["/", "//", "\\", "\\\\", "/x/", "\\x\\"],
    ["[", "]", "[::1]", "[]", "(", ")", "<", ">", "{", "}"],
    [" ", "\n", "\r\n", "\t", "\x0b", "\x0c", "\xa0", "\u2028", "\u3000", "\ufeff", "\x85", "\x1c"],
    ["file:", "unix:", "tcp:", "http://", "ssl:", "C:", "c:\\", "fake:", "="],
    ["ABC", "Z", "\u0130", "\u1e9e", "\ufb01", "\u212b", "e\u0301", "\u03a3"],
    ["\xe9", "\xdf", "xn--", "\u3002", "\uff0e", "\udcff", "\ud800", "\U0001F600"],
    ["0", "00", "-1", "+1", "0x10", "0o7", "1e3", "1_0", "\u0663", "666", "None", "True"],
    ["\x00", "\x7f", "\x80", "\xff", "\uffff", "\x1b[0m"],
    ["'", '"', "`", "\\'", "#", ";", "&", "|", "*", "?", "!", "@", ","],
]
_SUR0, _PUA0 = 0xD800, 0x10F800


class Str(str):
    """a str subclass (a description or a text that is-a str without being exactly str)"""


def _cp(c):
    o = ord(c)
    return o - _SUR0 + _PUA0 if 0xD800 <= o <= 0xDFFF else o


def enc(t):
    return ",".join(str(_cp(c)) for c in t) if t else "-"


def _rand(rng, n):
    pool = OPS3 * 3 + ALPHA + (ALPHA2 if rng.random() < 0.5 else [])
    return "".join(rng.choice(pool) for _ in range(n))


def _text(rng, n=None):
    if n is not None:
        return _rand(rng, n)
    r = rng.random()
    if r < 0.50:
        return _rand(rng, rng.choice([0, 1, 1, 2, 3, 5, 8]))
    if r < 0.72:
        return rng.choice(REAL)
    if r < 0.80:
        return rng.choice(LETTERS + OPS3)
    if r < 0.87:        # begins / ends in an operator or a backslash
        t = _rand(rng, rng.choice([0, 1, 3]))
        if rng.random() < 0.6:
            t = t + rng.choice(OPS3)
        if rng.random() < 0.6:
            t = rng.choice(OPS3) + t
        return t
    if r < 0.95:
        return _edge_text(rng)
    n = rng.choice(LENGTHS)
    if rng.random() < 0.5:
        return (rng.choice(OPS3 + ["a", "é", "\udcff"]) * n)[:n]
    return _rand(rng, n)


def _edge_text(rng):
    """one EDGES group member at the start / end / both ends of a short text, or alone"""
    g = rng.choice(EDGES)
    where = rng.randrange(4)
    mid = rng.choice(["x", "sock", "a.b", "h-1", "x y", ""]) if rng.random() < 0.7 else _rand(rng, rng.choice([1, 2, 4]))
    if where == 0:
        return rng.choice(g)
    if where == 1:
        return rng.choice(g) + mid
    if where == 2:
        return mid + rng.choice(g)
    return rng.choice(g) + mid + rng.choice(g)


def _items(rng, lo=1, hi=6):
    items = []
    for _ in range(rng.randint(lo, hi)):
        if rng.random() < 0.6:
            items.append(["p", _text(rng)])
        else:
            items.append(["k", rng.choice(KEYS), _text(rng)])
    if items and rng.random() < 0.2:
        # hazard pair of adjacent arguments: what ends the first meets what starts the second across the ':'
        a = rng.choice(LETTERS + ["", "\\", ":", "=", "x\\", "C:", "x=", "\udcff"])
        b = rng.choice(["\\", ":", "=", "\\\\", "\\x", ":x", "=x", ""]) + _rand(rng, rng.choice([0, 1, 2]))
        i = rng.randrange(len(items) + 1)
        first = ["p", a] if rng.random() < 0.7 else ["k", rng.choice(KEYS), a]
        second = ["p", b] if rng.random() < 0.6 else ["k", rng.choice(KEYS), b]
        items[i:i] = [first, second]
    return items


def _mode(rng):
    r = rng.random()
    return "str" if r < 0.55 else "bytes" if r < 0.8 else "sub"


# built-in parsers: (side, prefix, observable, positional texts, keyword (name, text) decoys, where the text goes)
#   "T" marks the slot of the text; sel = ["a", index into args] or ["k", name]
SLOTS = [
    ("server", "unix", "unixServer", ["T"], [("mode", "660"), ("backlog", "5"), ("lockfile", "0")], ["a", 1]),
    ("server", "unix", "unixServer", [], [("address", "T"), ("mode", "600"), ("backlog", "50"), ("lockfile", "1")], ["k", "address"]),
    ("server", "tcp", "tcpInterface", ["80", "T"], [("backlog", "5")], ["a", 2]),
    ("server", "tcp", "tcpInterface", ["0"], [("interface", "T"), ("backlog", "7")], ["k", "interface"]),
    ("client", "unix", "unixClient", ["T"], [("timeout", "9"), ("lockfile", "1")], ["a", 1]),
    ("client", "unix", "unixClient", [], [("path", "T"), ("timeout", "9"), ("lockfile", "0")], ["k", "path"]),
    ("client", "tcp", "tcpHost", ["T", "80"], [("timeout", "9"), ("bindAddress", "10.0.0.1")], ["a", 1]),
    ("client", "tcp", "tcpHost", ["80"], [("host", "T"), ("timeout", "3")], ["k", "host"]),
    ("client", "tcp", "tcpHost", [], [("host", "T"), ("port", "80", True), ("bindAddress", "x")], ["k", "host"]),
    ("client", "tcp", "tcpBind", ["h", "80"], [("bindAddress", "T"), ("timeout", "9")], ["k", "bindAddress"]),
]


def _slot_case(rng, text=None, which=None, mode=None):
    side, prefix, obs, pos, kws, sel = SLOTS[rng.randrange(len(SLOTS)) if which is None else which]
    t = (_edge_text(rng) if rng.random() < 0.6 else _text(rng)) if text is None else text
    sub = lambda x: t if x == "T" else x
    keep = [kv[:2] for kv in kws if kv[1] == "T" or len(kv) > 2 or rng.random() < 0.6]     # (name, value, True) = required
    rng.shuffle(keep)
    rest = [["p", sub(x)] for x in pos]
    for k, v in keep:       # keyword arguments anywhere after the endpoint name, positional ones keep their order
        rest.insert(rng.randrange(len(rest) + 1), ["k", k, sub(v)])
    if side == "client" and rng.random() < 0.3:
        prefix = rng.choice([prefix.upper(), prefix.capitalize()])
    return {"op": "slot", "side": side, "obs": obs, "sel": sel, "items": [["p", prefix]] + rest,
            # built-in parsers are looked up by a str name: bytes descriptions never reach them (ValueError: Unknown endpoint type)
            "mode": (_mode(rng).replace("bytes", "str")) if mode is None else mode}


def corpus():
    cs = [
        {"op": "roundtrip", "items": [["p", "a=b"]]},
        {"op": "roundtrip", "items": [["p", "tcp"], ["p", "="], ["k", "k", "x=y:z\\"]]},
        {"op": "roundtrip", "items": [["k", "k", "\\"], ["p", ""]]},
        {"op": "roundtrip", "items": [["k", "k", "1"], ["k", "k", "2"]]},
        {"op": "parse", "d": "a\\"},
        {"op": "parse", "d": "a:b:d=1:c"},
        {"op": "parse", "d": "x=y=z:=:q"},
        {"op": "quote", "t": "some : path \\ with = escapes"},
        # witnesses of the white-box mutants (harness/mutants/C46): one per class
        {"op": "roundtrip", "items": [["p", "a=b=c"]]},                                   # m01 second '=' of a positional text
        {"op": "roundtrip", "items": [["p", "\\:"], ["k", "k", "\\=x"]]},                 # m02 backslash directly before an operator
        {"op": "roundtrip", "items": [["k", "k", "1"], ["k", "key", "2"], ["p", "z"]]},   # m03 keyword after keyword
        {"op": "roundtrip", "items": [["p", "\udcff/x"], ["k", "k", "\ud800"]]},          # m04 lone surrogates (str)
        {"op": "roundtrip", "items": [["p", "\udcff/x"], ["k", "k", "é:="]], "mode": "bytes"},   # m05 bytes description
        {"op": "roundtrip", "items": [["p", "C"], ["p", "\\x"], ["p", "z"]]},             # m06 one letter, then a text starting with backslash
        {"op": "roundtrip", "items": [["p", "x"], ["k", "k", ""]]},                       # m07 empty keyword text
        {"op": "roundtrip", "items": [["p", "x"], ["p", ""]]},                            # m08 empty final positional text
        {"op": "roundtrip", "items": [["k", "k", "v"], ["p", ""]]},
        {"op": "plugin", "side": "client", "items": [["p", "a"], ["k", "k", "b"]], "mode": "str"},     # m09 parsed twice, first result consumed
        {"op": "roundtrip", "items": [["p", "cafe\u0301"], ["k", "k", "\u212b\ufb01"]]},  # m10 texts that NFC/NFKC change
        {"op": "plugin", "side": "client", "items": [["p", "é"], ["k", "k", "€"]], "mode": "str"},     # m11 non-ASCII through clientFromString
        {"op": "plugin", "side": "server", "items": [["p", "a"], ["p", ""], ["p", "b"]], "mode": "str"},   # m14 empty text handed to a plugin
        {"op": "plugin", "side": "server", "items": [["p", ""], ["k", "k", ""]], "mode": "sub"},
        {"op": "roundtrip", "items": [["p", "a:b"], ["k", "k", "c=d"]], "mode": "sub", "tsub": True},  # str-subclass description (fixed defect)
        {"op": "roundtrip", "items": [["p", ":" * 4096], ["k", "k", "\\" * 4096], ["p", "\udcff" * 4096]]},      # boundary sizes
        {"op": "roundtrip", "items": [["p", "=" * 4096], ["k", "k", "é" * 4097]], "mode": "bytes"},
    ]
    # beyond any plausible chunk size, escapes at odd and even offsets: oracle-only (the model's tokenizer is quadratic in the text)
    for pad in ("", "x"):
        cs.append({"op": "roundtrip", "items": [["p", pad + ":a" * 33000], ["k", "k", pad + "\\=" * 22000]], "nomodel": True})
    cs.append({"op": "plugin", "side": "server", "items": [["p", "é\\" * 35000], ["k", "k", "=" * 65537]], "mode": "bytes", "nomodel": True})
    import random
    rng = random.Random(46)
    for i, t in enumerate(["~", "~/sock", "[::1]", "x]", "", " ", "a:b=c\\", "é", "\udcff", "C:\\x"]):
        for which in range(len(SLOTS)):                                                    # m12 / m13: every built-in slot
            if (i + which) % 3 == 0 or t in ("~", "[::1]"):
                cs.append(_slot_case(rng, t, which, "str"))
    return cs


def generate(rng, tier):
    # systematic sweep (both tiers): every EDGES member alone / leading / trailing, in every built-in slot
    for which in range(len(SLOTS)):
        for g in EDGES:
            for e in g:
                mid = rng.choice(["x", "sock", "a.b", "h-1", "x y"])
                for t in (e, e + mid, mid + e):
                    yield _slot_case(rng, t, which, "sub" if rng.random() < 0.15 else "str")
    n = 3000 if tier == "quick" else 40000
    for i in range(n):
        r = rng.random()
        if r < 0.38:
            c = {"op": "roundtrip", "items": _items(rng), "mode": _mode(rng)}
            if rng.random() < 0.15:
                c["tsub"] = True
            yield c
        elif r < 0.54:
            yield {"op": "plugin", "side": rng.choice(["server", "client"]), "items": _items(rng, 0, 5), "mode": _mode(rng)}
        elif r < 0.78:
            yield _slot_case(rng)
        elif r < 0.89:
            yield {"op": "parse", "d": _text(rng, rng.randint(0, 12))}
        else:
            c = {"op": "quote", "t": _text(rng) if rng.random() < 0.5 else _text(rng, rng.randint(0, 10))}
            if rng.random() < 0.2:
                c["tsub"] = True
            yield c


def _mitem(i):
    return ("p:" + enc(i[1])) if i[0] == "p" else f"k:{enc(i[1])}:{enc(i[2])}"


def model_line(c):
    if c.get("nomodel"):
        return None
    if c["op"] == "quote":
        return "quote " + enc(c["t"])
    if c["op"] == "parse":
        return "parse " + enc(c["d"])
    if c["op"] == "plugin":
        return "plugin " + " ".join(_mitem(i) for i in [["p", _prefix(c)]] + c["items"])
    if c["op"] == "slot":
        s = c["sel"]
        return "slot " + (f"a:{s[1]}" if s[0] == "a" else "k:" + enc(s[1])) + " " + " ".join(_mitem(i) for i in c["items"])
    return "roundtrip " + " ".join(_mitem(i) for i in c["items"])


def _dec(x):
    return x.decode("utf-8", "surrogatepass") if isinstance(x, bytes) else x


def _show(res):
    args, kw = res
    return ("args=" + ";".join(enc(_dec(a)) for a in args) + "|kw="
            + ";".join(enc(k) + "=" + enc(_dec(v)) for k, v in sorted(kw.items(), key=lambda kv: [ord(c) for c in kv[0]])))


def _prefix(c):
    return "fake" if c["side"] == "server" else "cfake"


def _q(c, t):
    return quoteStringArgument(Str(t) if c.get("tsub") else t)


def _describe(c):
    items = c["items"]
    if c["op"] == "plugin":
        items = [["p", _prefix(c)]] + items
    return ":".join(_q(c, i[1]) if i[0] == "p" else i[1] + "=" + _q(c, i[2]) for i in items)


def _as_mode(c, d):
    m = c.get("mode", "str")
    if m == "bytes":
        return d.encode("utf-8", "surrogatepass")
    if m == "sub":
        return Str(d)
    return d


class _Rec:
    def __init__(self, prefix):
        self.prefix = prefix

    def parseStreamServer(self, reactor, *args, **kw):
        return (list(args), dict(kw))

    parseStreamClient = parseStreamServer


_PLUGINS = [_Rec("fake"), _Rec("cfake")]


class _Reactor(MemoryReactor):
    """MemoryReactor recording the arguments VERBATIM: the stock methods also build a fake port/connector around an
    IAddress, and UNIXAddress refuses a path that os.fsencode cannot encode (a surrogate outside U+DC80..U+DCFF) — that is
    the reactor's business, not the description parser's."""

    def listenUNIX(self, address, factory, backlog=50, mode=0o666, wantPID=0):
        self.unixServers.append((address, factory, backlog, mode, wantPID))

    def connectUNIX(self, address, factory, timeout=30, checkPID=0):
        self.unixClients.append((address, factory, timeout, checkPID))

    def listenTCP(self, port, factory, backlog=50, interface=""):
        self.tcpServers.append((port, factory, backlog, interface))

    def connectTCP(self, host, port, factory, timeout=30, bindAddress=None):
        self.tcpClients.append((host, port, factory, timeout, bindAddress))


def _observe(c, d):
    """the text (or args/kwargs) that comes out at the far end of the public entry point"""
    r = _Reactor()
    ep = (serverFromString if c["side"] == "server" else clientFromString)(r, d)
    if c["op"] == "plugin":
        return _show(ep)
    if c["side"] == "server":
        ep.listen(Factory())
    else:
        ep.connect(Factory())
    o = c["obs"]
    v = (r.unixServers[0][0] if o == "unixServer" else r.tcpServers[0][3] if o == "tcpInterface" else
         r.unixClients[0][0] if o == "unixClient" else r.tcpClients[0][0] if o == "tcpHost" else r.tcpClients[0][4][0])
    return enc(_dec(v))


def _twice(f):
    """the operation run twice on the same description; the first result is consumed in between"""
    a = f()
    b = f()
    return a if a == b else f"!unstable first[{a}] second[{b}]"


def run_impl(c):
    if c["op"] == "quote":
        return enc(quoteStringArgument(Str(c["t"]) if c.get("tsub") else c["t"]))
    if c["op"] in ("plugin", "slot"):
        d = _as_mode(c, _describe(c))
        saved = endpoints.getPlugins
        endpoints.getPlugins = lambda iface, *a: list(_PLUGINS)
        try:
            try:
                return _twice(lambda: _observe(c, d))
            except (RuntimeError, UnicodeEncodeError, IndexError) as e:
                return "!raised " + type(e).__name__
        finally:
            endpoints.getPlugins = saved
    d = c["d"] if c["op"] == "parse" else _as_mode(c, _describe(c))

    def once():
        res = _parse(d)
        out = _show(res)
        if res[0]:
            res[0].pop(0)       # what clientFromString does with the result it was given
        res[1].clear()
        return out
    try:
        return _twice(once)
    except (RuntimeError, UnicodeEncodeError, IndexError) as e:
        return "!raised " + type(e).__name__


def _expected(c):
    """the property statement, from the case alone: each quoted text comes back at its position"""
    args = [i[1] for i in c["items"] if i[0] == "p"]
    kw = {}
    for i in c["items"]:
        if i[0] == "k":
            kw[i[1]] = i[2]
    if c["op"] == "slot":
        s = c["sel"]
        return enc(args[s[1]] if s[0] == "a" else kw[s[1]])
    return _show((args, kw))


def oracle(c, out):
    if c["op"] not in ("roundtrip", "plugin", "slot"):
        return None
    exp = _expected(c)
    if out != exp:
        bad = [i for i in c["items"] if i[0] == "p" and "=" in i[1]]
        key = "positional-equals" if c["op"] == "roundtrip" and bad and not out.startswith("!") else "roundtrip"
        where = c["op"] if c["op"] == "roundtrip" else f"{c['op']} {c['side']}" + (f" {c['obs']}" if c["op"] == "slot" else "")
        return {"key": key, "detail": f"{where} ({c.get('mode', 'str')}): description {_describe(c)!r} gave {out[:300]} expected {exp[:300]}"}
    return None


def shrink(c):
    if c["op"] not in ("roundtrip", "plugin", "slot"):
        return
    items = c["items"]
    fixed = set()
    if c["op"] == "slot":       # keep the endpoint name and every positional argument (the selected index must not move)
        fixed = {i for i, it in enumerate(items) if it[0] == "p"}
    for i in range(len(items)):
        if len(items) > 1 and i not in fixed:
            if c["op"] == "slot" and c["sel"][0] == "k" and items[i][1] == c["sel"][1]:
                continue
            yield dict(c, items=items[:i] + items[i + 1:])
    for i, it in enumerate(items):
        if c["op"] == "slot" and (i == 0 or it[-1].isdigit()):
            continue
        t = it[-1]
        if len(t) > 16:
            yield dict(c, items=items[:i] + [it[:-1] + [t[:len(t) // 2]]] + items[i + 1:])
            yield dict(c, items=items[:i] + [it[:-1] + [t[len(t) // 2:]]] + items[i + 1:])
        for j in range(min(len(t), 24)):
            yield dict(c, items=items[:i] + [it[:-1] + [t[:j] + t[j + 1:]]] + items[i + 1:])
    if c.get("mode", "str") != "str":
        yield dict(c, mode="str")
    if c.get("tsub"):
        yield dict(c, tsub=False)


def _classes(texts):
    s = ""
    j = "".join(texts)
    if any(0xD800 <= ord(ch) <= 0xDFFF for ch in j):
        s += "s"
    if any(ord(ch) > 127 for ch in j):
        s += "n"
    if any(len(t) > 60 for t in texts):
        s += "L"
    if any(t == "" for t in texts):
        s += "e"
    if any(t and (t[0].isspace() or t[-1].isspace()) for t in texts):
        s += "w"
    if any(t.endswith("\\") for t in texts):
        s += "b"
    if any(ch in j for ch in "~[]%$"):
        s += "p"
    return s


def tag(c, out):
    texts = [i[-1] for i in c["items"]] if "items" in c else [c.get("t", c.get("d", ""))]
    j = "".join(texts)
    s = "".join(ch for ch in ":=\\" if ch in j) + "/" + _classes(texts)
    if c["op"] in ("roundtrip", "plugin", "slot"):
        what = c["op"] if c["op"] == "roundtrip" else c["side"][0] + (c["obs"] + c["sel"][0] if c["op"] == "slot" else "plugin")
        return (f"{what}:{c.get('mode', 'str')}{'+t' if c.get('tsub') else ''}:{s}:p{sum(1 for i in c['items'] if i[0]=='p')}"
                f":k{sum(1 for i in c['items'] if i[0]=='k')}")
    return f"{c['op']}:{s}:{'raise' if out.startswith('!') else 'ok'}"
