"""C46 — endpoint description quoting: real quoteStringArgument/_parse vs Lean model + oracle."""
from twisted.internet.endpoints import _parse, quoteStringArgument

HEADLINE = "TwistedProps.C46.roundtrip"
RULE = ("texts over an alphabet rich in ':', '=', '\\\\', non-ASCII and astral code points; descriptions of 1..6 "
        "arguments mixing positional and keyword positions; plus raw descriptions parsed directly; "
        "distinct = (op, which special characters occur, #positional, #keyword, raised?)")
ASSUMES = ["descriptions are str (the bytes variant of _tokenize is the same code path through _matchingString)",
           "keyword names contain none of ':', '=', '\\\\' (they are Python identifiers in every endpoint parser)"]
TRUSTED = ["harness/py2lean.py (translator: endpoints.quoteStringArgument is regenerated into lean/Generated/Quote.lean on every run — "
           "str as List Char, the tuple unpacking of the literal as three characters, the for-loop of argument.replace(c, "
           "backslash + c) as List.foldl of the generated loop body, str.replace with a one-character pattern as the translator's "
           "fixed pyReplace1; translator-regenerated kernel proved equal to the model: TwistedProps.C46.gen_quote)"]
MANIFEST = {
    "text": "Lean theorems (TwistedProps/C46.lean) for every list of arguments in every position: parsing the ':'-joined "
            "description built with quoteStringArgument returns exactly the positional texts in order and the keyword texts "
            "under their names (literal-consumption lemma for the tokenizer, induction over the argument list); "
            "quoteStringArgument itself is regenerated from endpoints.py by the translator on every run and proved equal to the "
            "model's quote (gen_quote); model tied to "
            "endpoints.py by differential runs of quote/_parse/roundtrip on hostile texts.",
    "note": "trusts Lean kernel, the hand-written model of quoteStringArgument/_tokenize/_parse (differentially tied), CPython str.replace",
    "technique": "Lean 4 proof (tokenizer consumption lemma + induction) + differential tie + translator-regenerated kernel "
                 "(quoteStringArgument) proved equal to the model",
    "design_ref": "DESIGN.md §7.6 C46",
}

ALPHA = [":", "=", "\\", "a", "b", "/", " ", "é", "€", "\U0001F600", "\x00", "\n", "0", "k"]
KEYS = ["k", "key", "interface", "privateKey", "a1", "K_"]


def enc(t):
    return ",".join(str(ord(c)) for c in t) if t else "-"


def _text(rng, n=None):
    n = rng.choice([0, 1, 1, 2, 3, 5, 8]) if n is None else n
    return "".join(rng.choice(ALPHA[:3] * 3 + ALPHA) for _ in range(n))


def corpus():
    return [
        {"op": "roundtrip", "items": [["p", "a=b"]]},
        {"op": "roundtrip", "items": [["p", "tcp"], ["p", "="], ["k", "k", "x=y:z\\"]]},
        {"op": "roundtrip", "items": [["k", "k", "\\"], ["p", ""]]},
        {"op": "roundtrip", "items": [["k", "k", "1"], ["k", "k", "2"]]},
        {"op": "parse", "d": "a\\"},
        {"op": "parse", "d": "a:b:d=1:c"},
        {"op": "parse", "d": "x=y=z:=:q"},
        {"op": "quote", "t": "some : path \\ with = escapes"},
    ]


def generate(rng, tier):
    n = 1500 if tier == "quick" else 40000
    for i in range(n):
        r = rng.random()
        if r < 0.6:
            items = []
            for _ in range(rng.randint(1, 6)):
                if rng.random() < 0.6:
                    items.append(["p", _text(rng)])
                else:
                    items.append(["k", rng.choice(KEYS), _text(rng)])
            yield {"op": "roundtrip", "items": items}
        elif r < 0.8:
            yield {"op": "parse", "d": _text(rng, rng.randint(0, 12))}
        else:
            yield {"op": "quote", "t": _text(rng, rng.randint(0, 10))}


def model_line(c):
    if c["op"] == "quote":
        return "quote " + enc(c["t"])
    if c["op"] == "parse":
        return "parse " + enc(c["d"])
    return "roundtrip " + " ".join(("p:" + enc(i[1])) if i[0] == "p" else f"k:{enc(i[1])}:{enc(i[2])}" for i in c["items"])


def _show(res):
    args, kw = res
    return ("args=" + ";".join(enc(a) for a in args) + "|kw="
            + ";".join(enc(k) + "=" + enc(v) for k, v in sorted(kw.items(), key=lambda kv: [ord(c) for c in kv[0]])))


def _describe(c):
    return ":".join(quoteStringArgument(i[1]) if i[0] == "p" else i[1] + "=" + quoteStringArgument(i[2]) for i in c["items"])


def run_impl(c):
    if c["op"] == "quote":
        return enc(quoteStringArgument(c["t"]))
    d = c["d"] if c["op"] == "parse" else _describe(c)
    try:
        return _show(_parse(d))
    except (RuntimeError, UnicodeEncodeError, IndexError) as e:
        return "!raised " + type(e).__name__


def oracle(c, out):
    if c["op"] != "roundtrip":
        return None
    args = [i[1] for i in c["items"] if i[0] == "p"]
    kw = {}
    for i in c["items"]:
        if i[0] == "k":
            kw[i[1]] = i[2]
    exp = _show((args, kw))
    if out != exp:
        bad = [i for i in c["items"] if i[0] == "p" and "=" in i[1]]
        key = "positional-equals" if bad and not out.startswith("!") else "roundtrip"
        return {"key": key, "detail": f"description {_describe(c)!r} parsed as {out} expected {exp}"}
    return None


def shrink(c):
    if c["op"] != "roundtrip":
        return
    items = c["items"]
    for i in range(len(items)):
        if len(items) > 1:
            yield {"op": "roundtrip", "items": items[:i] + items[i + 1:]}
    for i, it in enumerate(items):
        t = it[-1]
        for j in range(len(t)):
            yield {"op": "roundtrip", "items": items[:i] + [it[:-1] + [t[:j] + t[j + 1:]]] + items[i + 1:]}


def tag(c, out):
    txt = model_line(c)
    s = "".join(ch for ch, code in ((":", "58"), ("=", "61"), ("\\", "92")) if code in txt.replace(":", " ").replace(",", " ").split())
    if c["op"] == "roundtrip":
        return f"rt:{s}:p{sum(1 for i in c['items'] if i[0]=='p')}:k{sum(1 for i in c['items'] if i[0]=='k')}"
    return f"{c['op']}:{s}:{'raise' if out.startswith('!') else 'ok'}"
