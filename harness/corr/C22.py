"""C22 — chunked transfer coding: real _ChunkedTransferDecoder / _IdentityTransferDecoder / toChunk /
_hexint / _decint vs the Lean model, plus an independent whole-stream reference parser as property oracle."""
import re

from twisted.web import http
from twisted.web._abnf import _decint, _hexint

HEADLINE = "TwistedProps.C22.decode_encode"
RULE = ("grammar-generated chunked streams (1..6 chunks, sizes 1..5/16/300/5000, size digits in mixed case with leading "
        "zeros, extensions over the allowed alphabet, 0..3 trailer lines incl. lone CR/LF, extra bytes) cut into deliveries "
        "(every 2-way split of short encodings, byte-at-a-time, random k-way with empty deliveries, deliveries after the "
        "end); truncations; byte-level mutations (size digits, ';', extension bytes, the CRLFs); size lines of 1020..1027 "
        "bytes; partial lines (CRLF never arrives) of 1020..1027 bytes, alone / ending in CR / after good chunks / followed by "
        "a late CRLF, cut at 1023/1024/1025 and byte-at-a-time near the bound; trailer sections of 2^16-4..2^16+4 bytes with "
        "the critical cut points; identity decoder with Content-Length and with contentLength=None, noMoreData once, twice "
        "(Content-Length given) and followed by dataReceived; _hexint/_decint/toChunk on hostile byte strings. distinct = "
        "(op, generator class, reference verdict, exception class, delivery-count bucket, features)")
ASSUMES = [
    "callbacks return normally (the decoder is not re-entered from dataCallback/finishCallback)",
    "a decoder that raised is dropped (HTTPChannel answers 400 and disconnects): behaviour after a raise is not compared",
    "size-line bound, exactly as http.py enforces it (maxChunkSizeLineLength = 1024; `eolIndex >= 1024 or (eolIndex == -1 "
    "and len(buffer) > 1024)`): a size line whose CRLF has arrived is accepted iff it is <= 1023 bytes WITHOUT its CRLF "
    "(CRLF at index <= 1023; 1025 bytes with the CRLF) and refused from 1024 bytes on; while no CRLF has arrived up to 1024 "
    "bytes are buffered and the 1025th is refused. The round-trip theorems assume lines <= 1023 bytes; both rejections and "
    "the toleration of <= 1024 CRLF-free bytes are theorems. (The module docstring's 'maximum allowable length of the "
    "CRLF-terminated line' = 1024 read literally would be 1022 bytes + CRLF; the code and its tests "
    "test_oversizedChunkSizeLine[Partial] allow one byte more.) Trailer fields incl. their CRLFs <= 2**16 bytes",
    "_IdentityTransferDecoder with contentLength=None: noMoreData() is called at most once (as HTTPClientParser does); a "
    "second call finds finishCallback None and raises TypeError in the code - that state (None, callbacks dropped) is the "
    "only decoder state outside identity_noMoreData_table and is not tied",
]
TRUSTED = ["the reference parser in harness/corr/C22.py (RFC 9112 section 7.1 grammar, written independently of the model)"]
MANIFEST = {
    "text": "Lean theorems (TwistedProps/C22.lean) over the transcribed _ChunkedTransferDecoder state machine, for every "
            "chunk list, extensions, trailers, extra bytes and every segmentation into deliveries (induction over the "
            "delivery list per stream element, composed over the chunk list): body delivered exactly, finishCallback once "
            "with exactly the extra bytes, _DataLoss on every truncation, malformed size/extension/CRLF rejected under every "
            "segmentation; the size-line bound is exact under every segmentation (line of >= 1024 bytes before its CRLF "
            "refused, 1025 CRLF-free bytes refused whatever follows - rejects_overlong_size_line_no_crlf -, <= 1024 CRLF-free "
            "bytes waited on - partial_size_line_tolerated); _IdentityTransferDecoder: exact delivery with Content-Length, "
            "_DataLoss when short, and without Content-Length every byte delivered, noMoreData = finishCallback(b'') once + "
            "PotentialDataLoss (identity_until_close_exact), noMoreData outcome for every decoder state "
            "(identity_noMoreData_table, chunked_noMoreData_table); model tied to http.py by differential runs on structured "
            "streams and splits.",
    "note": "trusts Lean kernel, the hand-written model of the decoder (differentially tied), CPython bytearray.find/int(b,16)",
    "technique": "Lean 4 proof (state-machine invariants, induction over deliveries) + differential tie + reference-parser oracle",
    "design_ref": "DESIGN.md §7 C22",
}

MAXLINE = 1024
MAXTRAILER = 2 ** 16
# bytes admitted in a chunk extension: token characters, the delimiters ';' '=' '"', qdtext (HTAB, SP, VCHAR except
# backslash) and obs-text.  quoted-pair (backslash) is deliberately not admitted by Twisted (GHSA-c2jg-hw38-jrqq,
# test_extensionsMalformed), so it is a "disallowed byte" of the property statement.
EXTOK = frozenset([9] + [c for c in range(32, 127) if c != 92] + list(range(128, 256)))
CRLF = b"\r\n"


def hx(b):
    return bytes(b).hex() if b else "-"


def unhx(s):
    return b"" if s == "-" else bytes.fromhex(s)


# ------------------------------------------------------------------------------------------------
# reference: whole-stream parser written from the grammar (not from the decoder)

def ref_parse(stream, limits=True):
    """→ dict(verdict= ok|incomplete|malformed|overlimit, body=bytes decoded so far, end=index after final CRLF)"""
    pos, body = 0, b""
    while True:
        i = stream.find(CRLF, pos)
        if i < 0:
            if limits and len(stream) - pos > MAXLINE - 1:
                # "must": more than maxChunkSizeLineLength bytes buffered and still no CRLF (test_oversizedChunkSizeLinePartial)
                return {"verdict": "overlimit", "body": body, "must": len(stream) - pos > MAXLINE}
            return {"verdict": "incomplete", "body": body}
        line = stream[pos:i]
        if limits and len(line) > MAXLINE - 2:
            # "must": the CRLF starts at index >= maxChunkSizeLineLength (test_oversizedChunkSizeLine)
            return {"verdict": "overlimit", "body": body, "must": len(line) >= MAXLINE}
        size, _, ext = line.partition(b";")
        if not re.fullmatch(rb"[0-9A-Fa-f]+", size, re.S):
            return {"verdict": "malformed", "body": body, "why": "size"}
        if any(c not in EXTOK for c in ext):
            return {"verdict": "malformed", "body": body, "why": "ext"}
        n = int(size, 16)
        pos = i + 2
        if n == 0:
            break
        chunk = stream[pos:pos + n]
        body += chunk
        pos += n
        if len(chunk) < n:
            return {"verdict": "incomplete", "body": body}
        term = stream[pos:pos + 2]
        if len(term) < 2:
            return {"verdict": "incomplete", "body": body}
        if term != CRLF:
            return {"verdict": "malformed", "body": body, "why": "crlf"}
        pos += 2
    total = 0
    while True:
        i = stream.find(CRLF, pos)
        if i < 0:
            part = stream[pos:]
            if limits and part not in (b"", b"\r") and total + len(part) + (1 if part.endswith(b"\r") else 2) > MAXTRAILER:
                return {"verdict": "overlimit", "body": body}
            return {"verdict": "incomplete", "body": body}
        if i == pos:
            return {"verdict": "ok", "body": body, "end": i + 2}
        total += i - pos + 2
        if limits and total > MAXTRAILER:
            return {"verdict": "overlimit", "body": body}
        pos = i + 2


# ------------------------------------------------------------------------------------------------
# generators

HEXCH = b"0123456789abcdefABCDEF"
EXTALPHA = bytes(sorted(EXTOK))
BADEXT = bytes(c for c in range(256) if c not in EXTOK and c not in (13, 10)) + b"\r\n"


def _size_digits(rng, n):
    s = b"%x" % n
    r = rng.random()
    if r < 0.25:
        s = s.upper()
    elif r < 0.4:
        s = bytes(rng.choice([c, ord(chr(c).upper())]) for c in s)
    if rng.random() < 0.2:
        s = b"0" * rng.randint(1, 3) + s
    return s


def _ext(rng):
    if rng.random() < 0.6:
        return b""
    n = rng.choice([0, 1, 3, 8, 20])
    return b";" + bytes(rng.choice(rng.choice([EXTALPHA, b"abc=;\" \t"])) for _ in range(n))


def _payload(rng, n):
    return bytes(rng.choice(rng.choice([b"\r\n0;:a", bytes(range(256))])) for _ in range(n))


def _trailer_line(rng, n=None):
    n = rng.choice([1, 2, 5, 12, 30]) if n is None else n
    while True:
        t = bytes(rng.choice(rng.choice([b"\r\nab: ", bytes(range(256))])) for _ in range(n))
        if CRLF not in t and n > 0:
            return t


def _valid_stream(rng, big=False):
    parts = []
    for _ in range(rng.choice([0, 1, 1, 2, 3, 6])):
        n = rng.choice([1, 1, 2, 3, 5, 16, 17]) if not big else rng.choice([1, 255, 256, 300, 5000])
        data = _payload(rng, n)
        parts.append(_size_digits(rng, n) + _ext(rng) + CRLF + data + CRLF)
    parts.append(b"0" * rng.choice([1, 1, 1, 2, 4]) + _ext(rng) + CRLF)
    for _ in range(rng.choice([0, 0, 0, 1, 2, 3])):
        parts.append(_trailer_line(rng) + CRLF)
    parts.append(CRLF)
    enc = b"".join(parts)
    extra = rng.choice([b"", b"", b"X", b"\r\n", b"0\r\n\r\n", b"GET / HTTP/1.1\r\n\r\n", _payload(rng, 3)])
    return enc, extra


def _cut(stream, points):
    pts = sorted(set(p for p in points if 0 <= p <= len(stream)))
    out, last = [], 0
    for p in pts:
        out.append(stream[last:p])
        last = p
    out.append(stream[last:])
    return out


def _random_split(rng, stream):
    r = rng.random()
    if r < 0.15:
        return [stream]
    if r < 0.35:
        return [stream[i:i + 1] for i in range(len(stream))] or [b""]
    k = rng.randint(1, 6)
    d = _cut(stream, [rng.randint(0, len(stream)) for _ in range(k)])
    if rng.random() < 0.3:
        d.insert(rng.randint(0, len(d)), b"")
    return d


def _case(deliveries, end, why):
    return {"op": "chunked", "d": [hx(x) for x in deliveries], "end": int(end), "why": why}


def _mutate(rng, stream):
    if not stream:
        return b"\r\n"
    s = bytearray(stream)
    # prefer positions in size lines / CRLFs: positions near any CR, LF, ';' or in the first line
    hot = [i for i, c in enumerate(s) if c in b"\r\n;"] + list(range(min(len(s), 4)))
    for _ in range(rng.choice([1, 1, 2])):
        i = rng.choice(hot) if hot and rng.random() < 0.7 else rng.randrange(len(s))
        i = max(0, min(len(s) - 1, i + rng.choice([-2, -1, 0, 0, 1, 2])))
        r = rng.random()
        if r < 0.45:
            s[i] = rng.choice(b"gGxX+- \t\\\x00\x7f\x1f;\r\n0a" + bytes([rng.randrange(256)]))
        elif r < 0.7:
            del s[i]
        else:
            s.insert(i, rng.choice(b"gx+- \\\x00\x7f;\r\n0"))
    return bytes(s)


def _line_limit_cases(rng):
    out = []
    for L in (1020, 1021, 1022, 1023, 1024, 1025, 1026, 1027):
        for style in ("ext", "zeros"):
            line = (b"3;" + b"e" * (L - 2)) if style == "ext" else (b"0" * (L - 1) + b"3")
            stream = line + CRLF + b"abc\r\n0\r\n\r\n"
            for pts in ([], [L], [L + 1], [L - 1], [1, L], [1024], [1025], [1023, 1024, 1025]):
                out.append(_case(_cut(stream, pts), 1, "linelen"))
        for pts in ([], [1], [L - 1], [1023], [1024], [1025], [1023, 1024, 1025], list(range(1018, 1030))):
            # partial line, CRLF never arrives
            out.append(_case(_cut(b"3;" + b"e" * (L - 2), pts), 1, "linelen-partial"))
            out.append(_case(_cut(b"3;" + b"e" * (L - 3) + b"\r", pts), 1, "linelen-partial"))
            out.append(_case(_cut(b"\r" * L, pts), 1, "linelen-partial"))
            out.append(_case(_cut(b"\n" + b"z" * (L - 1), pts), 0, "linelen-partial"))
        head = b"2;x\r\nhi\r\n1\r\n!\r\n"
        h = len(head)
        for pts in ([], [h], [h + 1024], [h + 1025], [h - 1, h + 1023], [3, h + L - 1]):
            # after good chunks; and the CRLF arriving too late / junk after the bound
            out.append(_case(_cut(head + b"3;" + b"e" * (L - 2), pts), 1, "linelen-partial-after"))
            out.append(_case(_cut(head + b"3;" + b"e" * (L - 2) + b"\r", pts + [h + L]), 1, "linelen-partial-after"))
            out.append(_case(_cut(head + b"f" * L + b"\n\r\nabc", pts + [h + L]), 1, "linelen-partial-after"))
    return out


def _trailer_limit_cases(rng, deltas):
    out = []
    for delta in deltas:
        T = MAXTRAILER + delta
        for shape in ("one", "two", "cr-inside"):
            if shape == "one":
                lines = [b"t" * (T - 2)]
            elif shape == "two":
                lines = [b"a: b", b"u" * (T - 6 - 2)]
            else:
                lines = [b"\r" + b"v" * (T - 4) + b"\r"]
            head = b"1\r\nZ\r\n0\r\n"
            tr = b"".join(x + CRLF for x in lines)
            assert len(tr) == T
            stream = head + tr + CRLF + b"EX"
            a, b = len(head), len(head) + T
            for pts in ([], [b], [b + 1], [b + 2], [b - 1], [b - 2], [b - 1, b + 1], [a], [a + 1, b - 3], [a + 100, b + 1],
                        [rng.randint(a, b), b + 1]):
                out.append(_case(_cut(stream, pts), 1, "trailerlim"))
            out.append(_case(_cut(stream[:b + 1], [b]), 1, "trailerlim-trunc"))
            out.append(_case(_cut(stream[:b - 1], [a + 5]), 1, "trailerlim-trunc"))
    return out


def corpus():
    c = []
    s = b"3\r\nabc\r\n5;x=y\r\n12345\r\nA\r\n0123456789\r\n0\r\nT: v\r\n\r\nEXTRA"
    c.append(_case([s], 1, "valid"))
    c.append(_case([s[i:i + 1] for i in range(len(s))], 1, "valid"))
    c.append(_case([s[:20]], 1, "trunc"))
    c.append(_case([b"0\r\n\r\n", b"", b"more"], 0, "after-end"))
    c.append(_case([b"bloop\r\nabc\r\n"], 1, "mut"))
    c.append(_case([b"3\r\nabcXY"], 1, "mut"))
    c.append(_case([b"3;a\\b\r\nabc\r\n"], 1, "mut"))
    c.append(_case([b"-3\r\nabc\r\n"], 1, "mut"))
    c.append(_case([b"0x3\r\nabc\r\n"], 1, "mut"))
    c.append(_case([b"\r\n"], 1, "mut"))
    # witness of the trailer-limit defect: trailers of exactly 2**16 bytes, cut between the final CR and LF
    head, tr = b"1\r\nZ\r\n0\r\n", b"t" * (MAXTRAILER - 2) + CRLF
    c.append(_case([head + tr + b"\r", b"\n"], 1, "trailerlim"))
    c.append(_case([head + tr + b"\r\n"], 1, "trailerlim"))
    c.append({"op": "identity", "n": 3, "d": [hx(b"ab"), hx(b"cde")], "end": 1, "why": "identity"})
    c.append({"op": "identity", "n": None, "d": [hx(b"ab"), hx(b"cde")], "end": 1, "why": "identity"})
    c.append({"op": "identity", "n": None, "d": [hx(b"ab"), hx(b""), hx(b"cde")], "end": 3, "why": "identity"})
    c.append({"op": "identity", "n": None, "d": [], "end": 1, "why": "identity"})
    c.append({"op": "identity", "n": 0, "d": [], "end": 2, "why": "identity"})
    c.append({"op": "identity", "n": 3, "d": [hx(b"ab")], "end": 2, "why": "identity"})
    c.append({"op": "identity", "n": 3, "d": [hx(b"abcd")], "end": 3, "why": "identity"})
    # the size-line bound without CRLF: 1024 bytes are waited on, the 1025th is refused, in one piece or not
    c.append(_case([b"3;" + b"e" * 1022], 1, "linelen-partial"))
    c.append(_case([b"3;" + b"e" * 1023], 1, "linelen-partial"))
    c.append(_case([b"3;" + b"e" * 1022, b"e"], 1, "linelen-partial"))
    c.append(_case([b"3;" + b"e" * 1021 + b"\r", b"\n"], 1, "linelen-partial"))
    c.append(_case([b"3;" + b"e" * 1022 + b"\r", b"\n"], 1, "linelen-partial"))
    c.append({"op": "hexint", "b": hx(b"1F")})
    c.append({"op": "hexint", "b": hx(b"0x1F")})
    c.append({"op": "decint", "b": hx(b" \t12 ")})
    c.append({"op": "decint", "b": hx(b"+12")})
    c.append({"op": "tochunk", "b": hx(b"hello world, 16+")})
    return c


def generate(rng, tier):
    quick = tier == "quick"
    # 1. valid streams × segmentations
    for _ in range(250 if quick else 6000):
        enc, extra = _valid_stream(rng, big=rng.random() < 0.08)
        stream = enc + extra
        if len(stream) <= 64 and rng.random() < (0.25 if quick else 0.5):
            for p in range(len(stream) + 1):
                yield _case(_cut(stream, [p]), 1, "valid-allsplits")
        for _ in range(2):
            d = _random_split(rng, stream)
            r = rng.random()
            if r < 0.15:
                d = d + [b""] * rng.randint(1, 2)
                yield _case(d, 1, "valid-empty-after")
            elif r < 0.3:
                d = d + [rng.choice([b"x", b"\r\n", b"0\r\n\r\n"])] + ([b"y"] if rng.random() < 0.3 else [])
                yield _case(d, rng.randint(0, 1), "valid-data-after")
            else:
                yield _case(d, rng.randint(0, 1), "valid")
        # 2. truncations
        for _ in range(2):
            cut = rng.randint(0, max(0, len(enc) - 1))
            yield _case(_random_split(rng, enc[:cut]), 1, "trunc")
        # 3. mutations
        for _ in range(3):
            m = _mutate(rng, stream)
            yield _case(_random_split(rng, m), 1, "mut")
            if len(m) <= 40 and rng.random() < 0.1:
                for p in range(len(m) + 1):
                    yield _case(_cut(m, [p]), 1, "mut-allsplits")
    # 4. every extension byte value, every size-digit byte value
    for c in range(256):
        yield _case([b"2;a" + bytes([c]) + b"b\r\nxy\r\n0\r\n\r\n"], 1, "extbyte")
        yield _case([b"2;", bytes([c]), b"\r\nxy\r\n0\r\n\r\n"], 1, "extbyte")
        yield _case([b"1" + bytes([c]) + b"\r\n" + b"z" * 0x1a + b"\r\n0\r\n\r\n"], 1, "sizebyte")
        yield _case([b"2\r\nxy" + bytes([c]), b"\n0\r\n\r\n"], 1, "crlfbyte")
        yield _case([b"2\r\nxy\r" + bytes([c]) + b"0\r\n\r\n"], 1, "crlfbyte")
    # 5. limits
    for c in _line_limit_cases(rng):
        yield c
    for c in _trailer_limit_cases(rng, [0, -1, -2, 1] if quick else [-4, -3, -2, -1, 0, 1, 2, 3, 4]):
        yield c
    # 6. identity decoder
    for _ in range(300 if quick else 5000):
        n = rng.choice([None, 0, 1, 2, 3, 5, 8, 13])
        total = rng.randint(0, 16)
        d = _random_split(rng, _payload(rng, total))
        if rng.random() < 0.1:
            d = []
        end = rng.choice([0, 1, 1, 2, 3])
        if end == 2 and n is None:
            end = 3       # a second noMoreData() with contentLength=None is outside the model (TypeError in the code): ASSUMES
        yield {"op": "identity", "n": n, "d": [hx(x) for x in d], "end": end, "why": "identity"}
    # 7. _hexint / _decint / toChunk
    for _ in range(400 if quick else 6000):
        b = bytes(rng.choice(rng.choice([HEXCH, HEXCH, b"xX+-_ \t\r\ngG\x00", bytes(range(256))]))
                  for _ in range(rng.choice([0, 1, 1, 2, 3, 8, 20])))
        yield {"op": "hexint", "b": hx(b)}
        b = bytes(rng.choice(rng.choice([b"0123456789", b"0123456789", b" \t", b"+-_\n\r\x0b\x0caA\xb2\xb9"]))
                  for _ in range(rng.choice([0, 1, 2, 3, 6, 25])))
        yield {"op": "decint", "b": hx(b)}
    for n in list(range(0, 40)) + [255, 256, 257, 4095, 4096, 65535, 65536]:
        yield {"op": "tochunk", "b": hx(_payload(rng, n))}


# ------------------------------------------------------------------------------------------------
# model line / implementation

def _dl(c):
    return ",".join(c["d"]) if c["d"] else "none"


def model_line(c):
    op = c["op"]
    if op == "chunked":
        return f"chunked {c['end']} {_dl(c)}"
    if op == "identity":
        return f"identity {'none' if c['n'] is None else c['n']} {c['end']} {_dl(c)}"
    return f"{op} {c['b']}"


_EXC = (http._MalformedChunkedDataError, http._DataLoss, http.PotentialDataLoss, RuntimeError)


def _render(data, fin, exc):
    return f"data={hx(b''.join(data))} fin={';'.join(hx(x) for x in fin) if fin else 'none'} exc={exc}"


def _drive(dec, data, fin, c):
    exc = "-"
    for i, d in enumerate(c["d"]):
        try:
            dec.dataReceived(unhx(d))
        except _EXC as e:
            exc = f"{type(e).__name__}@{i}"
            break
    else:
        if c["end"]:
            try:
                dec.noMoreData()
            except _EXC as e:
                exc = f"{type(e).__name__}@end"
        if c["end"] == 2:
            try:
                dec.noMoreData()
                exc += "+-"
            except _EXC as e:
                exc += f"+{type(e).__name__}@end2"
        elif c["end"] == 3:
            try:
                dec.dataReceived(b"x")
                exc += "+-"
            except _EXC as e:
                exc += f"+{type(e).__name__}@post"
    return _render(data, fin, exc)


def run_impl(c):
    op = c["op"]
    if op == "chunked":
        data, fin = [], []
        return _drive(http._ChunkedTransferDecoder(data.append, fin.append), data, fin, c)
    if op == "identity":
        data, fin = [], []
        return _drive(http._IdentityTransferDecoder(c["n"], data.append, fin.append), data, fin, c)
    b = unhx(c["b"])
    if op == "hexint":
        try:
            return str(_hexint(b))
        except ValueError:
            return "!raised ValueError"
    if op == "decint":
        try:
            return str(_decint(b))
        except ValueError:
            return "!raised ValueError"
    if op == "tochunk":
        return hx(b"".join(http.toChunk(b)))
    raise ValueError(op)


# ------------------------------------------------------------------------------------------------
# property oracle (on the implementation's observable; never looks at the model)

def _parse_out(out):
    m = re.fullmatch(r"data=(\S+) fin=(\S+) exc=(\S+)", out)
    if not m:
        return None
    fin = [] if m.group(2) == "none" else [unhx(x) for x in m.group(2).split(";")]
    exc = m.group(3)
    name, at = (None, None) if exc == "-" else exc.split("@")
    return unhx(m.group(1)), fin, name, at


def _expect_chunked(c):
    """what the property demands for this delivery list → (list of acceptable (data-check, fin, exc-name, at)) description"""
    ds = [unhx(x) for x in c["d"]]
    stream = b"".join(ds)
    ref = ref_parse(stream)
    free = ref_parse(stream, limits=False) if ref["verdict"] == "overlimit" else ref
    return ds, stream, ref, free


def _oracle_chunked(c, out):
    p = _parse_out(out)
    if p is None:
        return {"key": "escaped-exception", "detail": out}
    data, fin, exc, at = p
    ds, stream, ref, free = _expect_chunked(c)
    v = ref["verdict"]
    if v == "overlimit":
        # beyond the documented limits the property only forbids wrong output ...
        if exc == "_MalformedChunkedDataError" and free["body"].startswith(data) and not fin:
            return None
        # ... except where the code's own bound (and its tests) demand the rejection: a size line of >= 1024 bytes
        # before its CRLF, or > 1024 bytes buffered in the size-line position with no CRLF (buffering must stay bounded)
        if ref.get("must"):
            return {"key": "overlong-accepted", "detail": f"size line over the limit ({len(stream)} bytes in all, deliveries "
                    f"{[len(d) for d in ds]}) not refused: {exc}@{at}, delivered {len(data)} bytes, fin={fin!r:.40}"}
        ref, v = free, free["verdict"]
    if v == "ok":
        body, end = ref["body"], ref["end"]
        # delivery that contains the last byte of the encoding
        acc, k = 0, None
        for i, d in enumerate(ds):
            acc += len(d)
            if acc >= end:
                k = i
                break
        extra_in_k = stream[end:acc]
        later = [i for i in range(k + 1, len(ds)) if ds[i]]
        if data != body:
            return {"key": "body-differs", "detail": f"delivered {data!r:.80} expected {body!r:.80}"}
        if exc == "_MalformedChunkedDataError":
            return {"key": "valid-rejected", "detail": f"valid in-limit stream rejected at delivery {at} (deliveries {[len(d) for d in ds]})"}
        if fin != [extra_in_k]:
            return {"key": "finish", "detail": f"finishCallback calls {fin!r:.120} expected once with {extra_in_k!r:.80}"}
        if later:
            if (exc, at) != ("RuntimeError", str(later[0])):
                return {"key": "after-finish", "detail": f"data after the last chunk: {exc}@{at}, expected RuntimeError@{later[0]}"}
        elif exc is not None:
            return {"key": "spurious-exception", "detail": f"{exc}@{at} on a complete stream"}
        return None
    if v == "incomplete":
        if fin:
            return {"key": "finish-early", "detail": f"finishCallback{fin!r:.80} before the last chunk"}
        if not ref["body"].startswith(data):
            return {"key": "body-differs", "detail": f"delivered {data!r:.80}, stream so far decodes to {ref['body']!r:.80}"}
        if exc == "_MalformedChunkedDataError":
            return {"key": "valid-rejected", "detail": f"prefix of a valid in-limit stream rejected at delivery {at}"}
        if c["end"] and (exc, at) != ("_DataLoss", "end"):
            return {"key": "no-data-loss", "detail": f"stream ended early but noMoreData gave {exc}@{at}"}
        if not c["end"] and exc is not None:
            return {"key": "spurious-exception", "detail": f"{exc}@{at}"}
        return None
    if v == "malformed":
        if fin:
            return {"key": "finish-early", "detail": f"finishCallback{fin!r:.80} on malformed stream"}
        if not ref["body"].startswith(data):
            return {"key": "body-differs", "detail": f"delivered {data!r:.80}, valid part decodes to {ref['body']!r:.80}"}
        if exc != "_MalformedChunkedDataError":
            return {"key": "malformed-accepted:" + ref["why"], "detail": f"malformed ({ref['why']}) stream {stream!r:.80}: {exc}@{at}"}
        return None
    return None


def _oracle_identity(c, out):
    m = re.fullmatch(r"data=(\S+) fin=(\S+) exc=(\S+)", out)
    if not m:
        return {"key": "escaped-exception", "detail": out}
    data = unhx(m.group(1))
    fin = [] if m.group(2) == "none" else [unhx(x) for x in m.group(2).split(";")]
    exc = m.group(3)
    ds = [unhx(x) for x in c["d"]]
    stream = b"".join(ds)
    n, end = c["n"], c["end"]
    raised_in_delivery = None
    if n is None:
        # body delimited by the end of the connection: every byte delivered; noMoreData = finishCallback(b"") once
        # and PotentialDataLoss
        wdata, wfin, first = stream, ([b""] if end else []), ("PotentialDataLoss@end" if end else "-")
    else:
        acc, k = 0, None
        for i, d in enumerate(ds):
            acc += len(d)
            if acc >= n:
                k = i
                break
        if k is None:
            wdata, wfin, first = stream, [], ("_DataLoss@end" if end and n != 0 else "-")
        else:
            wdata, wfin, first = stream[:n], [stream[n:acc]], "-"
            if k + 1 < len(ds):       # any later call, even empty, finds dataCallback None
                raised_in_delivery = f"RuntimeError@{k + 1}"
    if raised_in_delivery:
        wexc = raised_in_delivery
    elif end == 2:
        wexc = first + "+" + ("_DataLoss@end2" if first == "_DataLoss@end" else "-")   # same verdict, nothing called again
    elif end == 3:
        wexc = first + "+RuntimeError@post"                 # after noMoreData both callbacks are gone
    else:
        wexc = first
    got, want = (data, fin, exc), (wdata, wfin, wexc)
    if got != want:
        return {"key": "identity", "detail": f"n={n} end={end} deliveries={[len(d) for d in ds]} got {got!r:.150} expected {want!r:.150}"}
    return None


def oracle(c, out):
    op = c["op"]
    if op == "chunked":
        return _oracle_chunked(c, out)
    if op == "identity":
        return _oracle_identity(c, out)
    b = unhx(c["b"])
    if op == "hexint":
        want = str(int(b, 16)) if re.fullmatch(rb"[0-9a-fA-F]+", b, re.S) else "!raised ValueError"
        return None if out == want else {"key": "hexint", "detail": f"_hexint({b!r}) = {out}, expected {want}"}
    if op == "decint":
        t = b.strip(b" \t")
        want = str(int(t)) if re.fullmatch(rb"[0-9]+", t, re.S) else "!raised ValueError"
        return None if out == want else {"key": "decint", "detail": f"_decint({b!r}) = {out}, expected {want}"}
    if op == "tochunk":
        want = hx(b"%x\r\n" % len(b) + b + b"\r\n")
        if out != want:
            return {"key": "tochunk", "detail": f"toChunk({b!r:.40}) = {out:.80}"}
        if b:   # and what it wrote decodes back
            r = ref_parse(unhx(out) + b"0\r\n\r\n")
            if r["verdict"] != "ok" or r["body"] != b:
                return {"key": "tochunk", "detail": f"toChunk({b!r:.40}) does not parse back"}
    return None


# ------------------------------------------------------------------------------------------------

def tag(c, out):
    op = c["op"]
    if op == "chunked":
        ds, stream, ref, free = _expect_chunked(c)
        p = _parse_out(out)
        exc = p[2] if p else "?"
        n = len(ds)
        nb = "1" if n <= 1 else "2" if n == 2 else "few" if n <= 8 else "many"
        feats = ("x" if b";" in stream else "") + ("e" if ref["verdict"] == "ok" and ref["end"] < len(stream) else "") \
            + ("z" if any(not d for d in ds) else "")
        return f"ch:{c.get('why', '')}:{ref['verdict']}:{ref.get('why', '')}:{exc}:{nb}:{feats}"
    if op == "identity":
        m = re.search(r" exc=(\S+)$", out)
        ev = re.sub(r"@\d+", "@i", m.group(1)) if m else "?"
        return f"id:{'none' if c['n'] is None else min(c['n'], 3)}:{ev}:{min(len(c['d']), 3)}:{c['end']}"
    return f"{op}:{'raise' if out.startswith('!') else 'ok'}:{min(len(c['b']) // 2, 4)}"


def shrink(c):
    if c["op"] not in ("chunked", "identity"):
        return
    d = c["d"]
    for i in range(len(d) - 1):       # merge neighbours
        a, b = unhx(d[i]), unhx(d[i + 1])
        yield dict(c, d=d[:i] + [hx(a + b)] + d[i + 2:])
    for i in range(len(d)):           # drop a delivery
        yield dict(c, d=d[:i] + d[i + 1:])
    if c["op"] == "chunked" and sum(len(x) for x in d) < 400:
        for i in range(len(d)):       # drop one byte
            b = unhx(d[i])
            for j in range(len(b)):
                yield dict(c, d=d[:i] + [hx(b[:j] + b[j + 1:])] + d[i + 1:])


def search(rng, tier, disagreeing):
    """Property-directed: every 2-way split and the byte-at-a-time split of each disagreeing stream, of the corpus
    streams, and a fresh batch of valid/mutated streams; plus the full limit neighbourhoods."""
    seen = 0
    pool = [c for c in disagreeing if c.get("op") == "chunked"][:20] + [c for c in corpus() if c["op"] == "chunked"]
    for c in pool:
        stream = b"".join(unhx(x) for x in c["d"])
        pts = range(len(stream) + 1) if len(stream) <= 2000 else sorted(
            set(list(range(0, 40)) + list(range(len(stream) - 40, len(stream) + 1))))
        for p in pts:
            yield _case(_cut(stream, [p]), 1, "search-split")
            seen += 1
        if len(stream) <= 2000:
            yield _case([stream[i:i + 1] for i in range(len(stream))], 1, "search-bytes")
    for c in _line_limit_cases(rng):
        yield c
    for c in _trailer_limit_cases(rng, [-3, -2, -1, 0, 1, 2]):
        yield c
    for _ in range(300):
        enc, extra = _valid_stream(rng)
        stream = enc + extra
        for p in range(min(len(stream), 80) + 1):
            yield _case(_cut(stream, [p]), 1, "search-valid")
        m = _mutate(rng, stream)
        for p in range(min(len(m), 80) + 1):
            yield _case(_cut(m, [p]), 1, "search-mut")
