"""C22 — chunked transfer coding: real _ChunkedTransferDecoder / _IdentityTransferDecoder / toChunk / fromChunk /
_hexint / _decint vs the Lean model, plus an independent whole-stream reference parser as property oracle."""
import re

from twisted.web import http
from twisted.web._abnf import _decint, _hexint

HEADLINE = "TwistedProps.C22.decode_encode"
RULE = ("grammar-generated chunked streams (1..6 chunks, sizes 1..5/16/300/5000, size digits in mixed case with leading "
        "zeros, extensions over the allowed alphabet, 0..3 trailer lines incl. lone CR/LF, extra bytes) cut into deliveries "
        "(every 2-way split of short encodings, byte-at-a-time, random k-way with empty deliveries, deliveries after the "
        "end); truncations; byte-level mutations (size digits, ';', extension bytes, the CRLFs); size lines of 1020..1027 "
        "bytes; partial lines (CRLF never arrives) of 1020..1027 bytes, alone / ending in CR / after good chunks / followed by "
        "a late CRLF, cut at 1023/1024/1025 and byte-at-a-time near the bound; trailer sections of 2^16-4..2^16+4 bytes with "
        "the critical cut points; identity decoder with Content-Length and with contentLength=None, noMoreData once, twice "
        "(Content-Length given) and followed by dataReceived; _hexint/_decint/toChunk on hostile byte strings. "
        "Grammar-directed classes (mutation audit): ONE size field of a valid stream (any chunk, the last-chunk too, with or "
        "without an extension behind it) decorated with what int(x,16) tolerates but 1*HEXDIG does not (SP/HTAB/LF/VT/FF/CR/"
        "NBSP before, after, both sides; BWS before ';'; sign; 0x/0b/0o prefix; underscores; suffix letters; empty; 7..40 "
        "leading zeros); chunk extensions built from parameter/quoted-string shapes with one probed byte (allowed or not) "
        "inside quotes, after '=', as a name, after the closing quote, last, 160..200 bytes deep; chunks announcing a size "
        "at an integer boundary (2^31, 2^32, 2^53, 2^63, 2^64, 16^20, 16^200, each -1/+1) of which only a prefix arrives; counts "
        "far beyond ordinary messages within the documented BYTE limits (101..600 [thorough ..2500] trailer fields, 100..1100 "
        "[..3000] chunks, 60..200 extension parameters); re-entrant probes: in ~30% of the valid/truncated/mutated/huge cases "
        "and ~40% of the Content-Length identity cases the callbacks themselves call noMoreData() (dataCallback and "
        "finishCallback of the chunked decoder; dataCallback once it holds all Content-Length bytes and finishCallback of "
        "the identity decoder) and the outcomes are part of the observable; fromChunk on toChunk output + rest, decorated "
        "sizes, extensions, damaged/missing CRLFs, short data, prefixes. distinct = "
        "(op, generator class, reference verdict, exception class, delivery-count bucket, features incl. probe)")
ASSUMES = [
    "callbacks return normally; the only re-entrant call made from dataCallback/finishCallback is noMoreData() (the one the "
    "code and test_reentrantFinishedNoMoreData provide for); dataReceived() is never re-entered ('This callback is not "
    "reentrant')",
    "fromChunk: a size line with a chunk extension, which fromChunk documents it does not handle, may be refused "
    "(ValueError) or decoded correctly - never decoded wrongly",
    "a decoder that raised is dropped (HTTPChannel answers 400 and disconnects): behaviour after a raise is not compared",
    "size-line bound, exactly as http.py enforces it (maxChunkSizeLineLength = 1024; `eolIndex >= 1024 or (eolIndex == -1 "
    "and len(buffer) > 1024)`): a size line whose CRLF has arrived is accepted iff it is <= 1023 bytes WITHOUT its CRLF "
    "(CRLF at index <= 1023; 1025 bytes with the CRLF) and refused from 1024 bytes on; while no CRLF has arrived up to 1024 "
    "bytes are buffered and the 1025th is refused. The round-trip theorems assume lines <= 1023 bytes; both rejections and "
    "the toleration of <= 1024 CRLF-free bytes are theorems. (The module docstring's 'maximum allowable length of the "
    "CRLF-terminated line' = 1024 read literally would be 1022 bytes + CRLF; the code and its tests "
    "test_oversizedChunkSizeLine[Partial] allow one byte more.) Trailer fields incl. their CRLFs <= 2**16 bytes",
    "_IdentityTransferDecoder with contentLength=None: noMoreData() is called at most once (as HTTPClientParser does); a "
    "second call finds finishCallback None and raises TypeError in the code - that state (None, callbacks dropped) is the "
    "only decoder state outside identity_noMoreData_table and is not tied",
]
TRUSTED = ["the reference parser in harness/corr/C22.py (RFC 9112 section 7.1 grammar, written independently of the model)"]
MANIFEST = {
    "text": "Lean theorems (TwistedProps/C22.lean) over the transcribed _ChunkedTransferDecoder state machine, for every "
            "chunk list, extensions, trailers, extra bytes and every segmentation into deliveries (induction over the "
            "delivery list per stream element, composed over the chunk list): body delivered exactly, finishCallback once "
            "with exactly the extra bytes, _DataLoss on every truncation, malformed size/extension/CRLF rejected under every "
            "segmentation; the size-line bound is exact under every segmentation (line of >= 1024 bytes before its CRLF "
            "refused, 1025 CRLF-free bytes refused whatever follows - rejects_overlong_size_line_no_crlf -, <= 1024 CRLF-free "
            "bytes waited on - partial_size_line_tolerated); _IdentityTransferDecoder: exact delivery with Content-Length, "
            "_DataLoss when short, and without Content-Length every byte delivered, noMoreData = finishCallback(b'') once + "
            "PotentialDataLoss (identity_until_close_exact), noMoreData outcome for every decoder state "
            "(identity_noMoreData_table, chunked_noMoreData_table); noMoreData() called from inside the callbacks: silent "
            "from finishCallback for every history (reentrant_noMoreData_in_finishCallback), _DataLoss from dataCallback "
            "(reentrant_noMoreData_in_dataCallback), silent from both callbacks of the identity decoder once the body is "
            "complete (ident_reentrant_noMoreData); fromChunk inverts toChunk and refuses non-hex sizes, a missing CRLF, "
            "no CRLF (fromChunk_toChunk, fromChunk_rejects_*); model tied to http.py by differential runs on structured "
            "streams and splits, incl. decorated size fields, quoted extensions, sizes >= 2^31, hundreds of trailer fields "
            "and chunks.",
    "note": "trusts Lean kernel, the hand-written model of the decoder (differentially tied), CPython bytearray.find/int(b,16)",
    "technique": "Lean 4 proof (state-machine invariants, induction over deliveries) + differential tie + reference-parser oracle",
    "design_ref": "DESIGN.md §7 C22",
}



def http_toChunk(data):
    return http.toChunk(data)


MAXLINE = 1024
MAXTRAILER = 2 ** 16
# bytes admitted in a chunk extension: token characters, the delimiters ';' '=' '"', qdtext (HTAB, SP, VCHAR except
# backslash) and obs-text.  quoted-pair (backslash) is deliberately not admitted by Twisted (GHSA-c2jg-hw38-jrqq,
# test_extensionsMalformed), so it is a "disallowed byte" of the property statement.
EXTOK = frozenset([9] + [c for c in range(32, 127) if c != 92] + list(range(128, 256)))
CRLF = b"\r\n"


def hx(b):
    return bytes(b).hex() if b else "-"


def unhx(s):
    return b"" if s == "-" else bytes.fromhex(s)


# ------------------------------------------------------------------------------------------------
# reference: whole-stream parser written from the grammar (not from the decoder)

def ref_parse(stream, limits=True):
    """→ dict(verdict= ok|incomplete|malformed|overlimit, body=bytes decoded so far, end=index after final CRLF)"""
    pos, body = 0, b""
    while True:
        i = stream.find(CRLF, pos)
        if i < 0:
            if limits and len(stream) - pos > MAXLINE - 1:
                # "must": more than maxChunkSizeLineLength bytes buffered and still no CRLF (test_oversizedChunkSizeLinePartial)
                return {"verdict": "overlimit", "body": body, "must": len(stream) - pos > MAXLINE}
            return {"verdict": "incomplete", "body": body}
        line = stream[pos:i]
        if limits and len(line) > MAXLINE - 2:
            # "must": the CRLF starts at index >= maxChunkSizeLineLength (test_oversizedChunkSizeLine)
            return {"verdict": "overlimit", "body": body, "must": len(line) >= MAXLINE}
        size, _, ext = line.partition(b";")
        if not re.fullmatch(rb"[0-9A-Fa-f]+", size, re.S):
            return {"verdict": "malformed", "body": body, "why": "size"}
        if any(c not in EXTOK for c in ext):
            return {"verdict": "malformed", "body": body, "why": "ext"}
        n = int(size, 16)
        pos = i + 2
        if n == 0:
            break
        chunk = stream[pos:pos + n]
        body += chunk
        pos += n
        if len(chunk) < n:
            return {"verdict": "incomplete", "body": body}
        term = stream[pos:pos + 2]
        if len(term) < 2:
            return {"verdict": "incomplete", "body": body}
        if term != CRLF:
            return {"verdict": "malformed", "body": body, "why": "crlf"}
        pos += 2
    total = 0
    while True:
        i = stream.find(CRLF, pos)
        if i < 0:
            part = stream[pos:]
            if limits and part not in (b"", b"\r") and total + len(part) + (1 if part.endswith(b"\r") else 2) > MAXTRAILER:
                return {"verdict": "overlimit", "body": body}
            return {"verdict": "incomplete", "body": body}
        if i == pos:
            return {"verdict": "ok", "body": body, "end": i + 2}
        total += i - pos + 2
        if limits and total > MAXTRAILER:
            return {"verdict": "overlimit", "body": body}
        pos = i + 2


# ------------------------------------------------------------------------------------------------
# generators

HEXCH = b"0123456789abcdefABCDEF"
EXTALPHA = bytes(sorted(EXTOK))
BADEXT = bytes(c for c in range(256) if c not in EXTOK and c not in (13, 10)) + b"\r\n"


def _size_digits(rng, n):
    s = b"%x" % n
    r = rng.random()
    if r < 0.25:
        s = s.upper()
    elif r < 0.4:
        s = bytes(rng.choice([c, ord(chr(c).upper())]) for c in s)
    if rng.random() < 0.2:
        s = b"0" * rng.randint(1, 3) + s
    return s


def _ext(rng):
    if rng.random() < 0.6:
        return b""
    n = rng.choice([0, 1, 3, 8, 20])
    return b";" + bytes(rng.choice(rng.choice([EXTALPHA, b"abc=;\" \t"])) for _ in range(n))


def _payload(rng, n):
    return bytes(rng.choice(rng.choice([b"\r\n0;:a", bytes(range(256))])) for _ in range(n))


def _trailer_line(rng, n=None):
    n = rng.choice([1, 2, 5, 12, 30]) if n is None else n
    while True:
        t = bytes(rng.choice(rng.choice([b"\r\nab: ", bytes(range(256))])) for _ in range(n))
        if CRLF not in t and n > 0:
            return t


def _valid_stream(rng, big=False):
    parts = []
    for _ in range(rng.choice([0, 1, 1, 2, 3, 6])):
        n = rng.choice([1, 1, 2, 3, 5, 16, 17]) if not big else rng.choice([1, 255, 256, 300, 5000])
        data = _payload(rng, n)
        parts.append(_size_digits(rng, n) + _ext(rng) + CRLF + data + CRLF)
    parts.append(b"0" * rng.choice([1, 1, 1, 2, 4]) + _ext(rng) + CRLF)
    for _ in range(rng.choice([0, 0, 0, 1, 2, 3])):
        parts.append(_trailer_line(rng) + CRLF)
    parts.append(CRLF)
    enc = b"".join(parts)
    extra = rng.choice([b"", b"", b"X", b"\r\n", b"0\r\n\r\n", b"GET / HTTP/1.1\r\n\r\n", _payload(rng, 3)])
    return enc, extra


def _cut(stream, points):
    pts = sorted(set(p for p in points if 0 <= p <= len(stream)))
    out, last = [], 0
    for p in pts:
        out.append(stream[last:p])
        last = p
    out.append(stream[last:])
    return out


def _random_split(rng, stream):
    r = rng.random()
    if r < 0.15:
        return [stream]
    if r < 0.35:
        return [stream[i:i + 1] for i in range(len(stream))] or [b""]
    k = rng.randint(1, 6)
    d = _cut(stream, [rng.randint(0, len(stream)) for _ in range(k)])
    if rng.random() < 0.3:
        d.insert(rng.randint(0, len(d)), b"")
    return d


def _case(deliveries, end, why, probe=0):
    c = {"op": "chunked", "d": [hx(x) for x in deliveries], "end": int(end), "why": why}
    if probe:
        c["probe"] = 1      # both callbacks call noMoreData() (re-entrantly) and its outcome is observed
    return c


def _probed(rng, c, share=0.3):
    """the same case with the re-entrant noMoreData() probe in its callbacks, for a share of the cases"""
    if rng.random() < share:
        c = dict(c, probe=1)
    return c


def _mutate(rng, stream):
    if not stream:
        return b"\r\n"
    s = bytearray(stream)
    # prefer positions in size lines / CRLFs: positions near any CR, LF, ';' or in the first line
    hot = [i for i, c in enumerate(s) if c in b"\r\n;"] + list(range(min(len(s), 4)))
    for _ in range(rng.choice([1, 1, 2])):
        i = rng.choice(hot) if hot and rng.random() < 0.7 else rng.randrange(len(s))
        i = max(0, min(len(s) - 1, i + rng.choice([-2, -1, 0, 0, 1, 2])))
        r = rng.random()
        if r < 0.45:
            s[i] = rng.choice(b"gGxX+- \t\\\x00\x7f\x1f;\r\n0a" + bytes([rng.randrange(256)]))
        elif r < 0.7:
            del s[i]
        else:
            s.insert(i, rng.choice(b"gx+- \\\x00\x7f;\r\n0"))
    return bytes(s)


def _line_limit_cases(rng):
    out = []
    for L in (1020, 1021, 1022, 1023, 1024, 1025, 1026, 1027):
        for style in ("ext", "zeros"):
            line = (b"3;" + b"e" * (L - 2)) if style == "ext" else (b"0" * (L - 1) + b"3")
            stream = line + CRLF + b"abc\r\n0\r\n\r\n"
            for pts in ([], [L], [L + 1], [L - 1], [1, L], [1024], [1025], [1023, 1024, 1025]):
                out.append(_case(_cut(stream, pts), 1, "linelen"))
        for pts in ([], [1], [L - 1], [1023], [1024], [1025], [1023, 1024, 1025], list(range(1018, 1030))):
            # partial line, CRLF never arrives
            out.append(_case(_cut(b"3;" + b"e" * (L - 2), pts), 1, "linelen-partial"))
            out.append(_case(_cut(b"3;" + b"e" * (L - 3) + b"\r", pts), 1, "linelen-partial"))
            out.append(_case(_cut(b"\r" * L, pts), 1, "linelen-partial"))
            out.append(_case(_cut(b"\n" + b"z" * (L - 1), pts), 0, "linelen-partial"))
        head = b"2;x\r\nhi\r\n1\r\n!\r\n"
        h = len(head)
        for pts in ([], [h], [h + 1024], [h + 1025], [h - 1, h + 1023], [3, h + L - 1]):
            # after good chunks; and the CRLF arriving too late / junk after the bound
            out.append(_case(_cut(head + b"3;" + b"e" * (L - 2), pts), 1, "linelen-partial-after"))
            out.append(_case(_cut(head + b"3;" + b"e" * (L - 2) + b"\r", pts + [h + L]), 1, "linelen-partial-after"))
            out.append(_case(_cut(head + b"f" * L + b"\n\r\nabc", pts + [h + L]), 1, "linelen-partial-after"))
    return out


def _trailer_limit_cases(rng, deltas):
    out = []
    for delta in deltas:
        T = MAXTRAILER + delta
        for shape in ("one", "two", "cr-inside"):
            if shape == "one":
                lines = [b"t" * (T - 2)]
            elif shape == "two":
                lines = [b"a: b", b"u" * (T - 6 - 2)]
            else:
                lines = [b"\r" + b"v" * (T - 4) + b"\r"]
            head = b"1\r\nZ\r\n0\r\n"
            tr = b"".join(x + CRLF for x in lines)
            assert len(tr) == T
            stream = head + tr + CRLF + b"EX"
            a, b = len(head), len(head) + T
            for pts in ([], [b], [b + 1], [b + 2], [b - 1], [b - 2], [b - 1, b + 1], [a], [a + 1, b - 3], [a + 100, b + 1],
                        [rng.randint(a, b), b + 1]):
                out.append(_case(_cut(stream, pts), 1, "trailerlim"))
            out.append(_case(_cut(stream[:b + 1], [b]), 1, "trailerlim-trunc"))
            out.append(_case(_cut(stream[:b - 1], [a + 5]), 1, "trailerlim-trunc"))
    return out


# decorations of the chunk-size field that Python's int(x, 16) accepts although they are not 1*HEXDIG (whitespace
# around it, a sign, the 0x prefix, underscores between digits), the BWS that RFC 9112 7.1.1 mentions before chunk-ext,
# and plain junk.  (pre, post, still_hex): still_hex says whether the decorated field is still 1*HEXDIG.
_WS = [b" ", b"\t", b"  ", b" \t", b"\n", b"\x0b", b"\x0c", b"\r", b"\xa0", b"\x85", b"\x1c", b"\x00"]


def _decorate_size(rng, digits):
    """-> the size field rewritten; never plain hex digits unless 'zeros' is drawn"""
    r = rng.randrange(12)
    w = rng.choice(_WS)
    if r == 0:
        return w + digits
    if r == 1:
        return digits + w
    if r == 2:
        return w + digits + rng.choice(_WS)
    if r == 3:
        return rng.choice([b"+", b"-", b"+ ", b"- "]) + digits
    if r == 4:
        return rng.choice([b"0x", b"0X", b" 0x", b"0x_", b"0b", b"0o"]) + digits
    if r == 5 and len(digits) >= 2:
        k = rng.randint(1, len(digits) - 1)
        return digits[:k] + b"_" + digits[k:]
    if r == 6:
        return rng.choice([b"_" + digits, digits + b"_", digits[:1] + b"__" + digits[1:] if len(digits) > 1 else b"_" + digits])
    if r == 7:
        return digits + rng.choice([b"L", b"l", b"h", b"H", b".", b".0", b"e0", b"g", b"G", b"\xb2", b"\xd9\xa3"])
    if r == 8:
        return b""                                  # empty size field
    if r == 9:
        return b"0" * rng.choice([1, 7, 15, 16, 17, 40]) + digits        # still hex: many leading zeros
    if r == 10:
        return digits + w + rng.choice([b"", b" "])
    return w * 2 + digits


def _structured_stream(rng, nchunks=None, sizes=(1, 1, 2, 3, 5, 16, 17)):
    """-> list of [sizefield, ext(with its ';' or b''), data] per chunk incl. the last (data None), trailer lines, extra"""
    chunks = []
    for _ in range(rng.choice([0, 1, 1, 2, 3]) if nchunks is None else nchunks):
        n = rng.choice(sizes)
        chunks.append([_size_digits(rng, n), _ext(rng), _payload(rng, n)])
    chunks.append([b"0" * rng.choice([1, 1, 1, 2, 4]), _ext(rng), None])
    trailers = [_trailer_line(rng) for _ in range(rng.choice([0, 0, 0, 1, 2]))]
    extra = rng.choice([b"", b"", b"X", b"\r\n", b"GET / HTTP/1.1\r\n\r\n"])
    return chunks, trailers, extra


def _assemble(chunks, trailers, extra):
    out = []
    for size, ext, data in chunks:
        out.append(size + ext + CRLF + (data + CRLF if data is not None else b""))
    for t in trailers:
        out.append(t + CRLF)
    out.append(CRLF)
    return b"".join(out) + extra


def _sizedeco_cases(rng, count):
    """valid streams in which ONE size field (of any chunk, the last-chunk included, with or without an extension
    following it) is decorated"""
    for _ in range(count):
        chunks, trailers, extra = _structured_stream(rng)
        k = rng.randrange(len(chunks))
        if rng.random() < 0.6 and not chunks[k][1]:
            chunks[k][1] = b";" + rng.choice([b"", b"x", b"x=y", b' a="b c"'])
        chunks[k][0] = _decorate_size(rng, chunks[k][0])
        stream = _assemble(chunks, trailers, extra)
        yield _case(_random_split(rng, stream), 1, "sizedeco")
        if rng.random() < 0.25:
            yield _case([stream], 1, "sizedeco")


# quoted-string / parameter shapes of chunk extensions; `%` marks where the probed byte goes
_EXT_SHAPES = [b';a="%"', b';a="x%y"', b';a="%', b';a=%', b';%=b', b';a=b;%', b';a="b";c="%"', b';a="b"%', b';"%"', b';a="\t %"',
               b';a=b%', b';%', b'; %', b';a ="%"', b';a= "%"', b';' + b'p=q;' * 40 + b'z="%"', b';a="' + b'v' * 200 + b'%"']


def _extshape_cases(rng, count):
    """extensions built from parameter / quoted-string shapes with one probed byte (allowed or not) at a structural
    position: inside quotes, after '=', as a name, after a closing quote, as the last byte, deep in a long extension"""
    for _ in range(count):
        shape = rng.choice(_EXT_SHAPES)
        r = rng.random()
        if r < 0.45:
            b = bytes([rng.choice(BADEXT)])
        elif r < 0.55:
            b = rng.choice([b"\\", b"\\\"", b"\x7f", b"\x00", b"\n", b"\r", b"\r\r", b"\n\n"])
        else:
            b = bytes([rng.choice(EXTALPHA)])
        ext = shape.replace(b"%", b)
        chunks, trailers, extra = _structured_stream(rng)
        k = rng.randrange(len(chunks))
        chunks[k][1] = ext
        yield _case(_random_split(rng, _assemble(chunks, trailers, extra)), 1, "extshape")


_HUGE = [2 ** 31 - 1, 2 ** 31, 2 ** 31 + 1, 2 ** 32 - 1, 2 ** 32, 2 ** 32 + 5, 2 ** 53, 2 ** 63 - 1, 2 ** 63, 2 ** 64 - 1, 2 ** 64,
         2 ** 64 + 1, 16 ** 20, 16 ** 40 + 3, 16 ** 200, 10 ** 9, 10 ** 10, 0xFFFFFF, 0x1000000, 0x7FFFFFF, 0x10000000, 0xFFFFFFFF0]


def _hugesize_cases(rng, count):
    """a chunk announcing a size at an integer boundary (2^31, 2^32, 2^63, 2^64, 16^20 …) of which only a prefix can
    ever arrive: the prefix must be delivered and the end of the stream reported as data loss, never a rejection"""
    for _ in range(count):
        chunks, _, _ = _structured_stream(rng, nchunks=rng.choice([0, 0, 1, 2]))
        chunks.pop()                               # no last-chunk: the huge chunk never ends
        n = rng.choice(_HUGE) + rng.choice([0, 0, 0, -1, 1])
        have = rng.choice([0, 0, 1, 2, 7, 40, 300])
        digits = b"%x" % n
        if rng.random() < 0.3:
            digits = digits.upper()
        if rng.random() < 0.2:
            digits = b"0" * rng.randint(1, 4) + digits
        stream = b"".join(sz + ex + CRLF + d + CRLF for sz, ex, d in chunks) + digits + _ext(rng) + CRLF + _payload(rng, have)
        yield _case(_random_split(rng, stream), rng.choice([1, 1, 1, 0]), "hugesize")


def _many_cases(rng, quick):
    """counts far beyond what ordinary messages have, all within the documented BYTE limits: many chunks, many trailer
    fields (total < 2^16 bytes), many extension parameters, long runs of empty deliveries"""
    out = []
    for n in ([101, 128, 600] if quick else [64, 100, 101, 128, 129, 256, 257, 600, 1025, 2500]):
        # many trailer fields of a few bytes each
        tl = [rng.choice([b"a: b", b"x-t%d: v" % i, b"t", b"k:"]) for i in range(n)]
        stream = b"2\r\nhi\r\n0\r\n" + b"".join(t + CRLF for t in tl) + CRLF + b"EX"
        assert len(stream) < 40000
        out.append(_case([stream], 1, "many-trailers"))
        out.append(_case(_random_split(rng, stream), 1, "many-trailers"))
        cut = rng.randint(12, len(stream) - 5)
        out.append(_case(_cut(stream, [cut, cut + 1]), 1, "many-trailers"))
        out.append(_case(_random_split(rng, stream[:len(stream) - 4]), 1, "many-trailers-trunc"))
    for n in ([100, 300, 1100] if quick else [100, 101, 255, 256, 257, 300, 1000, 1100, 3000]):
        # many one/two-byte chunks
        parts, body = [], []
        for i in range(n):
            d = _payload(rng, rng.choice([1, 1, 2]))
            parts.append(_size_digits(rng, len(d)) + (b";i=%d" % i if i % 7 == 0 else b"") + CRLF + d + CRLF)
        stream = b"".join(parts) + b"0\r\n\r\n"
        out.append(_case([stream], 1, "many-chunks"))
        out.append(_case(_random_split(rng, stream), rng.randint(0, 1), "many-chunks"))
        out.append(_case(_random_split(rng, stream[:rng.randint(1, len(stream) - 1)]), 1, "many-chunks-trunc"))
    for n in ([60, 200] if quick else [60, 100, 101, 200, 250]):
        # many extension parameters (line stays below the 1023-byte bound)
        ext = b"".join(b";p%d" % (i % 10) for i in range(n))
        stream = b"3" + ext + CRLF + b"abc\r\n0" + ext + CRLF + CRLF
        out.append(_case(_random_split(rng, stream), 1, "many-extparams"))
    return out


def corpus():
    c = []
    s = b"3\r\nabc\r\n5;x=y\r\n12345\r\nA\r\n0123456789\r\n0\r\nT: v\r\n\r\nEXTRA"
    c.append(_case([s], 1, "valid"))
    c.append(_case([s[i:i + 1] for i in range(len(s))], 1, "valid"))
    c.append(_case([s[:20]], 1, "trunc"))
    c.append(_case([b"0\r\n\r\n", b"", b"more"], 0, "after-end"))
    c.append(_case([b"bloop\r\nabc\r\n"], 1, "mut"))
    c.append(_case([b"3\r\nabcXY"], 1, "mut"))
    c.append(_case([b"3;a\\b\r\nabc\r\n"], 1, "mut"))
    c.append(_case([b"-3\r\nabc\r\n"], 1, "mut"))
    c.append(_case([b"0x3\r\nabc\r\n"], 1, "mut"))
    c.append(_case([b"\r\n"], 1, "mut"))
    # witness of the trailer-limit defect: trailers of exactly 2**16 bytes, cut between the final CR and LF
    head, tr = b"1\r\nZ\r\n0\r\n", b"t" * (MAXTRAILER - 2) + CRLF
    c.append(_case([head + tr + b"\r", b"\n"], 1, "trailerlim"))
    c.append(_case([head + tr + b"\r\n"], 1, "trailerlim"))
    c.append({"op": "identity", "n": 3, "d": [hx(b"ab"), hx(b"cde")], "end": 1, "why": "identity"})
    c.append({"op": "identity", "n": None, "d": [hx(b"ab"), hx(b"cde")], "end": 1, "why": "identity"})
    c.append({"op": "identity", "n": None, "d": [hx(b"ab"), hx(b""), hx(b"cde")], "end": 3, "why": "identity"})
    c.append({"op": "identity", "n": None, "d": [], "end": 1, "why": "identity"})
    c.append({"op": "identity", "n": 0, "d": [], "end": 2, "why": "identity"})
    c.append({"op": "identity", "n": 3, "d": [hx(b"ab")], "end": 2, "why": "identity"})
    c.append({"op": "identity", "n": 3, "d": [hx(b"abcd")], "end": 3, "why": "identity"})
    # the size-line bound without CRLF: 1024 bytes are waited on, the 1025th is refused, in one piece or not
    c.append(_case([b"3;" + b"e" * 1022], 1, "linelen-partial"))
    c.append(_case([b"3;" + b"e" * 1023], 1, "linelen-partial"))
    c.append(_case([b"3;" + b"e" * 1022, b"e"], 1, "linelen-partial"))
    c.append(_case([b"3;" + b"e" * 1021 + b"\r", b"\n"], 1, "linelen-partial"))
    c.append(_case([b"3;" + b"e" * 1022 + b"\r", b"\n"], 1, "linelen-partial"))
    # re-entrant noMoreData() from the callbacks (test_reentrantFinishedNoMoreData; the comment in
    # _IdentityTransferDecoder.dataReceived): silent once everything has arrived, _DataLoss before
    c.append(_case([b"0\r\n\r\n"], 1, "valid", probe=1))
    c.append(_case([b"3\r\nabc\r\n0\r\nT: v\r\n\r", b"\nEX"], 1, "valid", probe=1))
    c.append(_case([b"3\r\nab", b"c\r\n0\r\n"], 1, "trunc", probe=1))
    c.append({"op": "identity", "n": 3, "d": [hx(b"ab"), hx(b"cde")], "end": 1, "why": "identity", "probe": 1})
    c.append({"op": "identity", "n": 3, "d": [hx(b"abc")], "end": 0, "why": "identity", "probe": 1})
    c.append({"op": "identity", "n": 0, "d": [hx(b"")], "end": 1, "why": "identity", "probe": 1})
    # size fields that int(x, 16) would take but are not 1*HEXDIG; BWS before chunk-ext
    for sz in (b"3 ", b" 3", b"3\t;x", b"3 ;x=y", b"+3", b"0x3", b"0_3", b"3\n", b"\x0c3"):
        c.append(_case([sz + b"\r\nabc\r\n0\r\n\r\n"], 1, "sizedeco"))
    c.append(_case([b"3\r\nabc\r\n0 ;x\r\n\r\n"], 1, "sizedeco"))
    # a chunk announcing 2^31 / 2^64 bytes: its prefix is delivered, the end of the stream is data loss
    c.append(_case([b"80000000\r\nabc"], 1, "hugesize"))
    c.append(_case([b"1\r\nZ\r\n10000000000000000;x\r\n", b"abc"], 1, "hugesize"))
    # 101 and 600 trailer fields, far below the 2^16-byte limit
    c.append(_case([b"0\r\n" + b"a: b\r\n" * 101 + b"\r\n"], 1, "many-trailers"))
    c.append(_case([b"1\r\nZ\r\n0\r\n" + b"a: b\r\n" * 600 + b"\r", b"\nEX"], 1, "many-trailers"))
    c.append(_case([b'2;a="\x00"\r\nxy\r\n0\r\n\r\n'], 1, "extshape"))
    c.append(_case([b'2;a="b"\r\nxy\r\n0;c="\x7f"\r\n\r\n'], 1, "extshape"))
    for b in (b"3\r\nabc\r\nrest", b"0x3\r\nabc\r\n", b"+3\r\nabc\r\n", b" 3\r\nabc\r\n", b"3 \r\nabc\r\n", b"0_3\r\nabc\r\n",
              b"-0\r\n\r\n", b"3\r\nabcd\r\n", b"3\r\nab", b"3", b"", b"0\r\n\r\n", b"3;x\r\nabc\r\n", b"A\r\n0123456789\r\n\r\n"):
        c.append({"op": "fromchunk", "b": hx(b)})
    c.append({"op": "hexint", "b": hx(b"1F")})
    c.append({"op": "hexint", "b": hx(b"0x1F")})
    c.append({"op": "decint", "b": hx(b" \t12 ")})
    c.append({"op": "decint", "b": hx(b"+12")})
    c.append({"op": "tochunk", "b": hx(b"hello world, 16+")})
    return c


def generate(rng, tier):
    quick = tier == "quick"
    # 1. valid streams × segmentations
    for _ in range(250 if quick else 6000):
        enc, extra = _valid_stream(rng, big=rng.random() < 0.08)
        stream = enc + extra
        if len(stream) <= 64 and rng.random() < (0.25 if quick else 0.5):
            for p in range(len(stream) + 1):
                yield _case(_cut(stream, [p]), 1, "valid-allsplits")
        for _ in range(2):
            d = _random_split(rng, stream)
            r = rng.random()
            if r < 0.15:
                d = d + [b""] * rng.randint(1, 2)
                yield _probed(rng, _case(d, 1, "valid-empty-after"))
            elif r < 0.3:
                d = d + [rng.choice([b"x", b"\r\n", b"0\r\n\r\n"])] + ([b"y"] if rng.random() < 0.3 else [])
                yield _probed(rng, _case(d, rng.randint(0, 1), "valid-data-after"))
            else:
                yield _probed(rng, _case(d, rng.randint(0, 1), "valid"), 0.4)
        # 2. truncations
        for _ in range(2):
            cut = rng.randint(0, max(0, len(enc) - 1))
            yield _probed(rng, _case(_random_split(rng, enc[:cut]), 1, "trunc"))
        # 3. mutations
        for _ in range(3):
            m = _mutate(rng, stream)
            yield _probed(rng, _case(_random_split(rng, m), 1, "mut"), 0.15)
            if len(m) <= 40 and rng.random() < 0.1:
                for p in range(len(m) + 1):
                    yield _case(_cut(m, [p]), 1, "mut-allsplits")
    # 4. every extension byte value, every size-digit byte value
    for c in range(256):
        yield _case([b"2;a" + bytes([c]) + b"b\r\nxy\r\n0\r\n\r\n"], 1, "extbyte")
        yield _case([b"2;", bytes([c]), b"\r\nxy\r\n0\r\n\r\n"], 1, "extbyte")
        yield _case([b"1" + bytes([c]) + b"\r\n" + b"z" * 0x1a + b"\r\n0\r\n\r\n"], 1, "sizebyte")
        yield _case([b"2\r\nxy" + bytes([c]), b"\n0\r\n\r\n"], 1, "crlfbyte")
        yield _case([b"2\r\nxy\r" + bytes([c]) + b"0\r\n\r\n"], 1, "crlfbyte")
    # 4b. grammar-directed malformations and boundary classes (see the helpers)
    for c in _sizedeco_cases(rng, 350 if quick else 5000):
        yield c
    for c in _extshape_cases(rng, 300 if quick else 5000):
        yield c
    for c in _hugesize_cases(rng, 120 if quick else 1500):
        yield _probed(rng, c, 0.15)
    for c in _many_cases(rng, quick):
        yield c
    # 5. limits
    for c in _line_limit_cases(rng):
        yield c
    for c in _trailer_limit_cases(rng, [0, -1, -2, 1] if quick else [-4, -3, -2, -1, 0, 1, 2, 3, 4]):
        yield c
    # 6. identity decoder
    for _ in range(300 if quick else 5000):
        n = rng.choice([None, 0, 1, 2, 3, 5, 8, 13])
        total = rng.randint(0, 16)
        d = _random_split(rng, _payload(rng, total))
        if rng.random() < 0.1:
            d = []
        end = rng.choice([0, 1, 1, 2, 3])
        if end == 2 and n is None:
            end = 3       # a second noMoreData() with contentLength=None is outside the model (TypeError in the code): ASSUMES
        c = {"op": "identity", "n": n, "d": [hx(x) for x in d], "end": end, "why": "identity"}
        if n is not None and rng.random() < 0.4:
            c["probe"] = 1
        yield c
    # 7. _hexint / _decint / toChunk
    for _ in range(400 if quick else 6000):
        b = bytes(rng.choice(rng.choice([HEXCH, HEXCH, b"xX+-_ \t\r\ngG\x00", bytes(range(256))]))
                  for _ in range(rng.choice([0, 1, 1, 2, 3, 8, 20])))
        yield {"op": "hexint", "b": hx(b)}
        b = bytes(rng.choice(rng.choice([b"0123456789", b"0123456789", b" \t", b"+-_\n\r\x0b\x0caA\xb2\xb9"]))
                  for _ in range(rng.choice([0, 1, 2, 3, 6, 25])))
        yield {"op": "decint", "b": hx(b)}
    for n in list(range(0, 40)) + [255, 256, 257, 4095, 4096, 65535, 65536]:
        yield {"op": "tochunk", "b": hx(_payload(rng, n))}
    # 8. fromChunk: toChunk output + rest; decorated size prefixes; damaged / missing CRLFs; short data
    for _ in range(400 if quick else 6000):
        data = _payload(rng, rng.choice([0, 1, 2, 3, 9, 10, 15, 16, 17, 40, 255, 256]))
        rest = rng.choice([b"", b"", b"rest", b"\r\n", b"0\r\n\r\n", _payload(rng, 4)])
        digits = _size_digits(rng, len(data))
        r = rng.random()
        if r < 0.35:
            b = b"".join(http_toChunk(data)) + rest if rng.random() < 0.5 else digits + CRLF + data + CRLF + rest
        elif r < 0.7:
            b = _decorate_size(rng, digits) + CRLF + data + CRLF + rest
        elif r < 0.8:
            b = digits + _ext(rng) + CRLF + data + CRLF + rest
        elif r < 0.9:
            b = _mutate(rng, digits + CRLF + data + CRLF + rest)
        else:
            whole = digits + CRLF + data + CRLF
            b = whole[:rng.randint(0, len(whole))]
        yield {"op": "fromchunk", "b": hx(b)}


# ------------------------------------------------------------------------------------------------
# model line / implementation

def _dl(c):
    return ",".join(c["d"]) if c["d"] else "none"


def model_line(c):
    op = c["op"]
    p = "p" if c.get("probe") else ""
    if op == "chunked":
        return f"chunked{p} {c['end']} {_dl(c)}"
    if op == "identity":
        return f"identity{p} {'none' if c['n'] is None else c['n']} {c['end']} {_dl(c)}"
    return f"{op} {c['b']}"


_EXC = (http._MalformedChunkedDataError, http._DataLoss, http.PotentialDataLoss, RuntimeError)


def _render(data, fin, exc):
    return f"data={hx(b''.join(data))} fin={';'.join(hx(x) for x in fin) if fin else 'none'} exc={exc}"


def _drive(dec, data, fin, c):
    exc = "-"
    for i, d in enumerate(c["d"]):
        try:
            dec.dataReceived(unhx(d))
        except _EXC as e:
            exc = f"{type(e).__name__}@{i}"
            break
    else:
        if c["end"]:
            try:
                dec.noMoreData()
            except _EXC as e:
                exc = f"{type(e).__name__}@end"
        if c["end"] == 2:
            try:
                dec.noMoreData()
                exc += "+-"
            except _EXC as e:
                exc += f"+{type(e).__name__}@end2"
        elif c["end"] == 3:
            try:
                dec.dataReceived(b"x")
                exc += "+-"
            except _EXC as e:
                exc += f"+{type(e).__name__}@post"
    return _render(data, fin, exc)


def _probe(dec, log):
    """noMoreData() called from inside a callback; only its outcome is recorded"""
    try:
        dec.noMoreData()
        log.append("ok")
    except _EXC as e:
        log.append(type(e).__name__)


def _run_chunked_probed(c):
    data, fin, fprobe, dprobe = [], [], [], []

    def on_data(b):
        data.append(b)
        _probe(dec, dprobe)

    def on_finish(b):
        fin.append(b)
        _probe(dec, fprobe)

    dec = http._ChunkedTransferDecoder(on_data, on_finish)
    out = _drive(dec, data, fin, c)
    return out + f" fprobe={';'.join(fprobe) if fprobe else 'none'} dprobe={'/'.join(sorted(set(dprobe))) if dprobe else 'none'}"


def _run_identity_probed(c):
    """the application calls noMoreData() from dataCallback as soon as it holds the Content-Length bytes, and again
    from finishCallback"""
    data, fin, probes = [], [], []
    n = c["n"]

    def on_data(b):
        data.append(b)
        if sum(len(x) for x in data) == n:
            _probe(dec, probes)

    def on_finish(b):
        fin.append(b)
        _probe(dec, probes)

    dec = http._IdentityTransferDecoder(n, on_data, on_finish)
    out = _drive(dec, data, fin, c)
    return out + f" cprobe={';'.join(probes) if probes else 'none'}"


def run_impl(c):
    op = c["op"]
    if op == "chunked":
        if c.get("probe"):
            return _run_chunked_probed(c)
        data, fin = [], []
        return _drive(http._ChunkedTransferDecoder(data.append, fin.append), data, fin, c)
    if op == "identity":
        if c.get("probe"):
            return _run_identity_probed(c)
        data, fin = [], []
        return _drive(http._IdentityTransferDecoder(c["n"], data.append, fin.append), data, fin, c)
    b = unhx(c["b"])
    if op == "fromchunk":
        try:
            d, rest = http.fromChunk(b)
        except ValueError:
            return "!raised ValueError"
        return f"data={hx(d)} rest={hx(rest)}"
    if op == "hexint":
        try:
            return str(_hexint(b))
        except ValueError:
            return "!raised ValueError"
    if op == "decint":
        try:
            return str(_decint(b))
        except ValueError:
            return "!raised ValueError"
    if op == "tochunk":
        return hx(b"".join(http.toChunk(b)))
    raise ValueError(op)


# ------------------------------------------------------------------------------------------------
# property oracle (on the implementation's observable; never looks at the model)

def _parse_out(out):
    m = re.fullmatch(r"data=(\S+) fin=(\S+) exc=(\S+)", out)
    if not m:
        return None
    fin = [] if m.group(2) == "none" else [unhx(x) for x in m.group(2).split(";")]
    exc = m.group(3)
    name, at = (None, None) if exc == "-" else exc.split("@")
    return unhx(m.group(1)), fin, name, at


def _expect_chunked(c):
    """what the property demands for this delivery list → (list of acceptable (data-check, fin, exc-name, at)) description"""
    ds = [unhx(x) for x in c["d"]]
    stream = b"".join(ds)
    ref = ref_parse(stream)
    free = ref_parse(stream, limits=False) if ref["verdict"] == "overlimit" else ref
    return ds, stream, ref, free


def _split_probes(out):
    """'<base> fprobe=.. dprobe=..' / '<base> cprobe=..' -> (base, {name: [outcomes]})"""
    m = re.fullmatch(r"(data=\S+ fin=\S+ exc=\S+)((?: [a-z]probe=\S+)*)", out)
    if not m:
        return out, None
    probes = {}
    for kv in m.group(2).split():
        k, v = kv.split("=")
        probes[k] = [] if v == "none" else re.split(r"[;/]", v)
    return m.group(1), probes


def _oracle_chunked(c, out):
    out, probes = _split_probes(out)
    if c.get("probe"):
        if probes is None or set(probes) != {"fprobe", "dprobe"}:
            return {"key": "escaped-exception", "detail": out}
        # The stream has not ended before the last chunk when finishCallback runs: a noMoreData() there is silent.
        # Whenever dataCallback runs the last chunk has not been seen: a noMoreData() there reports data loss.
        if any(x != "ok" for x in probes["fprobe"]):
            return {"key": "reentrant-finish", "detail": f"noMoreData() called from finishCallback gave {probes['fprobe']} "
                    f"(deliveries {[len(unhx(x)) for x in c['d']]})"}
        if any(x != "_DataLoss" for x in probes["dprobe"]):
            return {"key": "reentrant-data", "detail": f"noMoreData() called from dataCallback gave {probes['dprobe']}"}
    p = _parse_out(out)
    if p is None:
        return {"key": "escaped-exception", "detail": out}
    data, fin, exc, at = p
    ds, stream, ref, free = _expect_chunked(c)
    v = ref["verdict"]
    if v == "overlimit":
        # beyond the documented limits the property only forbids wrong output ...
        if exc == "_MalformedChunkedDataError" and free["body"].startswith(data) and not fin:
            return None
        # ... except where the code's own bound (and its tests) demand the rejection: a size line of >= 1024 bytes
        # before its CRLF, or > 1024 bytes buffered in the size-line position with no CRLF (buffering must stay bounded)
        if ref.get("must"):
            return {"key": "overlong-accepted", "detail": f"size line over the limit ({len(stream)} bytes in all, deliveries "
                    f"{[len(d) for d in ds]}) not refused: {exc}@{at}, delivered {len(data)} bytes, fin={fin!r:.40}"}
        ref, v = free, free["verdict"]
    if v == "ok":
        body, end = ref["body"], ref["end"]
        # delivery that contains the last byte of the encoding
        acc, k = 0, None
        for i, d in enumerate(ds):
            acc += len(d)
            if acc >= end:
                k = i
                break
        extra_in_k = stream[end:acc]
        later = [i for i in range(k + 1, len(ds)) if ds[i]]
        if data != body:
            return {"key": "body-differs", "detail": f"delivered {data!r:.80} expected {body!r:.80}"}
        if exc == "_MalformedChunkedDataError":
            return {"key": "valid-rejected", "detail": f"valid in-limit stream rejected at delivery {at} (deliveries {[len(d) for d in ds]})"}
        if fin != [extra_in_k]:
            return {"key": "finish", "detail": f"finishCallback calls {fin!r:.120} expected once with {extra_in_k!r:.80}"}
        if later:
            if (exc, at) != ("RuntimeError", str(later[0])):
                return {"key": "after-finish", "detail": f"data after the last chunk: {exc}@{at}, expected RuntimeError@{later[0]}"}
        elif exc is not None:
            return {"key": "spurious-exception", "detail": f"{exc}@{at} on a complete stream"}
        return None
    if v == "incomplete":
        if fin:
            return {"key": "finish-early", "detail": f"finishCallback{fin!r:.80} before the last chunk"}
        if not ref["body"].startswith(data):
            return {"key": "body-differs", "detail": f"delivered {data!r:.80}, stream so far decodes to {ref['body']!r:.80}"}
        if exc == "_MalformedChunkedDataError":
            return {"key": "valid-rejected", "detail": f"prefix of a valid in-limit stream rejected at delivery {at}"}
        if c["end"] and (exc, at) != ("_DataLoss", "end"):
            return {"key": "no-data-loss", "detail": f"stream ended early but noMoreData gave {exc}@{at}"}
        if not c["end"] and exc is not None:
            return {"key": "spurious-exception", "detail": f"{exc}@{at}"}
        return None
    if v == "malformed":
        if fin:
            return {"key": "finish-early", "detail": f"finishCallback{fin!r:.80} on malformed stream"}
        if not ref["body"].startswith(data):
            return {"key": "body-differs", "detail": f"delivered {data!r:.80}, valid part decodes to {ref['body']!r:.80}"}
        if exc != "_MalformedChunkedDataError":
            return {"key": "malformed-accepted:" + ref["why"], "detail": f"malformed ({ref['why']}) stream {stream!r:.80}: {exc}@{at}"}
        return None
    return None


def _oracle_identity(c, out):
    out, probes = _split_probes(out)
    if c.get("probe"):
        if probes is None or set(probes) != {"cprobe"}:
            return {"key": "escaped-exception", "detail": out}
        # probes happen only once all Content-Length bytes have been handed over: nothing is missing, no data loss
        if any(x != "ok" for x in probes["cprobe"]):
            return {"key": "reentrant-identity", "detail": f"n={c['n']} deliveries={[len(unhx(x)) for x in c['d']]}: noMoreData() "
                    f"called from the callbacks once the body was complete gave {probes['cprobe']}"}
    m = re.fullmatch(r"data=(\S+) fin=(\S+) exc=(\S+)", out)
    if not m:
        return {"key": "escaped-exception", "detail": out}
    data = unhx(m.group(1))
    fin = [] if m.group(2) == "none" else [unhx(x) for x in m.group(2).split(";")]
    exc = m.group(3)
    ds = [unhx(x) for x in c["d"]]
    stream = b"".join(ds)
    n, end = c["n"], c["end"]
    raised_in_delivery = None
    if n is None:
        # body delimited by the end of the connection: every byte delivered; noMoreData = finishCallback(b"") once
        # and PotentialDataLoss
        wdata, wfin, first = stream, ([b""] if end else []), ("PotentialDataLoss@end" if end else "-")
    else:
        acc, k = 0, None
        for i, d in enumerate(ds):
            acc += len(d)
            if acc >= n:
                k = i
                break
        if k is None:
            wdata, wfin, first = stream, [], ("_DataLoss@end" if end and n != 0 else "-")
        else:
            wdata, wfin, first = stream[:n], [stream[n:acc]], "-"
            if k + 1 < len(ds):       # any later call, even empty, finds dataCallback None
                raised_in_delivery = f"RuntimeError@{k + 1}"
    if raised_in_delivery:
        wexc = raised_in_delivery
    elif end == 2:
        wexc = first + "+" + ("_DataLoss@end2" if first == "_DataLoss@end" else "-")   # same verdict, nothing called again
    elif end == 3:
        wexc = first + "+RuntimeError@post"                 # after noMoreData both callbacks are gone
    else:
        wexc = first
    got, want = (data, fin, exc), (wdata, wfin, wexc)
    if got != want:
        return {"key": "identity", "detail": f"n={n} end={end} deliveries={[len(d) for d in ds]} got {got!r:.150} expected {want!r:.150}"}
    return None


def _oracle_fromchunk(b, out):
    """one chunk `1*HEXDIG CRLF data CRLF` + rest -> (data, rest); anything else is refused (ValueError).  A size line
    with a chunk extension is valid chunked coding that fromChunk documents it does not handle: refusing it or decoding
    it correctly are both fine, decoding it wrongly is not."""
    i = b.find(CRLF)
    want = None
    if i >= 0:
        size, semi, ext = b[:i].partition(b";")
        if re.fullmatch(rb"[0-9A-Fa-f]+", size, re.S) and all(x in EXTOK for x in ext):
            n = int(size, 16)
            rest = b[i + 2:]
            if rest[n:n + 2] == CRLF:
                want = f"data={hx(rest[:n])} rest={hx(rest[n + 2:])}"
            if semi and out == "!raised ValueError":
                return None
    want = want or "!raised ValueError"
    if out != want:
        return {"key": "fromchunk", "detail": f"fromChunk({b!r:.60}) = {out:.80}, expected {want:.80}"}
    return None


def oracle(c, out):
    op = c["op"]
    if op == "chunked":
        return _oracle_chunked(c, out)
    if op == "identity":
        return _oracle_identity(c, out)
    b = unhx(c["b"])
    if op == "fromchunk":
        return _oracle_fromchunk(b, out)
    if op == "hexint":
        want = str(int(b, 16)) if re.fullmatch(rb"[0-9a-fA-F]+", b, re.S) else "!raised ValueError"
        return None if out == want else {"key": "hexint", "detail": f"_hexint({b!r}) = {out}, expected {want}"}
    if op == "decint":
        t = b.strip(b" \t")
        want = str(int(t)) if re.fullmatch(rb"[0-9]+", t, re.S) else "!raised ValueError"
        return None if out == want else {"key": "decint", "detail": f"_decint({b!r}) = {out}, expected {want}"}
    if op == "tochunk":
        want = hx(b"%x\r\n" % len(b) + b + b"\r\n")
        if out != want:
            return {"key": "tochunk", "detail": f"toChunk({b!r:.40}) = {out:.80}"}
        if b:   # and what it wrote decodes back
            r = ref_parse(unhx(out) + b"0\r\n\r\n")
            if r["verdict"] != "ok" or r["body"] != b:
                return {"key": "tochunk", "detail": f"toChunk({b!r:.40}) does not parse back"}
    return None


# ------------------------------------------------------------------------------------------------

def tag(c, out):
    op = c["op"]
    if op == "chunked":
        ds, stream, ref, free = _expect_chunked(c)
        base, probes = _split_probes(out)
        p = _parse_out(base)
        exc = p[2] if p else "?"
        n = len(ds)
        nb = "1" if n <= 1 else "2" if n == 2 else "few" if n <= 8 else "many"
        feats = ("x" if b";" in stream else "") + ("e" if ref["verdict"] == "ok" and ref["end"] < len(stream) else "") \
            + ("z" if any(not d for d in ds) else "") + ("p" if c.get("probe") else "")
        return f"ch:{c.get('why', '')}:{ref['verdict']}:{ref.get('why', '')}:{exc}:{nb}:{feats}"
    if op == "identity":
        m = re.search(r" exc=(\S+)", out)
        ev = re.sub(r"@\d+", "@i", m.group(1)) if m else "?"
        return f"id:{'none' if c['n'] is None else min(c['n'], 3)}:{ev}:{min(len(c['d']), 3)}:{c['end']}:{'p' if c.get('probe') else ''}"
    return f"{op}:{'raise' if out.startswith('!') else 'ok'}:{min(len(c['b']) // 2, 4)}"


def shrink(c):
    if c["op"] not in ("chunked", "identity"):
        return
    d = c["d"]
    for i in range(len(d) - 1):       # merge neighbours
        a, b = unhx(d[i]), unhx(d[i + 1])
        yield dict(c, d=d[:i] + [hx(a + b)] + d[i + 2:])
    for i in range(len(d)):           # drop a delivery
        yield dict(c, d=d[:i] + d[i + 1:])
    if c["op"] == "chunked" and sum(len(x) for x in d) < 400:
        for i in range(len(d)):       # drop one byte
            b = unhx(d[i])
            for j in range(len(b)):
                yield dict(c, d=d[:i] + [hx(b[:j] + b[j + 1:])] + d[i + 1:])


def search(rng, tier, disagreeing):
    """Property-directed: every 2-way split and the byte-at-a-time split of each disagreeing stream, of the corpus
    streams, and a fresh batch of valid/mutated streams; plus the full limit neighbourhoods."""
    seen = 0
    pool = [c for c in disagreeing if c.get("op") == "chunked"][:20] + [c for c in corpus() if c["op"] == "chunked"]
    for c in pool:
        stream = b"".join(unhx(x) for x in c["d"])
        pts = range(len(stream) + 1) if len(stream) <= 2000 else sorted(
            set(list(range(0, 40)) + list(range(len(stream) - 40, len(stream) + 1))))
        for p in pts:
            yield _case(_cut(stream, [p]), 1, "search-split")
            seen += 1
        if len(stream) <= 2000:
            yield _case([stream[i:i + 1] for i in range(len(stream))], 1, "search-bytes")
    for c in _line_limit_cases(rng):
        yield c
    for c in _trailer_limit_cases(rng, [-3, -2, -1, 0, 1, 2]):
        yield c
    for _ in range(300):
        enc, extra = _valid_stream(rng)
        stream = enc + extra
        for p in range(min(len(stream), 80) + 1):
            yield _case(_cut(stream, [p]), 1, "search-valid")
        m = _mutate(rng, stream)
        for p in range(min(len(m), 80) + 1):
            yield _case(_cut(m, [p]), 1, "search-mut")
